"""C02 — every isometry the library builds preserves the Minkowski form and distances (DESIGN §4 C02)."""
import math
from fractions import Fraction as F
import numpy as np
from vlib.runner import Clause
from vlib import q as Q
from vlib.canon import close, finite
from props import _qla as L
from geometry_tools import hyperbolic as H, utils, coxeter, projective, representation

LEVEL = "proof"
EXPLANATION = ("Lean theorems (every dimension, every field of characteristic 0; ordered where signs are read): "
               "IsIso closed under @ / .inv() / transpose and hence under all finite words; rotation, elliptic, loxodromic, "
               "sl2_to_so21 (det = ±1), reflection_across (closed form independent of the SVD basis), find_isometry under the "
               "kernel contract, make_orientation_preserving are isometries; IsIso <=> form preserved => cosh-distance and "
               "interior/ideal/exterior type preserved. Exact-ℚ correspondence by value for the explicit constructors and "
               "their words; exact evaluation in Lean of ‖M J Mᵀ − J‖∞ on the implementation's float output for the "
               "SVD-based constructors and hyperbolic_rep; float oracle for form residual, distance invariance and type "
               "preservation over all constructors and random words with inverses.")
ASSUMPTIONS = ["IEEE rounding within tolerance (relative 1e-9 on by-value comparisons; residuals scaled by max|M|^2)",
               "numpy.linalg.svd / inv / eigh meet their contracts (kernel contract is a hypothesis of findIsometry_isIso)",
               "cos/sin of atan2(s,c) return (c,s) to within 1e-15"]

SHAPES = [[], [], [], [2], [3], [1], [2, 2], [1, 3]]


def Jf(n1):
    return np.diag([-1.0] + [1.0] * (n1 - 1))


def fres(M):
    """float form residual of a stack of row matrices, scaled by max(1, max|M|^2)"""
    M = np.asarray(M, dtype=float)
    J = Jf(M.shape[-1])
    R = M @ J @ M.swapaxes(-1, -2) - J
    return float(np.max(np.abs(R)) / max(1.0, float(np.max(np.abs(M))) ** 2))


# ------------------------------------------------------------------------------------------------
# letters: JSON descriptions of rational constructor calls, shared by corr clauses
# ------------------------------------------------------------------------------------------------
def std_hyperplane_rows(dim):
    """rows of the hyperplane data the library builds for the normal e1 (hyperbolic.Hyperplane._compute_ideal_basis)"""
    n1 = dim + 1
    rows = [[F(int(j == 1)) for j in range(n1)]]
    for k in range(2, n1):
        rows.append([F(int(j == 0 or j == k)) for j in range(n1)])
    if n1 >= 3:
        rows.append([F(1) if j == 0 else (F(-1) if j == n1 - 1 else F(0)) for j in range(n1)])
    return rows


def gen_letter(rng, dim, kinds=None):
    # in H^1 a hyperplane is a point: Hyperplane(normal) works (repaired), explicit ideal-basis data does not exist
    kinds = kinds or (["elliptic", "loxodromic", "reflection"] + (["rotation", "reflectionD"] if dim >= 2 else [])
                      + (["sl2", "sl2"] if dim == 2 else []))
    k = rng.choice(kinds)
    if k == "rotation":
        c, s = Q.rrot(rng)
        return {"kind": k, "c": Q.qs(c), "s": Q.qs(s)}
    if k == "elliptic":
        return {"kind": k, "O": L.encM(L.rorth(rng, dim)), "cv": rng.random() < 0.6}
    if k == "loxodromic":
        u = F(rng.randint(1, 6), rng.randint(1, 6))
        if rng.random() < 0.15:
            u = -u
        return {"kind": k, "u": Q.qs(u)}
    if k == "sl2":
        A = Q.rsl2(rng)
        if rng.random() < 0.35:
            A = [A[0], [-A[1][0], -A[1][1]]]      # determinant -1
        return {"kind": k, "A": L.encM(A)}
    if k == "reflection":
        return {"kind": k, "d": L.encV(L.spacelike_vec(rng, dim))}
    if k == "reflectionD":
        while True:      # bounded condition number: invert(dual_data) is only as accurate as cond(D) allows
            g = L.random_rational_isometry(rng, dim, 2)
            D = L.mul(std_hyperplane_rows(dim), g)
            D = [[x * sc for x in r] for r, sc in zip(D, [Q.rq(rng, 6, 3, nonzero=True) for _ in D])]
            if np.linalg.cond(L.fl(D)) <= 1e3:
                break
        return {"kind": k, "D": L.encM(D)}
    raise ValueError(k)


def build_letter(l, dim):
    """the real library call for a letter"""
    k = l["kind"]
    if k == "rotation":
        return H.Isometry.standard_rotation(math.atan2(float(F(l["s"])), float(F(l["c"]))), dimension=dim)
    if k == "elliptic":
        return H.Isometry.elliptic(dim, Q.decf(l["O"]), column_vectors=l["cv"])
    if k == "loxodromic":
        return H.Isometry.standard_loxodromic(dim, float(F(l["u"])))
    if k == "sl2":
        return H.sl2_iso(Q.decf(l["A"]))
    if k == "reflection":
        return H.Hyperplane(Q.decf(l["d"])).reflection_across()
    if k == "reflectionD":
        return H.Hyperplane(Q.decf(l["D"])).reflection_across()
    raise ValueError(k)


def letter_op(l, dim):
    k = l["kind"]
    if k == "rotation":
        return {"op": "c02.rotation", "dim": dim, "c": l["c"], "s": l["s"]}
    if k == "elliptic":
        return {"op": "c02.elliptic", "O": l["O"], "column_vectors": l["cv"]}
    if k == "loxodromic":
        return {"op": "c02.loxodromic", "dim": dim, "u": l["u"]}
    if k == "sl2":
        return {"op": "c02.sl2", "A": l["A"]}
    if k == "reflection":
        return {"op": "c02.refl_closed", "d": l["d"]}
    if k == "reflectionD":
        return {"op": "c02.reflect", "D": l["D"]}
    raise ValueError(k)


def exact_letter(l, dim):
    """independent exact value (python Fractions) of the stored matrix, where a closed form is known"""
    k = l["kind"]
    if k == "rotation":
        return L.ex_rotation(F(l["c"]), F(l["s"]), dim)
    if k == "elliptic":
        M = L.elliptic_mat(Q.dec(l["O"]))
        return L.tr(M) if l["cv"] else M
    if k == "loxodromic":
        return L.ex_loxodromic(F(l["u"]), dim)
    if k == "reflection":
        return L.ex_reflection(Q.dec(l["d"]))
    if k == "reflectionD":
        return L.ex_reflection(Q.dec(l["D"])[0])
    return None


# ------------------------------------------------------------------------------------------------
# S2a: each explicit constructor by value
# ------------------------------------------------------------------------------------------------
def gen_ctor(rng, n):
    for _ in range(n):
        dim = rng.choice([1, 2, 2, 2, 3, 3, 4, 5])
        l = gen_letter(rng, dim)
        inp = {"dim": dim, "letter": l, "shape": []}
        if l["kind"] == "reflection" and dim >= 2 and rng.random() < 0.4:
            # an array of normals gives an array of hyperplanes (never exactly dim+1 of them: that shape is read as one hyperplane's data)
            shape = rng.choice([s for s in ([2], [3], [1], [2, 2], [4]) if s[-1] != dim + 1])
            inp["shape"] = shape
            inp["batch"] = [L.encV(L.spacelike_vec(rng, dim)) for _ in range(int(np.prod(shape)))]
        if l["kind"] == "sl2" and rng.random() < 0.5:
            shape = rng.choice([[2], [3], [1], [2, 2]])
            cnt = int(np.prod(shape))
            inp["shape"] = shape
            inp["batch"] = [gen_letter(rng, 2, ["sl2"])["A"] for _ in range(cnt)]
        yield inp


def run_ctor(inp):
    dim, l = inp["dim"], inp["letter"]
    if inp["shape"] and l["kind"] == "reflection":
        d = np.array([Q.decf(a) for a in inp["batch"]]).reshape(tuple(inp["shape"]) + (dim + 1,))
        iso = H.Hyperplane(d).reflection_across()
        return {"mats": L.units(iso.matrix, 2).tolist(), "shape": list(iso.matrix.shape)}
    if inp["shape"]:
        A = np.array([Q.decf(a) for a in inp["batch"]]).reshape(tuple(inp["shape"]) + (2, 2))
        iso = H.sl2_iso(A)
        return {"mats": L.units(iso.matrix, 2).tolist(), "shape": list(iso.matrix.shape)}
    iso = build_letter(l, dim)
    return {"mats": [np.asarray(iso.matrix, dtype=float).tolist()], "shape": list(iso.matrix.shape)}


def lean_ctor(inp, obs):
    if inp["shape"] and inp["letter"]["kind"] == "reflection":
        return [{"op": "c02.refl_closed", "d": a} for a in inp["batch"]]
    if inp["shape"]:
        return [{"op": "c02.sl2", "A": a} for a in inp["batch"]]
    return [letter_op(inp["letter"], inp["dim"])]


def judge_ctor(inp, obs, lr):
    kind = inp["letter"]["kind"]
    tags = {"ctor": kind, "dim": inp["dim"], "composite": bool(inp["shape"])}
    if "exc" in obs:
        return {"expected": "an isometry", "observed": obs, "tags": dict(tags, exc=obs["exc"]), "property_failure": True}
    n1 = inp["dim"] + 1
    if obs["shape"] != inp["shape"] + [n1, n1]:
        return {"expected": inp["shape"] + [n1, n1], "observed": obs["shape"], "tags": dict(tags, shape=True)}
    for k, (res, iv) in enumerate(zip(lr, obs["mats"])):
        if "err" in res:
            return {"expected": "model answer", "observed": res, "tags": dict(tags, driver_err=res["err"])}
        mv = Q.decf(res["ok"])
        iv = np.array(iv)
        scale = 1 + float(np.max(np.abs(mv)))
        if not (finite(iv) and np.max(np.abs(iv - mv)) <= 1e-9 * scale):
            return {"expected": mv.tolist(), "observed": iv.tolist(), "tags": tags}
        if not inp["shape"]:
            ex = exact_letter(inp["letter"], inp["dim"])
            if ex is not None and Q.dec(res["ok"]) != ex:
                return {"expected": "Lean model = independent closed form", "observed": [res["ok"], L.encM(ex)],
                        "tags": dict(tags, model_vs_closed_form=True)}
    return None


# ------------------------------------------------------------------------------------------------
# S2b: words of constructors with inverses, by value
# ------------------------------------------------------------------------------------------------
def gen_word(maxlen):
    def g(rng, n):
        for _ in range(n):
            dim = rng.choice([1, 2, 2, 2, 3, 3, 4, 5])
            k = rng.randint(0, maxlen)
            pool = [gen_letter(rng, dim) for _ in range(rng.randint(1, 3))]
            word = [{"l": rng.randrange(len(pool)), "inv": rng.random() < 0.4} for _ in range(k)]
            yield {"dim": dim, "pool": pool, "word": word}
    return g


def word_amp(inp, mats):
    """product over the letters of max(1, max|L|) (squared for inverted letters), times the matrix size"""
    amp = 1.0
    for w in inp["word"]:
        c = max(1.0, float(np.max(np.abs(mats[w["l"]]))))
        amp *= (c * c if w["inv"] else c) * (inp["dim"] + 1)
    return amp


def run_word(inp):
    dim = inp["dim"]
    pool = [build_letter(l, dim) for l in inp["pool"]]
    acc = H.identity(dim)
    for w in inp["word"]:
        x = pool[w["l"]]
        acc = acc @ (x.inv() if w["inv"] else x)
    M = np.asarray(acc.matrix, dtype=float)
    return {"M": M.tolist(), "cls": type(acc).__name__, "pool": [np.asarray(p.matrix, dtype=float).tolist() for p in pool]}


def lean_word2(inp, obs):
    """letters are evaluated by the model in python-side exact arithmetic where a closed form exists, otherwise the
    driver's own constructor output is needed: send the constructor ops first, the word op is built from exact
    values (closed forms) or, for sl2, from the exact rational image computed by formula"""
    dim = inp["dim"]
    mats = []
    for l in inp["pool"]:
        ex = exact_letter(l, dim)
        if ex is None:            # sl2: exact image by the closed form proved in Lean (sl2ToSo21_eq), transposed
            A = Q.dec(l["A"])
            a, b, c, d = A[0][0], A[0][1], A[1][0], A[1][1]
            G = [[(a * a + b * b + c * c + d * d) / 2, -(a * a - b * b + c * c - d * d) / 2, a * b + c * d],
                 [-(a * a + b * b - c * c - d * d) / 2, (a * a - b * b - c * c + d * d) / 2, -a * b + c * d],
                 [a * c + b * d, -a * c + b * d, a * d + b * c]]
            ex = L.tr(G)
        mats.append(L.encM(ex))
    ops = [letter_op(l, dim) for l in inp["pool"]]
    ops.append({"op": "c02.word", "size": dim + 1,
                "letters": [{"m": mats[w["l"]], "inv": w["inv"]} for w in inp["word"]]})
    return ops


def judge_word(inp, obs, lr):
    tags = {"dim": inp["dim"], "len": len(inp["word"]), "kinds": sorted({l["kind"] for l in inp["pool"]})}
    if "exc" in obs:
        return {"expected": "an isometry", "observed": obs, "tags": dict(tags, exc=obs["exc"]), "property_failure": True}
    for res in lr:
        if "err" in res:
            return {"expected": "model answer", "observed": res, "tags": dict(tags, driver_err=res["err"])}
    # the letters sent to the word op must be the model's own constructor outputs
    sent = lean_word2(inp, obs)[-1]["letters"]
    for w, s in zip(inp["word"], sent):
        if s["m"] != lr[w["l"]]["ok"]:
            return {"expected": "closed form = model constructor", "observed": [s["m"], lr[w["l"]]["ok"]],
                    "tags": dict(tags, model_vs_closed_form=True)}
    mv = Q.decf(lr[-1]["ok"])
    iv = np.array(obs["M"])
    scale = 1 + float(np.max(np.abs(mv)))
    if obs["cls"] != "Isometry":
        return {"expected": "Isometry", "observed": obs["cls"], "tags": dict(tags, cls=True)}
    # forward error of a product of floats grows with the product of the factor norms (squared for LAPACK inverses),
    # not with the norm of the result
    amp = word_amp(inp, [np.array(p) for p in obs["pool"]])
    tol = 1e-9 * scale * max(1, len(inp["word"])) + 1e-13 * amp
    if not (finite(iv) and iv.shape == mv.shape and np.max(np.abs(iv - mv)) <= tol):
        return {"expected": mv.tolist(), "observed": iv.tolist(), "tags": dict(tags, tol=tol)}
    return None


# ------------------------------------------------------------------------------------------------
# S2c: SVD-based constructors and hyperbolic_rep: exact contract residual on the float output
# ------------------------------------------------------------------------------------------------
COX = [("tri", (3, 3, -1)), ("tri", (2, -1, -1)), ("tri", (-1, 4, -1)), ("lin", (3, -1, 3)), ("tri", (2, 3, 7)), ("tri", (2, 4, 5)), ("tri", (3, 3, 4)), ("tri", (2, 3, 0)), ("tri", (3, 4, 0)), ("tri", (0, 0, 0)),
       ("tri", (4, 4, 4)), ("tri", (2, 5, 5)), ("lin", (4, 3, 5)), ("lin", (3, 5, 3)), ("lin", (5, 3, 5)), ("lin", (3, 3, 6)),
       ("lin", (3, 4, 4)), ("lin", (5, 3, 3, 3)), ("lin", (5, 3, 3, 4))]


def cox_group(spec):
    kind, p = spec
    if kind == "tri":
        return coxeter.TriangleGroup(tuple(p)), "abc"
    names = "abcde"[:len(p) + 1]
    diagram = [(names[i], names[i + 1], p[i]) for i in range(len(p))]
    for i in range(len(names)):
        for j in range(i + 2, len(names)):
            diagram.append((names[i], names[j], 2))
    return coxeter.CoxeterGroup(diagram=diagram), names


def gen_history(rng, spec, maxlen=4):
    """a random history of other representation calls made on the same CoxeterGroup object before hyperbolic_rep()"""
    kind, p = spec
    rank = 3 if kind == "tri" else len(p) + 1
    if kind == "tri":
        inf_edges = [e for e, m in zip([(0, 1), (1, 2), (2, 0)], p) if m < 0]
    else:
        inf_edges = [(i, i + 1) for i, m in enumerate(p) if m < 0]
    hist = []
    for _ in range(rng.randint(0, maxlen)):
        op = rng.choice(["hyperbolic_rep", "geometric", "geometric_diag", "canonical", "bilinear_form"] +
                        (["cartan_matrix", "tits_vinberg", "tits_vinberg"] if inf_edges else []))
        h = {"op": op}
        if op in ("cartan_matrix", "tits_vinberg"):
            params = []
            for (i, j) in inf_edges:
                if rng.random() < 0.8:
                    a = -rng.choice([2.0, 2.5, 3.0, 4.0, 6.0])
                    if rng.random() < 0.5:
                        params.append([i, j, a])                      # symmetric completion by the library
                    else:
                        b = -rng.choice([1.0, 1.5, 2.0, 5.0])
                        params.append([i, j, a])
                        params.append([j, i, b])                      # non-symmetric (Vinberg deformation)
            h["params"] = params
            h["as_matrix"] = rng.random() < 0.3
            h["rank"] = rank
        hist.append(h)
    return hist


def apply_history(G, hist):
    for h in hist:
        op = h["op"]
        if op == "hyperbolic_rep":
            G.hyperbolic_rep()
        elif op == "geometric":
            G.geometric_representation()
        elif op == "geometric_diag":
            G.geometric_representation(diagonalize=True)
        elif op == "canonical":
            G.canonical_representation()
        elif op == "bilinear_form":
            G.bilinear_form()
        else:
            if h["as_matrix"]:
                P = np.zeros((h["rank"], h["rank"]))
                for i, j, v in h["params"]:
                    P[i, j] = v
            else:
                P = {(i, j): v for i, j, v in h["params"]}
            (G.cartan_matrix if op == "cartan_matrix" else G.tits_vinberg_rep)(P)


def gen_contract(rng, n):
    kinds = ["origin_to", "origin_to", "tv_origin_to", "tv_origin_to", "isometry_to", "timelike_to", "spacelike_to",
             "frame_to", "hyperbolic_rep"]
    for _ in range(n):
        kind = rng.choice(kinds)
        dim = rng.choice([1, 2, 2, 3, 3, 4, 5])
        shape = rng.choice(SHAPES)
        cnt = int(np.prod(shape)) if shape else 1
        fo = rng.random() < 0.5
        inp = {"kind": kind, "dim": dim, "shape": shape, "force_oriented": fo}
        if kind == "origin_to":
            inp["pts"] = [L.encV(Q.rball(rng, dim)) for _ in range(cnt)]
            # a point is projective: any non-zero multiple of the representative, of any magnitude and sign
            inp["scale"] = [Q.qs(rng.choice([Q.rq(rng, 20, 5, nonzero=True), F(1, 50000), F(-3, 1000000), F(1000), F(-1, 3), F(1, 10 ** 9), F(-10 ** 9)]))
                            for _ in range(cnt)]
        elif kind in ("tv_origin_to", "isometry_to"):
            m = 2 if kind == "isometry_to" else 1
            inp["frames"] = [[L.encM(L.random_rational_isometry(rng, dim, 2)[:2]) for _ in range(cnt)] for _ in range(m)]
            inp["vscale"] = Q.qs(F(rng.randint(1, 9), rng.randint(1, 4)))
            inp["pscale"] = Q.qs(rng.choice([F(1), F(1), F(-1), F(-5, 2), F(1, 3)]))      # either sheet, any scale
        elif kind in ("timelike_to", "spacelike_to"):
            inp["shape"] = []
            g = L.random_rational_isometry(rng, dim, 2)
            sc = rng.choice([Q.rq(rng, 9, 4, nonzero=True), F(1, 40000), F(-7, 1000000), F(500)])
            row = g[0] if kind == "timelike_to" else g[1]
            inp["v"] = L.encV([x * sc for x in row])
        elif kind == "frame_to":
            k = rng.randint(1, dim + 1)
            g = L.random_rational_isometry(rng, dim, 2)
            # a k-frame whose Gram–Schmidt starts with a timelike vector: rows of g mixed by a unipotent lower-triangular matrix
            T = [[F(rng.randint(-2, 2), rng.randint(1, 2)) if j < i else (F(rng.randint(1, 3), rng.randint(1, 2)) if j == i else F(0))
                  for j in range(k)] for i in range(k)]
            inp["frames"] = [L.encM(L.mul(T, g[:k])) for _ in range(cnt)]
        elif kind == "hyperbolic_rep":
            spec = rng.choice(COX)
            rank = 3 if spec[0] == "tri" else len(spec[1]) + 1
            names = "abcde"[:rank]
            inp["dim"] = rank - 1
            inp["shape"] = []
            inp["cox"] = [spec[0], list(spec[1])]
            inp["words"] = ["".join(rng.choice(names + names.upper()) for _ in range(rng.randint(0, 6))) for _ in range(4)]
            inp["history"] = gen_history(rng, spec)
        yield inp


def _frames(inp, i):
    return np.array([Q.decf(f) for f in inp["frames"][i]]).reshape(tuple(inp["shape"]) + (2, inp["dim"] + 1))


def run_contract(inp):
    kind, dim, shape, fo = inp["kind"], inp["dim"], tuple(inp["shape"]), inp["force_oriented"]
    out = {}
    if kind == "origin_to":
        X = np.array([[float(F(s) * x) for x in L.hyperboloid_from_poincare(Q.dec(p))] for p, s in zip(inp["pts"], inp["scale"])])
        P = H.Point(X.reshape(shape + (dim + 1,)))
        iso = P.origin_to(force_oriented=fo)
    elif kind == "tv_origin_to":
        fr = _frames(inp, 0)
        T = H.TangentVector(H.Point(fr[..., 0, :] * float(F(inp.get("pscale", "1")))), fr[..., 1, :] * float(F(inp["vscale"])))
        iso = T.origin_to(force_oriented=fo)
    elif kind == "isometry_to":
        f0, f1 = _frames(inp, 0), _frames(inp, 1)
        T0 = H.TangentVector(H.Point(f0[..., 0, :] * float(F(inp.get("pscale", "1")))), f0[..., 1, :] * float(F(inp["vscale"])))
        T1 = H.TangentVector(H.Point(f1[..., 0, :].copy()), f1[..., 1, :].copy())
        iso = T0.isometry_to(T1, force_oriented=fo)
    elif kind == "timelike_to":
        iso = H.timelike_to(Q.decf(inp["v"]), force_oriented=fo)
    elif kind == "spacelike_to":
        iso = H.spacelike_to(Q.decf(inp["v"]), force_oriented=fo)
    elif kind == "frame_to":
        fr = np.array([Q.decf(f) for f in inp["frames"]])
        fr = fr.reshape(shape + fr.shape[-2:])
        iso = H.Isometry(utils.find_isometry(H.minkowski(dim + 1), fr, fo), column_vectors=False)
    elif kind == "hyperbolic_rep":
        G, names = cox_group((inp["cox"][0], tuple(inp["cox"][1])))
        apply_history(G, inp.get("history", []))
        rep = G.hyperbolic_rep()
        iso = rep.isometries(inp["words"] + list(names))
        out["cls"] = type(iso).__name__
        fresh, _ = cox_group((inp["cox"][0], tuple(inp["cox"][1])))
        out["fresh"] = np.asarray(fresh.hyperbolic_rep().isometries(inp["words"] + list(names)).matrix, dtype=float).tolist()
    M = np.asarray(iso.matrix, dtype=float)
    out.update(shape=list(M.shape), mats=L.units(M, 2).tolist())
    if fo and kind != "hyperbolic_rep":
        out["dets"] = np.linalg.det(L.units(M, 2)).tolist()
    return out


def _frame_ops(inp):
    """the model's own constructor (GS.originTo / tangentOriginTo / spacelikeTo, no kernel rows: only the rows the
    algorithm determines) on the exact inputs, one op per unit"""
    kind = inp["kind"]
    if kind == "origin_to":
        return [{"op": "c02.frame", "kind": kind, "x": L.encV([F(s) * x for x in L.hyperboloid_from_poincare(Q.dec(p))])}
                for p, s in zip(inp["pts"], inp["scale"])]
    if kind == "tv_origin_to":
        ps, vs = F(inp.get("pscale", "1")), F(inp["vscale"])
        return [{"op": "c02.frame", "kind": kind, "x": L.encV([ps * t for t in Q.dec(f)[0]]), "v": L.encV([vs * t for t in Q.dec(f)[1]])}
                for f in inp["frames"][0]]
    if kind == "spacelike_to":
        # the completed row t = e0 - projection(e0, v̂) needs √(1 + v̂₀²), rarely rational: the Gram–Schmidt rows before the
        # final normalize and their square-norms are asked for, and normalised in floats here
        return [{"op": "c02.frame", "kind": kind, "v": inp["v"], "unnormalized": True}]
    return []


def lean_contract(inp, obs):
    if "exc" in obs:
        return []
    return [{"op": "c02.residual", "M": L.fenc(np.array(m))} for m in obs["mats"]] + _frame_ops(inp)


def _expected_rows(inp):
    """rows of the result that the algorithm determines, exactly: {row index: [unit vectors]} (sign included)"""
    kind = inp["kind"]
    if kind == "origin_to":
        out = []
        for p, s in zip(inp["pts"], inp["scale"]):
            # (repaired 9e8c9e6) the representative on the upper sheet is used whatever the sign of the stored one
            out.append({0: L.hyperboloid_from_poincare(Q.dec(p))})
        return out
    if kind == "tv_origin_to":
        # (repaired 9e8c9e6) (x, v) is moved to the upper sheet: rows x̂ and σ·v̂ with σ the sign of the stored base point
        sg = 1 if F(inp.get("pscale", "1")) > 0 else -1
        return [{0: Q.dec(f)[0], 1: [sg * t for t in Q.dec(f)[1]]} for f in inp["frames"][0]]
    if kind in ("timelike_to", "spacelike_to"):
        v = Q.dec(inp["v"])
        q = abs(L.mink(v, v))
        r = F(math.isqrt(q.numerator), math.isqrt(q.denominator))
        if r * r != q:
            return None
        return [{(0 if kind == "timelike_to" else 1): [x / r for x in v]}]
    return None


def judge_contract(inp, obs, lr):
    kind = inp["kind"]
    tags = {"ctor": kind, "dim": inp["dim"], "composite": bool(inp["shape"]), "force_oriented": inp["force_oriented"]}
    if "exc" in obs:
        return {"expected": "an isometry", "observed": obs, "tags": dict(tags, exc=obs["exc"]), "property_failure": True}
    n1 = inp["dim"] + 1
    if kind == "hyperbolic_rep":
        want = [len(inp["words"]) + n1, n1, n1]
    else:
        want = inp["shape"] + [n1, n1]
    if obs["shape"] != want:
        return {"expected": want, "observed": obs["shape"], "tags": dict(tags, shape=True), "property_failure": True}
    for k, (res, m) in enumerate(zip(lr, obs["mats"])):
        if "err" in res:
            return {"expected": "model answer", "observed": res, "tags": dict(tags, driver_err=res["err"])}
        r = float(F(res["ok"]))
        sc = max(1.0, float(np.max(np.abs(m))) ** 2)
        if not (finite(np.array(m)) and r <= 1e-9 * sc):
            return {"expected": "‖M J Mᵀ − J‖∞ ≤ 1e-9·max(1,|M|²) (evaluated exactly in Lean on the float output)",
                    "observed": {"residual": r, "M": m}, "tags": dict(tags, residual=True), "property_failure": True}
    if "fresh" in obs and not close(np.array(obs["mats"]), np.array(obs["fresh"]), 1e-9):
        return {"expected": "hyperbolic_rep() of a group object does not depend on the representations requested from it before",
                "observed": {"history": inp.get("history"), "with_history": obs["mats"][0], "fresh": obs["fresh"][0]},
                "tags": dict(tags, history_dependent=True), "property_failure": True}
    if "dets" in obs and not all(d > 0 for d in obs["dets"]):
        return {"expected": "positive determinant with force_oriented=True", "observed": obs["dets"],
                "tags": dict(tags, orientation=True), "property_failure": True}
    # the rows the algorithm determines, computed by the model's constructor itself (c02.frame)
    for m, res in zip(obs["mats"], lr[len(obs["mats"]):]):
        if "err" in res:
            if res["err"] == "irrational-root":
                continue      # a root the model would need is irrational for this input: nothing to compare by value
            return {"expected": "model answer", "observed": res, "tags": dict(tags, driver_err=res["err"])}
        ok = res["ok"]
        if isinstance(ok, dict):
            ok = [[float(x) / math.sqrt(abs(float(F(q)))) for x in r] for r, q in zip(Q.dec(ok["rows"]), ok["norms"])]
        else:
            ok = Q.dec(ok)
        for i, v in enumerate(ok):
            # a row is prescribed as a point / direction: up to sign (and make_orientation_preserving may negate the last row)
            if not (close(np.array(m)[i], L.fl(v), 1e-9) or close(-np.array(m)[i], L.fl(v), 1e-9)):
                return {"expected": {"row": i, "model value": [float(x) for x in v]}, "observed": np.array(m)[i].tolist(),
                        "tags": dict(tags, row=i, model_frame=True)}
    rows = _expected_rows(inp)
    if rows:
        for ex, m in zip(rows, obs["mats"]):
            for i, v in ex.items():
                # a row is prescribed as a point / direction: up to sign (and make_orientation_preserving may negate the last row)
                ok = close(np.array(m)[i], L.fl(v), 1e-9) or close(-np.array(m)[i], L.fl(v), 1e-9)
                if not ok:
                    return {"expected": {"row": i, "value": [float(x) for x in v]}, "observed": np.array(m)[i].tolist(),
                            "tags": dict(tags, row=i)}
    return None


# ------------------------------------------------------------------------------------------------
# S3: the property itself on the implementation — float parameters, every constructor, words with inverses
# ------------------------------------------------------------------------------------------------
def fball(rng, dim, rmax=0.9):
    v = [rng.gauss(0, 1) for _ in range(dim)]
    nv = math.sqrt(sum(x * x for x in v)) or 1.0
    r = rmax * rng.random() ** (1.0 / dim)
    return [x / nv * r for x in v]


def gen_fletter(rng, dim, tmax):
    kinds = ["origin_to", "tv_origin_to", "isometry_to", "elliptic", "loxodromic", "timelike_to", "spacelike_to", "reflection"]
    if dim >= 2:
        kinds += ["rotation", "reflectionD"]
    if dim == 2:
        kinds += ["sl2", "sl2", "cox"]
    if dim == 3:
        kinds += ["cox"]
    k = rng.choice(kinds)
    l = {"kind": k, "fo": rng.random() < 0.5}
    if k in ("origin_to", "timelike_to"):
        l["p"] = fball(rng, dim, math.tanh(tmax / 2))
        l["s"] = rng.choice([1.0, -1.0, 0.3, 2.5, 2e-5, -3e-6, 1e3, 1e-9, -1e9])
    elif k in ("tv_origin_to", "isometry_to", "spacelike_to"):
        l["p"] = fball(rng, dim, math.tanh(tmax / 2))
        l["v"] = [rng.gauss(0, 1) for _ in range(dim + 1)]
        l["p2"] = fball(rng, dim, math.tanh(tmax / 2))
        l["v2"] = [rng.gauss(0, 1) for _ in range(dim + 1)]
    elif k == "elliptic":
        q, r = np.linalg.qr(np.array([[rng.gauss(0, 1) for _ in range(dim)] for _ in range(dim)]))
        l["O"] = q.tolist()
        l["cv"] = rng.random() < 0.5
    elif k == "loxodromic":
        l["u"] = math.exp(rng.uniform(-tmax, tmax))
    elif k == "rotation":
        l["angle"] = rng.uniform(-7, 7)
        l["pack"] = rng.choice(["float", "np"])
    elif k in ("reflection", "reflectionD"):
        while True:
            d = [rng.gauss(0, 1) for _ in range(dim + 1)]
            if -d[0] ** 2 + sum(x * x for x in d[1:]) > 0.2:
                break
        l["d"] = d
        l["rowscale"] = [rng.choice([-1, 1]) * math.exp(rng.uniform(-2, 2)) for _ in range(dim + 1)]
    elif k == "sl2":
        t = rng.uniform(-tmax / 2, tmax / 2)
        a, b = rng.uniform(0, 6.3), rng.uniform(0, 6.3)
        R = lambda x: np.array([[math.cos(x), -math.sin(x)], [math.sin(x), math.cos(x)]])
        A = R(a) @ np.diag([math.exp(t), math.exp(-t)]) @ R(b)
        if rng.random() < 0.4:
            A = A @ np.diag([1.0, -1.0])
        l["A"] = A.tolist()
    elif k == "cox":
        spec = rng.choice([c for c in COX if (3 if c[0] == "tri" else len(c[1]) + 1) == dim + 1])
        names = "abcde"[:dim + 1]
        l["cox"] = [spec[0], list(spec[1])]
        l["w"] = "".join(rng.choice(names + names.upper()) for _ in range(rng.randint(1, 5)))
        l["history"] = gen_history(rng, spec)
    return l


def build_fletter(l, dim):
    k = l["kind"]
    if k == "origin_to":
        x = H.Point(np.array(l["p"]), model="klein").proj_data * l["s"]
        return H.Point(x.copy()).origin_to(force_oriented=l["fo"])
    if k == "timelike_to":
        x = H.Point(np.array(l["p"]), model="klein").hyperboloid_coords().copy() * l["s"]
        return H.timelike_to(x, force_oriented=l["fo"])
    if k in ("tv_origin_to", "isometry_to", "spacelike_to"):
        T = H.TangentVector(H.Point(np.array(l["p"]), model="klein"), np.array(l["v"]))
        if k == "tv_origin_to":
            return T.origin_to(force_oriented=l["fo"])
        if k == "spacelike_to":
            return H.spacelike_to(np.array(T.vector, dtype=float).copy(), force_oriented=l["fo"])
        T2 = H.TangentVector(H.Point(np.array(l["p2"]), model="klein"), np.array(l["v2"]))
        return T.isometry_to(T2, force_oriented=l["fo"])
    if k == "elliptic":
        return H.Isometry.elliptic(dim, np.array(l["O"]), column_vectors=l["cv"])
    if k == "loxodromic":
        return H.Isometry.standard_loxodromic(dim, l["u"])
    if k == "rotation":
        a = l["angle"] if l["pack"] == "float" else np.float64(l["angle"])
        return H.Isometry.standard_rotation(a, dimension=dim)
    if k == "reflection":
        return H.Hyperplane(np.array(l["d"])).reflection_across()
    if k == "reflectionD":
        # hyperplane data is projective row by row: rescale the rows the library computed and build the hyperplane from data
        data = np.asarray(H.Hyperplane(np.array(l["d"])).proj_data, dtype=float) * np.array(l["rowscale"])[:, None]
        return H.Hyperplane(data).reflection_across()
    if k == "sl2":
        return H.sl2_iso(np.array(l["A"]))
    if k == "cox":
        G, _ = cox_group((l["cox"][0], tuple(l["cox"][1])))
        apply_history(G, l.get("history", []))
        return G.hyperbolic_rep()[l["w"]]
    raise ValueError(k)


def gen_oracle(maxlen, tmax):
    def g(rng, n):
        for _ in range(n):
            dim = rng.choice([1, 2, 2, 2, 3, 3, 4, 5])
            pool = [gen_fletter(rng, dim, tmax) for _ in range(rng.randint(1, 3))]
            word = [{"l": rng.randrange(len(pool)), "inv": rng.random() < 0.35} for _ in range(rng.randint(1, maxlen))]
            npts = 4
            yield {"dim": dim, "pool": pool, "word": word,
                   "interior": [fball(rng, dim, 0.9) for _ in range(npts)],
                   "ideal": [(lambda v: [x / math.sqrt(sum(y * y for y in v)) for x in v])([rng.gauss(0, 1) for _ in range(dim)])
                             for _ in range(npts)],
                   "exterior": [(lambda v, r: [x / math.sqrt(sum(y * y for y in v)) * r for x in v])(
                       [rng.gauss(0, 1) for _ in range(dim)], rng.uniform(1.2, 3)) for _ in range(npts)],
                   "pshape": rng.choice([[4], [2, 2], [4, 1]])}
    return g


def run_oracle(inp):
    dim = inp["dim"]
    pool = [build_fletter(l, dim) for l in inp["pool"]]
    out = {"letters": [{"kind": l["kind"], "res": fres(p.matrix)} for l, p in zip(inp["pool"], pool)]}
    acc = None
    for w in inp["word"]:
        x = pool[w["l"]]
        x = x.inv() if w["inv"] else x
        acc = x if acc is None else acc @ x
    M = np.asarray(acc.matrix, dtype=float)
    out["res"] = fres(M)
    out["norm"] = float(np.max(np.abs(M)))
    out["amp"] = word_amp(inp, [np.asarray(p.matrix, dtype=float) for p in pool])
    out["cls"] = type(acc).__name__
    ps = tuple(inp["pshape"])
    P = H.Point(np.array(inp["interior"]).reshape(ps + (dim,)), model="klein")
    I = H.Point(np.array(inp["ideal"]).reshape(ps + (dim,)), model="klein")
    E = H.Point(np.array(inp["exterior"]).reshape(ps + (dim,)), model="klein")
    Pq = H.Point(np.roll(np.array(inp["interior"]), 1, axis=0).reshape(ps + (dim,)), model="klein")
    d0 = np.asarray(P.distance(Pq), dtype=float)
    d1 = np.asarray((acc @ P).distance(acc @ Pq), dtype=float)
    out["d0"], out["d1"] = d0.reshape(-1).tolist(), d1.reshape(-1).tolist()
    J = Jf(dim + 1)

    def rel(X):
        X = np.asarray(X, dtype=float).reshape(-1, dim + 1)
        return (np.einsum("ij,jk,ik->i", X, J, X) / np.einsum("ij,ij->i", X, X)).tolist()
    out["before"] = {"interior": rel(P.proj_data), "ideal": rel(I.proj_data), "exterior": rel(E.proj_data)}
    out["after"] = {"interior": rel((acc @ P).proj_data), "ideal": rel((acc @ I).proj_data), "exterior": rel((acc @ E).proj_data)}
    out["imgcls"] = type(acc @ P).__name__
    # (G16) one composite holding interior, ideal and exterior members: member i behaves like the single object
    mixed = np.array([inp["interior"][0], inp["ideal"][0], inp["exterior"][0], inp["ideal"][1], inp["interior"][1], inp["exterior"][1]])
    Mx = H.Point(mixed.reshape((2, 3, dim)), model="klein")
    out["mixed_after"] = rel((acc @ Mx).proj_data)
    out["mixed_single"] = [rel((acc @ H.Point(m.copy(), model="klein")).proj_data)[0] for m in mixed]
    if out["amp"] <= 1e3:
        out["pred"] = {"interior": bool(np.all(H.timelike((acc @ P).proj_data))),
                       "ideal": bool(np.all(H.lightlike(np.asarray((acc @ I).proj_data) / np.max(np.abs((acc @ I).proj_data), axis=-1, keepdims=True)))),
                       "exterior": bool(np.all(H.spacelike((acc @ E).proj_data)))}
    # (G2/G3) constructors keep no state: overwrite the matrices handed out, build every letter again, compare
    snap = [np.array(p.matrix, dtype=float, copy=True) for p in pool]
    for p in pool:
        try:
            p.matrix[...] = 0.0
        except Exception:
            pass
    rebuilt = [np.asarray(build_fletter(l, dim).matrix, dtype=float) for l in inp["pool"]]
    FRAME_ROWS = {"origin_to": [0], "timelike_to": [0], "spacelike_to": [1], "tv_origin_to": [0, 1]}      # else: the whole matrix
    devs = []
    for l, a, b in zip(inp["pool"], snap, rebuilt):
        if l["kind"] == "isometry_to":
            devs.append(0.0 if fres(b) <= 1e-9 else 1.0)          # a product of two frame completions: only "is an isometry" is determined
            continue
        rows = FRAME_ROWS.get(l["kind"])
        if rows is None:
            devs.append(float(np.max(np.abs(a - b)) / (1 + np.max(np.abs(a)))))
        else:
            devs.append(max(float(min(np.max(np.abs(a[i] - b[i])), np.max(np.abs(a[i] + b[i]))) / (1 + np.max(np.abs(a)))) for i in rows))
            devs.append(0.0 if fres(b) <= 1e-9 else 1.0)
    out["rebuild_dev"] = max(devs)
    return out


def judge_oracle(inp, obs, lr):
    tags = {"dim": inp["dim"], "kinds": sorted({l["kind"] for l in inp["pool"]})}
    if "exc" in obs:
        return {"expected": "isometries", "observed": obs, "tags": dict(tags, exc=obs["exc"])}
    for l in obs["letters"]:
        if not (l["res"] <= 1e-9):
            return {"expected": "constructor output preserves the form: max|MJMᵀ−J|/max(1,|M|²) ≤ 1e-9", "observed": l,
                    "tags": {"ctor": l["kind"], "dim": inp["dim"], "residual": True}}
    # float error of the product is governed by the product of the factor norms (amp), not by the norm of the result
    amp = max(obs["amp"], max(1.0, obs["norm"]) ** 2)
    if not (obs["res"] <= 1e-9 * len(inp["word"]) + 1e-13 * amp):
        return {"expected": "word of isometries/inverses preserves the form", "observed": obs["res"], "tags": dict(tags, word=True)}
    if not obs.get("rebuild_dev", 0) <= 1e-12:
        return {"expected": "the same constructor call gives the same isometry again (after other calls, and after the first result was overwritten)",
                "observed": obs["rebuild_dev"], "tags": dict(tags, state=True)}
    if obs["cls"] != "Isometry" or obs["imgcls"] != "Point":
        return {"expected": "Isometry / Point", "observed": [obs["cls"], obs["imgcls"]], "tags": dict(tags, cls=True)}
    n2 = amp
    for a, b in zip(obs["d0"], obs["d1"]):
        tol = 1e-9 * n2 * max(1.0, math.cosh(a)) / max(math.sinh(a), 1e-3)
        if not (math.isfinite(b) and abs(a - b) <= tol + 1e-7):
            return {"expected": f"distance {a} unchanged (tol {tol})", "observed": b, "tags": dict(tags, distance=True)}
    tol = 1e-11 * n2          # relative to |y|²; a point is reported only when it lands significantly on the wrong side
    for a, b in zip(obs["before"]["interior"], obs["after"]["interior"]):
        if not b < tol:
            return {"expected": "interior stays interior", "observed": [a, b], "tags": dict(tags, type="interior")}
    for a, b in zip(obs["before"]["ideal"], obs["after"]["ideal"]):
        if not abs(b) <= 1e-9 + tol:
            return {"expected": "ideal stays ideal (|<y,y>|/|y|² ≤ 1e-9 + 1e-11·amp)", "observed": [a, b], "tags": dict(tags, type="ideal")}
    for a, b in zip(obs["before"]["exterior"], obs["after"]["exterior"]):
        if not b > -tol:
            return {"expected": "exterior stays exterior", "observed": [a, b], "tags": dict(tags, type="exterior")}
    kinds_ = ["interior", "ideal", "exterior", "ideal", "interior", "exterior"]
    for kd, b, c in zip(kinds_, obs.get("mixed_after", []), obs.get("mixed_single", [])):
        bad = (kd == "interior" and not b < tol) or (kd == "ideal" and not abs(b) <= 1e-9 + tol) or (kd == "exterior" and not b > -tol)
        if bad or abs(b - c) > 1e-9 + 10 * tol:
            return {"expected": f"member of a mixed composite ({kd}) keeps its type and equals the single-object image ({c})", "observed": b,
                    "tags": dict(tags, type=kd, mixed_composite=True)}
    if "pred" in obs and not all(obs["pred"].values()):
        return {"expected": "hyperbolic.timelike/lightlike/spacelike of the images", "observed": obs["pred"], "tags": dict(tags, type="predicates")}
    return None


# ------------------------------------------------------------------------------------------------
# S3 (regression, repaired in 9eb3aca): hyperplanes of H^1 are points; Hyperplane(normal) used to build a lightlike row
# that is not orthogonal to the normal and reflection_across() silently returned a non-isometry
# ------------------------------------------------------------------------------------------------
def gen_h1(rng, n):
    for _ in range(n):
        while True:
            d = [rng.gauss(0, 1), rng.gauss(0, 1)]
            if -d[0] ** 2 + d[1] ** 2 > 0.2:
                break
        yield {"d": d}


def run_h1(inp):
    R = H.Hyperplane(np.array(inp["d"])).reflection_across()
    return {"res": fres(R.matrix), "M": np.asarray(R.matrix, dtype=float).tolist()}


def judge_h1(inp, obs, lr):
    if "exc" in obs:
        return {"expected": "a reflection (or at least a GeometryError)", "observed": obs, "tags": {"ctor": "reflection", "dim": 1, "exc": obs["exc"]}} \
            if obs["exc"] != "GeometryError" else None
    if not obs["res"] <= 1e-9:
        return {"expected": "the reflection of H^1 in the point with normal d preserves the form", "observed": obs,
                "tags": {"ctor": "reflection", "dim": 1, "h1_hyperplane": True}}
    return None


# ------------------------------------------------------------------------------------------------
# S3: number packagings of the constructor parameters (integer-valued parameters passed as Python int, NumPy integer
# scalars, 0-d integer arrays, integer arrays / lists, float32): the value is the same, so must be the isometry
# ------------------------------------------------------------------------------------------------
SCALAR_PACKS = ["pyint", "npint64", "npint32", "zerod_int", "pyfloat", "npfloat64", "npfloat32", "zerod_float"]
ARRAY_PACKS = ["int64", "int32", "list_int", "float64", "float32", "list_float"]
ND_PACKS = ["int64", "int32", "float64", "float32"]      # timelike_to / spacelike_to / TangentVector take ndarrays
INT_PACKS = {"pyint", "npint64", "npint32", "zerod_int", "int64", "int32", "list_int"}


def pack_scalar(v, pk):
    return {"pyint": int(v), "npint64": np.int64(v), "npint32": np.int32(v), "zerod_int": np.array(int(v)), "pyfloat": float(v),
            "npfloat64": np.float64(v), "npfloat32": np.float32(v), "zerod_float": np.array(float(v))}[pk]


def pack_array(a, pk):
    a = np.array(a)
    if pk == "list_int":
        return a.astype(int).tolist()
    if pk == "list_float":
        return a.astype(float).tolist()
    return a.astype(pk)


def int_spacelike(rng, dim):
    while True:
        d = [rng.randint(-3, 3) for _ in range(dim + 1)]
        if -d[0] ** 2 + sum(x * x for x in d[1:]) > 0:
            return d


def int_timelike(rng, dim):
    while True:
        d = [rng.randint(-4, 4) for _ in range(dim + 1)]
        if -d[0] ** 2 + sum(x * x for x in d[1:]) < 0:
            return d


def gen_pack(rng, n):
    for _ in range(n):
        dim = rng.choice([1, 2, 2, 3, 4])
        kind = rng.choice(["loxodromic", "loxodromic", "rotation", "elliptic", "sl2", "reflection", "origin_to", "timelike_to",
                           "spacelike_to", "tangent", "mixed_word", "mixed_word"])
        if kind == "mixed_word":
            # (G4) letters of different dtypes composed in both orders
            dim = rng.choice([2, 3])
            parts = []
            for _ in range(rng.randint(2, 3)):
                pk_kind = rng.choice(["loxodromic", "rotation", "elliptic"])
                sub = {"kind": pk_kind, "dim": dim}
                if pk_kind == "loxodromic":
                    sub.update(v=rng.choice([2, 3, -2]), pack=rng.choice(SCALAR_PACKS))
                elif pk_kind == "rotation":
                    sub.update(v=rng.choice([1, 2, -3]), pack=rng.choice(SCALAR_PACKS))
                else:
                    perm = list(range(dim))
                    rng.shuffle(perm)
                    sub.update(v=[[(rng.choice([-1, 1]) if perm[i] == j else 0) for j in range(dim)] for i in range(dim)],
                               pack=rng.choice(ARRAY_PACKS), cv=rng.random() < 0.5)
                parts.append(sub)
            yield {"kind": kind, "dim": dim, "parts": parts, "pack": "+".join(p_["pack"] for p_ in parts)}
            continue
        if kind == "rotation" and dim < 2:
            dim = 2
        if kind == "sl2":
            dim = 2
        if kind == "reflection" and dim < 1:
            dim = 2
        inp = {"kind": kind, "dim": dim}
        if kind == "loxodromic":
            inp.update(v=rng.choice([2, 3, -2, 5, 1]), pack=rng.choice(SCALAR_PACKS))
        elif kind == "rotation":
            inp.update(v=rng.choice([1, 2, -3, 0, 4]), pack=rng.choice(SCALAR_PACKS))
        elif kind == "elliptic":
            perm = list(range(dim))
            rng.shuffle(perm)
            O = [[(rng.choice([-1, 1]) if perm[i] == j else 0) for j in range(dim)] for i in range(dim)]
            inp.update(v=O, pack=rng.choice(ARRAY_PACKS), cv=rng.random() < 0.5)
        elif kind == "sl2":
            A = [[1, 0], [0, 1]]
            for _ in range(3):      # SL(2,Z): product of integer elementary matrices
                t = rng.randint(-2, 2)
                E = [[1, t], [0, 1]] if rng.random() < 0.5 else [[1, 0], [t, 1]]
                A = [[sum(A[i][k] * E[k][j] for k in range(2)) for j in range(2)] for i in range(2)]
            if rng.random() < 0.4:
                A = [A[0], [-A[1][0], -A[1][1]]]
            shape = rng.choice([[], [], [2]])
            inp.update(v=A if not shape else [A, [[1, 1], [0, 1]]], pack=rng.choice(ARRAY_PACKS), shape=shape)
        elif kind in ("reflection", "spacelike_to"):
            inp.update(v=int_spacelike(rng, dim), pack=rng.choice(ARRAY_PACKS if kind == "reflection" else ND_PACKS))
        elif kind in ("origin_to", "timelike_to"):
            inp.update(v=int_timelike(rng, dim), pack=rng.choice(ARRAY_PACKS if kind == "origin_to" else ND_PACKS))
        elif kind == "tangent":
            v = int_timelike(rng, dim)
            while True:      # a tangent direction: not a multiple of the base point
                w = [rng.randint(-3, 3) for _ in range(dim + 1)]
                if np.linalg.matrix_rank(np.array([v, w], dtype=float)) == 2:
                    break
            inp.update(v=v, w=w, pack=rng.choice(ND_PACKS))
        yield inp


def build_pack(inp, pk):
    kind, dim = inp["kind"], inp["dim"]
    if kind == "loxodromic":
        return H.Isometry.standard_loxodromic(dim, pack_scalar(inp["v"], pk))
    if kind == "rotation":
        return H.Isometry.standard_rotation(pack_scalar(inp["v"], pk), dimension=dim)
    if kind == "elliptic":
        return H.Isometry.elliptic(dim, pack_array(inp["v"], pk), column_vectors=inp["cv"])
    if kind == "sl2":
        return H.sl2_iso(pack_array(inp["v"], pk))
    if kind == "reflection":
        return H.Hyperplane(pack_array(inp["v"], pk)).reflection_across()
    if kind == "spacelike_to":
        return H.spacelike_to(pack_array(inp["v"], pk))
    if kind == "origin_to":
        return H.Point(pack_array(inp["v"], pk)).origin_to()
    if kind == "timelike_to":
        return H.timelike_to(pack_array(inp["v"], pk))
    if kind == "tangent":
        return H.TangentVector(H.Point(pack_array(inp["v"], pk)), pack_array(inp["w"], pk)).origin_to()
    raise ValueError(kind)


def run_pack(inp):
    if inp["kind"] == "mixed_word":
        def word(packed):
            accs = []
            for order in (inp["parts"], inp["parts"][::-1]):
                acc = None
                for sub in order:
                    scalar = sub["kind"] in ("loxodromic", "rotation")
                    x = build_pack(sub, sub["pack"] if packed else ("pyfloat" if scalar else "float64"))
                    acc = x if acc is None else acc @ x
                accs.append(np.asarray(acc.matrix, dtype=float))
            return np.array(accs)
        ref = word(False)
        try:
            M = word(True)
        except Exception as e:
            return {"exc": type(e).__name__, "msg": str(e)[:160], "ref_res": fres(ref)}
        return {"res": fres(M), "ref_res": fres(ref), "same": bool(np.max(np.abs(M - ref)) <= 1e-5 * (1 + np.max(np.abs(ref)))), "M": M.tolist()}
    scalar = inp["kind"] in ("loxodromic", "rotation")
    ref = np.asarray(build_pack(inp, "pyfloat" if scalar else "float64").matrix, dtype=float)
    try:
        M = np.asarray(build_pack(inp, inp["pack"]).matrix, dtype=float)
    except Exception as e:
        return {"exc": type(e).__name__, "msg": str(e)[:160], "ref_res": fres(ref)}
    # rows the constructor's contract determines (the completion of a frame is "not uniquely determined"): origin_to / timelike_to
    # row 0, spacelike_to row 1, TangentVector.origin_to rows 0 and 1, each up to sign; everything for the closed-form constructors
    det_rows = {"origin_to": [0], "timelike_to": [0], "spacelike_to": [1], "tangent": [0, 1]}.get(inp["kind"])
    if M.shape != ref.shape:
        same = False
    elif det_rows is None:
        same = bool(np.max(np.abs(M - ref)) <= 1e-5 * (1 + np.max(np.abs(ref))))
    else:
        same = all(min(np.max(np.abs(M[..., i, :] - ref[..., i, :])), np.max(np.abs(M[..., i, :] + ref[..., i, :]))) <= 1e-5 * (1 + np.max(np.abs(ref)))
                   for i in det_rows)
    return {"res": fres(M), "ref_res": fres(ref), "same": bool(same), "M": M.tolist()}


def judge_pack(inp, obs, lr):
    pk = inp["pack"]
    tags = {"ctor": inp["kind"], "packaging": pk, "int_packaging": pk in INT_PACKS}
    tol = 1e-5 if "32" in pk and "float" in pk else 1e-9
    if not obs.get("ref_res", 1.0) <= 1e-9:
        return {"expected": "float64 reference is an isometry", "observed": obs, "tags": dict(tags, reference=True)}
    if "exc" in obs:
        return {"expected": "the same isometry as for the float64 packaging of the same values", "observed": obs, "tags": dict(tags, exc=obs["exc"])}
    if not (obs["res"] <= tol and obs["same"]):
        return {"expected": "an isometry, equal to the one built from the float64 packaging of the same values",
                "observed": {"residual": obs["res"], "equal_to_reference": obs["same"], "M": obs["M"]}, "tags": tags}
    return None


# ---- S3: arrays of hyperplanes ---------------------------------------------------------------------------------
def gen_crefl(rng, n):
    for _ in range(n):
        dim = rng.choice([2, 2, 3, 4])
        shape = rng.choice([s for s in ([2], [3], [4], [1], [2, 2], [2, 3]) if s[-1] != dim + 1])   # (…, n+1, n+1) is read as hyperplane data
        ds = []
        for _ in range(int(np.prod(shape))):
            while True:
                d = [rng.gauss(0, 1) for _ in range(dim + 1)]
                if -d[0] ** 2 + sum(x * x for x in d[1:]) > 0.2:
                    break
            ds.append(d)
        yield {"dim": dim, "shape": shape, "normals": ds}


def run_crefl(inp):
    d = np.array(inp["normals"]).reshape(tuple(inp["shape"]) + (inp["dim"] + 1,))
    R = np.asarray(H.Hyperplane(d.copy()).reflection_across().matrix, dtype=float)
    J = Jf(inp["dim"] + 1)
    dev = 0.0
    for x, M in zip(np.array(inp["normals"]), L.units(R, 2)):
        ex = np.eye(inp["dim"] + 1) - 2 * np.outer(J @ x, x) / (x @ J @ x)
        dev = max(dev, float(np.max(np.abs(M - ex))))
    return {"shape": list(R.shape), "res": fres(R), "dev": dev}


def judge_crefl(inp, obs, lr):
    tags = {"ctor": "reflection", "dim": inp["dim"], "composite": True}
    if "exc" in obs:
        return {"expected": "an array of reflections", "observed": obs, "tags": dict(tags, exc=obs["exc"])}
    n1 = inp["dim"] + 1
    if obs["shape"] != inp["shape"] + [n1, n1] or not (obs["res"] <= 1e-9 and obs["dev"] <= 1e-8):
        return {"expected": "each unit is the reflection in its own normal (isometry, = 1 − 2 J nᵀn/<n,n>)", "observed": obs, "tags": tags}
    return None


# ------------------------------------------------------------------------------------------------
# Generic defences (G1 fresh-object differential, G2 input/output isolation) for points moved by isometries
# ------------------------------------------------------------------------------------------------
QUERIES = ["none", "distance", "hyperboloid", "klein", "poincare", "copy"]


def gen_history_pts(rng, n):
    base = gen_oracle(3, 1.5)
    for inp in base(rng, n):
        inp["pre"] = [rng.choice(QUERIES) for _ in range(3)]          # queries made on the points before they are moved
        inp["mid"] = rng.choice(QUERIES)                                 # query on the image before it is moved again
        inp["style"] = rng.choice(["matmul", "apply", "two_step", "two_step"])
        inp["index"] = rng.random() < 0.3                                # move an indexed sub-object
        inp["mutate_returned"] = rng.random() < 0.5
        yield inp


def _query(P, Pq, q):
    if q == "distance":
        P.distance(Pq)
        Pq.distance(P)
    elif q == "hyperboloid":
        P.hyperboloid_coords()
        Pq.hyperboloid_coords()
    elif q in ("klein", "poincare"):
        P.coords(q)
        Pq.coords(q)
    elif q == "copy":
        from copy import copy
        copy(P).distance(copy(Pq))


def run_history_pts(inp):
    dim = inp["dim"]
    pool = [build_fletter(l, dim) for l in inp["pool"]]
    letters = []
    for w in inp["word"]:
        x = pool[w["l"]]
        letters.append(x.inv() if w["inv"] else x)
    ps = tuple(inp["pshape"])
    K0 = np.array(inp["interior"]).reshape(ps + (dim,))
    K1 = np.roll(np.array(inp["interior"]), 1, axis=0).reshape(ps + (dim,))
    P, Pq = H.Point(K0.copy(), model="klein"), H.Point(K1.copy(), model="klein")
    for q in inp["pre"]:
        _query(P, Pq, q)
    if inp["index"]:
        P, Pq = P[0], Pq[0]
    # fresh copies of the points as they are now (primary data only)
    F0, F1 = H.Point(np.array(P.proj_data, copy=True)), H.Point(np.array(Pq.proj_data, copy=True))
    d_before = np.asarray(F0.distance(F1), dtype=float)
    X, Y = P, Pq
    acc = None
    for k, g in enumerate(letters):
        if inp["style"] == "apply":
            X, Y = g.apply(X), g.apply(Y)
        else:
            X, Y = g @ X, g @ Y
        acc = g if acc is None else g @ acc
        if inp["style"].startswith("two_step") and k == 0:
            _query(X, Y, inp["mid"])
    if inp["style"] == "two_step":
        pass
    d_hist = np.asarray(X.distance(Y), dtype=float)
    kl_hist = np.asarray(X.coords("klein"), dtype=float)
    Xf, Yf = H.Point(np.array(X.proj_data, copy=True)), H.Point(np.array(Y.proj_data, copy=True))
    d_fresh = np.asarray(Xf.distance(Yf), dtype=float)
    # queries that mix the object with a history with objects without one: an unmoved reference point, the fresh image
    R = H.Point(np.array(inp["interior"][::-1]).reshape(ps + (dim,))[0 if inp["index"] else ...].copy(), model="klein")
    mix = [np.asarray(X.distance(R), dtype=float), np.asarray(R.distance(Y), dtype=float), np.asarray(X.distance(Yf), dtype=float)]
    mixf = [np.asarray(Xf.distance(R), dtype=float), np.asarray(R.distance(Yf), dtype=float), np.asarray(Xf.distance(Yf), dtype=float)]
    hyp_hist = np.asarray(X.hyperboloid_coords(), dtype=float)
    hyp_fresh = np.asarray(H.Point(np.array(X.proj_data, copy=True)).hyperboloid_coords(), dtype=float)
    hyp_dev = float(np.max(np.minimum(np.max(np.abs(hyp_hist - hyp_fresh), axis=-1), np.max(np.abs(hyp_hist + hyp_fresh), axis=-1)) /
                           (1 + np.max(np.abs(hyp_fresh), axis=-1))))
    kl_fresh = np.asarray(Xf.coords("klein"), dtype=float)
    # the images computed in one go from fresh points by the composite isometry
    Xd = acc @ H.Point(np.array(F0.proj_data, copy=True))
    kl_direct = np.asarray(Xd.coords("klein"), dtype=float)
    out = {"d_before": d_before.reshape(-1).tolist(), "d_hist": d_hist.reshape(-1).tolist(), "d_fresh": d_fresh.reshape(-1).tolist(),
           "mix": np.concatenate([m.reshape(-1) for m in mix]).tolist(), "mixf": np.concatenate([m.reshape(-1) for m in mixf]).tolist(),
           "hyp_dev": hyp_dev,
           "kl_dev": float(np.max(np.abs(kl_hist - kl_fresh))), "kl_direct_dev": float(np.max(np.abs(kl_direct - kl_fresh))),
           "amp": word_amp(inp, [np.asarray(p.matrix, dtype=float) for p in pool])}
    if inp["mutate_returned"]:
        c = X.coords("klein")
        c[...] = 0.0
        c2 = X.coords("poincare")
        c2[...] = 7.0
        out["kl_after_mutation_dev"] = float(np.max(np.abs(np.asarray(X.coords("klein"), dtype=float) - kl_fresh)))
    return out


def judge_history_pts(inp, obs, lr):
    tags = {"dim": inp["dim"], "style": inp["style"], "pre": inp["pre"], "mid": inp["mid"], "index": inp["index"]}
    if "exc" in obs:
        return {"expected": "moved points", "observed": obs, "tags": dict(tags, exc=obs["exc"])}
    amp = max(1.0, obs["amp"])
    for a, b, c in zip(obs["d_before"], obs["d_hist"], obs["d_fresh"]):
        tol = 1e-9 * amp * max(1.0, math.cosh(a)) / max(math.sinh(a), 1e-3) + 1e-7
        if not (math.isfinite(b) and math.isfinite(c) and abs(b - c) <= tol):
            return {"expected": f"distance between the images = distance between fresh points built from the images' coordinates ({c})",
                    "observed": b, "tags": dict(tags, fresh_differential=True)}
        if not abs(a - c) <= tol:
            return {"expected": f"distance {a} unchanged by the isometry", "observed": c, "tags": dict(tags, distance=True)}
    for b, c in zip(obs["mix"], obs["mixf"]):
        tol = 1e-9 * amp * max(1.0, math.cosh(c)) / max(math.sinh(c), 1e-3) + 1e-7
        if not (math.isfinite(b) and abs(b - c) <= tol):
            return {"expected": f"distance from a moved point to a point without history = the same from a fresh copy of the image ({c})",
                    "observed": b, "tags": dict(tags, fresh_differential=True, mixed=True)}
    if not obs["hyp_dev"] <= 1e-9 * amp + 1e-9:
        return {"expected": "hyperboloid coordinates of the moved point = those of a fresh point with the same data", "observed": obs["hyp_dev"],
                "tags": dict(tags, fresh_differential=True, coords="hyperboloid")}
    if not (obs["kl_dev"] <= 1e-9 and obs["kl_direct_dev"] <= 1e-9 * amp + 1e-9):
        return {"expected": "Klein coordinates of the moved object = those of a fresh point with the same data / of the image under the composite",
                "observed": obs, "tags": dict(tags, fresh_differential=True, coords=True)}
    if obs.get("kl_after_mutation_dev", 0) > 1e-9:
        return {"expected": "overwriting an array returned by coords() does not change the point", "observed": obs["kl_after_mutation_dev"],
                "tags": dict(tags, output_isolation=True)}
    return None


# ---- G2 on the constructors: the arrays handed in are not modified (timelike_to / spacelike_to normalise their
# argument in place on the clean tree, so for them only the projective class of each row is required to survive)
def gen_iso_inputs(rng, n):
    for _ in range(n):
        dim = rng.choice([1, 2, 2, 3, 4])
        l = gen_fletter(rng, dim, 1.5)
        while l["kind"] in ("cox", "reflectionD", "isometry_to", "tv_origin_to", "rotation", "loxodromic"):
            l = gen_fletter(rng, dim, 1.5)
        l["view"] = rng.random() < 0.4
        yield {"dim": dim, "letter": l}


def run_iso_inputs(inp):
    l, dim = inp["letter"], inp["dim"]
    k = l["kind"]

    def arr(x):
        a = np.array(x, dtype=float)
        if l["view"]:                       # a non-contiguous view of a larger array
            big = np.zeros(a.shape[:-1] + (2 * a.shape[-1],))
            big[..., ::2] = a
            return big[..., ::2]
        return a
    if k in ("origin_to", "timelike_to"):
        a = arr(H.Point(np.array(l["p"]), model="klein").proj_data * l["s"])
        a0 = a.copy()
        iso = H.Point(a).origin_to(force_oriented=l["fo"]) if k == "origin_to" else H.timelike_to(a, force_oriented=l["fo"])
        strict = k == "origin_to"
    elif k == "spacelike_to":
        T = H.TangentVector(H.Point(np.array(l["p"]), model="klein"), np.array(l["v"]))
        a = arr(np.array(T.vector, dtype=float) * 1.7)
        a0 = a.copy()
        iso = H.spacelike_to(a, force_oriented=l["fo"])
        strict = False
    elif k == "elliptic":
        a = arr(l["O"])
        a0 = a.copy()
        iso = H.Isometry.elliptic(dim, a, column_vectors=l["cv"])
        strict = True
    elif k == "reflection":
        a = arr(l["d"])
        a0 = a.copy()
        iso = H.Hyperplane(a).reflection_across()
        strict = True
    elif k == "sl2":
        a = arr(l["A"])
        a0 = a.copy()
        iso = H.sl2_iso(a)
        strict = True
    else:
        raise ValueError(k)
    m0 = np.array(iso.matrix, dtype=float, copy=True)
    changed = float(np.max(np.abs(a - a0)))
    # projective class of each row
    r0, r1 = a0.reshape(-1, a0.shape[-1]), np.asarray(a).reshape(-1, a0.shape[-1])
    proj = float(max(np.max(np.abs(np.outer(x, y) - np.outer(y, x))) / (np.max(np.abs(x)) * np.max(np.abs(y))) for x, y in zip(r0, r1))) \
        if k in ("timelike_to", "spacelike_to", "origin_to") else 0.0
    # and the input array is not aliased by the result: overwriting it afterwards leaves the isometry alone
    a[...] = 0.0
    alias = float(np.max(np.abs(np.asarray(iso.matrix, dtype=float) - m0)))
    return {"strict": strict, "changed": changed, "proj": proj, "alias": alias, "res": fres(m0)}


def judge_iso_inputs(inp, obs, lr):
    tags = {"ctor": inp["letter"]["kind"], "dim": inp["dim"], "view": inp["letter"]["view"]}
    if "exc" in obs:
        return {"expected": "an isometry", "observed": obs, "tags": dict(tags, exc=obs["exc"])}
    if not obs["res"] <= 1e-9:
        return {"expected": "an isometry", "observed": obs, "tags": dict(tags, residual=True)}
    if obs["strict"] and obs["changed"] > 0:
        return {"expected": "the array passed to the constructor is not modified", "observed": obs, "tags": dict(tags, input_isolation=True)}
    if obs["proj"] > 1e-9:
        return {"expected": "the vector passed in still represents the same projective point", "observed": obs, "tags": dict(tags, input_isolation=True)}
    if obs["alias"] > 0 and inp["letter"]["kind"] not in ("elliptic",):
        return {"expected": "the isometry does not alias the array it was built from", "observed": obs, "tags": dict(tags, aliasing=True)}
    return None


# ------------------------------------------------------------------------------------------------
# Generic defence G3: elements enumerated through automaton_accepted / freely_reduced_elements / isometries(words),
# with the same kinds of calls made on UNRELATED representations in between, in both orders
# ------------------------------------------------------------------------------------------------
def gen_enum(rng, n):
    for _ in range(n):
        spec = rng.choice([c for c in COX if (3 if c[0] == "tri" else len(c[1]) + 1) <= 4])
        rank = 3 if spec[0] == "tri" else len(spec[1]) + 1
        noise = []
        for _ in range(rng.randint(0, 3)):
            noise.append({"who": rng.choice(["canonical_same_group", "canonical_same_group", "projective_free", "plain_free",
                                             "hyperbolic_other_group", "tits_vinberg_same_group"]),
                          "how": rng.choice(["automaton", "automaton", "free", "words"]), "L": rng.randint(1, 3),
                          "seed": rng.randint(0, 10 ** 6)})
        yield {"cox": [spec[0], list(spec[1])], "rank": rank, "L": rng.randint(1, 3), "maxlen": rng.random() < 0.7,
               "how": rng.choice(["automaton", "automaton", "free", "words"]), "noise": noise,
               "order": rng.choice(["noise_first", "noise_first", "target_noise_target"]), "history": gen_history(rng, spec, 2),
               "shortlex": rng.random() < 0.7}


def _enumerate(rep, fsa, how, L, maxlen, names):
    """returns (matrices of the enumerated elements as float array, words)"""
    if how == "automaton":
        els, words = rep.automaton_accepted(fsa, L, maxlen=maxlen, with_words=True)
    elif how == "free":
        els, words = rep.freely_reduced_elements(min(L, 2), maxlen=maxlen, with_words=True)
    else:
        words = ["", names[0], names[0] + names[1], names[-1] + names[0].upper() + names[1], names[1] * 2][:2 + L]
        els = rep.elements(words)
    M = np.asarray(els.matrix if hasattr(els, "matrix") else els, dtype=float)
    return M, list(words)


def _noise(step, spec, fsa, names, rank):
    r = np.random.default_rng(step["seed"])
    who = step["who"]
    if who == "canonical_same_group":
        rep = cox_group(spec)[0].canonical_representation()
    elif who == "tits_vinberg_same_group":
        G2 = cox_group(spec)[0]
        inf = list(zip(*np.nonzero(G2.coxeter_matrix < 0)))
        rep = G2.tits_vinberg_rep({inf[0]: -3.0, inf[0][::-1]: -2.0}) if inf else G2.geometric_representation()
    elif who == "hyperbolic_other_group":
        other = next(c for c in COX if (3 if c[0] == "tri" else len(c[1]) + 1) == rank and (c[0], tuple(c[1])) != (spec[0], tuple(spec[1])))
        rep = cox_group(other)[0].hyperbolic_rep()
    elif who == "projective_free":
        rep = projective.ProjectiveRepresentation()
        for g in names:
            rep[g] = projective.Transformation(r.normal(size=(rank, rank)) + 2 * np.eye(rank))
    else:
        rep = representation.Representation()
        for g in names:
            rep[g] = r.normal(size=(rank, rank)) + 2 * np.eye(rank)
    _enumerate(rep, fsa, step["how"], step["L"], True, names)


def run_enum(inp):
    spec = (inp["cox"][0], tuple(inp["cox"][1]))
    G, names = cox_group(spec)
    fsa = G.automaton(shortlex=inp["shortlex"])
    apply_history(G, inp["history"])
    rep = G.hyperbolic_rep()
    if inp["order"] == "target_noise_target":
        _enumerate(rep, fsa, inp["how"], inp["L"], inp["maxlen"], names)
    for step in inp["noise"]:
        _noise(step, spec, fsa, names, inp["rank"])
    M, words = _enumerate(rep, fsa, inp["how"], inp["L"], inp["maxlen"], names)
    # reference: every word evaluated on its own on a fresh group object
    fresh = cox_group(spec)[0].hyperbolic_rep()
    ref = np.array([np.asarray(fresh[w].matrix, dtype=float) for w in words]).reshape((len(words), inp["rank"], inp["rank"]))
    return {"count": len(words), "shape": list(M.shape), "res": fres(M) if M.size else 0.0,
            "dev": float(np.max(np.abs(M - ref)) / max(1.0, float(np.max(np.abs(ref))))) if M.size and M.shape == ref.shape else (0.0 if not M.size else float("inf")),
            "words": words[:6]}


def judge_enum(inp, obs, lr):
    tags = {"how": inp["how"], "order": inp["order"], "noise": sorted({s_["who"] for s_ in inp["noise"]}), "rank": inp["rank"]}
    if "exc" in obs:
        return {"expected": "enumerated isometries", "observed": obs, "tags": dict(tags, exc=obs["exc"])}
    if not obs["res"] <= 1e-9:
        return {"expected": "every enumerated element preserves the form", "observed": obs, "tags": dict(tags, residual=True)}
    if not obs["dev"] <= 1e-9:
        return {"expected": "each enumerated element = the image of its word computed on a fresh representation", "observed": obs,
                "tags": dict(tags, cross_object=True)}
    return None


# ------------------------------------------------------------------------------------------------
# G15 documented refusals / G12 magnitudes / G13 twin entry points for the constructors
# ------------------------------------------------------------------------------------------------
def ideal_vec(rng, dim):
    v = [rng.gauss(0, 1) for _ in range(dim)]
    nv = math.sqrt(sum(x * x for x in v))
    return [1.0] + [x / nv for x in v]


def gen_refusal(rng, n):
    for _ in range(n):
        kind = rng.choice(["reflect_codim2", "reflect_codim2", "reflect_segment", "timelike_to_bad", "spacelike_to_bad", "hyperplane_timelike",
                           "geodesic_h2", "geodesic_h2", "timelike_to_scaled", "spacelike_to_scaled", "origin_far", "lox_long", "sl2_large", "from_sl2"])
        dim = rng.choice([3, 4]) if kind.startswith("reflect") else (2 if kind in ("geodesic_h2", "sl2_large", "from_sl2") else rng.choice([1, 2, 3, 4]))
        inp = {"kind": kind, "dim": dim, "scale": 10.0 ** rng.randint(-9, 9) * rng.choice([1, -1]), "scale2": 10.0 ** rng.randint(-9, 9)}
        if kind == "reflect_codim2":
            k = rng.randint(2, dim - 1)          # k ideal points span a subspace of codimension dim + 1 - k >= 2
            inp["ideal"] = [ideal_vec(rng, dim) for _ in range(k)]
            inp["cls"] = rng.choice(["Geodesic", "Subspace"]) if k == 2 else "Subspace"
        elif kind == "reflect_segment":
            inp["pts"] = [fball(rng, dim, 0.8), fball(rng, dim, 0.8)]
        elif kind in ("timelike_to_bad", "spacelike_to_bad", "hyperplane_timelike", "timelike_to_scaled", "spacelike_to_scaled"):
            inp["p"] = fball(rng, dim, 0.9)
            inp["v"] = [rng.gauss(0, 1) for _ in range(dim + 1)]
            inp["bad"] = rng.choice(["lightlike", "other_type"])
            # an EXACTLY lightlike float vector: integer Pythagorean tuple times a power of two (a generic unit float vector has
            # square-norm ±1e-16 and is, numerically, a very distant timelike or spacelike vector — not a refusal case)
            sp = Q.rsphere(rng, dim, den=4)
            lcm = 1
            for x in sp:
                lcm = lcm * x.denominator // math.gcd(lcm, x.denominator)
            inp["ideal"] = [[float(lcm)] + [float(x * lcm) for x in sp]]
            inp["scale"] = 2.0 ** rng.randint(-30, 30) * rng.choice([1, -1]) if inp["bad"] == "lightlike" else inp["scale"]
        elif kind == "geodesic_h2":
            a, b = rng.uniform(0, 6.28), rng.uniform(0, 6.28)
            while abs(math.remainder(a - b, 6.283185307179586)) < 0.3:
                b = rng.uniform(0, 6.28)
            inp["angles"] = [a, b]
        elif kind == "origin_far":
            d = rng.uniform(8, 17)
            u = [rng.gauss(0, 1) for _ in range(dim)]
            nu = math.sqrt(sum(x * x for x in u))
            inp["hyp"] = [math.cosh(d)] + [math.sinh(d) * x / nu for x in u]
        elif kind == "lox_long":
            inp["t"] = rng.uniform(-25, 25)
        elif kind in ("sl2_large", "from_sl2"):
            a = float(rng.randint(10 ** 3, 10 ** 6))
            inp["A"] = [[a, a + 1.0], [a - 1.0, a]] if rng.random() < 0.5 else [[a, a * a - 1.0], [1.0, a]]      # det = 1 exactly, large entries
            inp["stack"] = rng.random() < 0.4
        yield inp


def run_refusal(inp):
    kind, dim = inp["kind"], inp["dim"]
    J = Jf(dim + 1)

    def attempt(f):
        try:
            return {"returned": True, "res": fres(f().matrix)}
        except Exception as e:
            return {"returned": False, "exc": type(e).__name__, "msg": str(e)[:100]}
    if kind == "reflect_codim2":
        data = np.array(inp["ideal"]) * np.array([inp["scale2"]] + [1.0] * (len(inp["ideal"]) - 1))[:, None]
        cls = H.Geodesic if inp["cls"] == "Geodesic" else H.Subspace
        return attempt(lambda: cls(data).reflection_across())
    if kind == "reflect_segment":
        return attempt(lambda: H.Segment(H.Point(np.array(inp["pts"][0]), model="klein"), H.Point(np.array(inp["pts"][1]), model="klein")).reflection_across())
    x = H.Point(np.array(inp["p"]), model="klein").hyperboloid_coords().copy() if "p" in inp else None
    if kind in ("timelike_to_bad", "spacelike_to_bad", "hyperplane_timelike"):
        T = H.TangentVector(H.Point(np.array(inp["p"]), model="klein"), np.array(inp["v"]))
        sp = np.array(T.normalized().vector, dtype=float)
        light = np.array(inp["ideal"][0])
        if kind == "timelike_to_bad":
            v = (light if inp["bad"] == "lightlike" else sp) * inp["scale"]
            return attempt(lambda: H.timelike_to(v.copy()))
        v = (light if inp["bad"] == "lightlike" else x) * inp["scale"]
        if kind == "spacelike_to_bad":
            return attempt(lambda: H.spacelike_to(v.copy()))
        return attempt(lambda: H.Hyperplane(v.copy()).reflection_across())
    if kind == "timelike_to_scaled":
        return attempt(lambda: H.timelike_to(x * inp["scale"]))
    if kind == "spacelike_to_scaled":
        T = H.TangentVector(H.Point(np.array(inp["p"]), model="klein"), np.array(inp["v"]))
        return attempt(lambda: H.spacelike_to(np.array(T.normalized().vector, dtype=float) * inp["scale"]))
    if kind == "geodesic_h2":
        a, b = inp["angles"]
        e1 = np.array([1.0, math.cos(a), math.sin(a)]) * inp["scale"]
        e2 = np.array([1.0, math.cos(b), math.sin(b)]) * inp["scale2"]
        out = attempt(lambda: H.Geodesic(np.array([e1, e2])).reflection_across())
        if out["returned"]:
            # the normal of the geodesic: Minkowski-orthogonal to both endpoints (computed from unit representatives)
            u1, u2 = e1 / e1[0], e2 / e2[0]
            nrm = J @ np.cross(u1, u2)
            ex = np.eye(3) - 2 * np.outer(J @ nrm, nrm) / (nrm @ J @ nrm)
            M = np.asarray(H.Geodesic(np.array([e1, e2])).reflection_across().matrix, dtype=float)
            out["dev"] = float(np.max(np.abs(M - ex)) / (1 + np.max(np.abs(ex))))
            # (G13) the same hyperplane given by its normal
            Mh = np.asarray(H.Hyperplane(nrm.copy()).reflection_across().matrix, dtype=float)
            out["twin"] = float(np.max(np.abs(M - Mh)) / (1 + np.max(np.abs(ex))))
        return out
    if kind == "origin_far":
        return attempt(lambda: H.Point(np.array(inp["hyp"]) * abs(inp["scale2"])).origin_to())
    if kind == "lox_long":
        return attempt(lambda: H.Isometry.standard_loxodromic(dim, math.exp(inp["t"])))
    A = np.array(inp["A"])
    Ain = np.stack([A, np.array([[2.0, 3.0], [1.0, 2.0]])]) if inp["stack"] else A
    out = attempt(lambda: H.sl2_iso(Ain.copy()))
    if kind == "from_sl2" and out["returned"]:
        out["twin"] = float(np.max(np.abs(np.asarray(H.Isometry.from_sl2(Ain.copy()).matrix) - np.asarray(H.sl2_iso(Ain.copy()).matrix))))
    return out


def judge_refusal(inp, obs, lr):
    kind = inp["kind"]
    tags = {"kind": kind, "dim": inp["dim"]}
    if "returned" not in obs:
        return {"expected": "the harness step to run", "observed": obs, "tags": dict(tags, exc=obs.get("exc"))}
    must_raise = kind in ("reflect_codim2", "reflect_segment", "timelike_to_bad", "spacelike_to_bad", "hyperplane_timelike")
    if must_raise:
        if obs["returned"] or obs["exc"] != "GeometryError":
            return {"expected": "GeometryError (documented refusal: no silent answer, no other exception)", "observed": obs,
                    "tags": dict(tags, refusal=True, bad=inp.get("bad"), cls=inp.get("cls"))}
        return None
    if not obs["returned"]:
        return {"expected": "valid input of unusual size accepted", "observed": obs, "tags": dict(tags, spurious_refusal=True)}
    tol = 1e-9 if kind != "sl2_large" and kind != "from_sl2" else 1e-6      # |A| ~ 1e6: the image has entries ~1e12, cancellation in a²+b²−c²−d²
    if not obs["res"] <= tol:
        return {"expected": "an isometry (scaled residual)", "observed": obs, "tags": dict(tags, residual=True, magnitude=True)}
    if obs.get("dev", 0) > 1e-8:
        return {"expected": "the reflection in the geodesic's normal, whatever the size of the endpoint representatives", "observed": obs,
                "tags": dict(tags, magnitude=True)}
    if obs.get("twin", 0) > 1e-8:
        return {"expected": "twin entry points agree (Geodesic vs Hyperplane(normal); from_sl2 vs sl2_iso)", "observed": obs, "tags": dict(tags, entry_points=True)}
    return None


CLAUSES = [
    Clause("ctor_corr", "corr", gen_ctor, run_ctor, judge_ctor, lean=lean_ctor,
           site="hyperbolic.Isometry.standard_rotation/elliptic/standard_loxodromic, sl2_iso, Subspace.reflection_across",
           budget={"quick": 450, "thorough": 12000},
           what="each explicit constructor by value vs the Lean model over ℚ (rational (c,s), O(n,ℚ), u, SL±(2,ℚ) incl. composite shapes, rational normals and rational hyperplane data), dims 1-5"),
    Clause("word_corr", "corr", gen_word(6), run_word, judge_word, lean=lean_word2,
           site="projective.Transformation.apply/inv/__matmul__", budget={"quick": 350, "thorough": 9000},
           what="l1 @ l2 @ ... @ lk with .inv() letters (k ≤ 6) by value vs Lean evalWord over ℚ (certified exact inverses)"),
    Clause("word_corr_long", "corr", gen_word(12), run_word, judge_word, lean=lean_word2,
           site="projective.Transformation.apply/inv/__matmul__", budget={"quick": 40, "thorough": 3000},
           what="same, words up to length 12"),
    Clause("contract_corr", "corr", gen_contract, run_contract, judge_contract, lean=lean_contract,
           site="Point.origin_to, TangentVector.origin_to/isometry_to, timelike_to, spacelike_to, CoxeterGroup.hyperbolic_rep",
           budget={"quick": 600, "thorough": 16000},
           what="‖M J Mᵀ − J‖∞ evaluated exactly in Lean on the float output; determinant sign with force_oriented; rows the algorithm determines by value (Lean GS.originTo / tangentOriginTo / spacelikeTo executed on the exact inputs, c02.frame); composite shapes; Coxeter groups of rank 3-5 with words ≤ 6"),
    Clause("iso_oracle", "oracle", gen_oracle(6, 2.0), run_oracle, judge_oracle,
           site="every Isometry constructor; Transformation.apply/inv", budget={"quick": 1200, "thorough": 40000},
           what="float parameters: form residual of every constructor and of random words with inverses; distance invariance on point pairs; interior/ideal/exterior preserved (composite point shapes)"),
    Clause("iso_oracle_far", "oracle", gen_oracle(3, 4.0), run_oracle, judge_oracle,
           site="every Isometry constructor; Transformation.apply/inv", budget={"quick": 300, "thorough": 12000},
           what="same with translation lengths up to 4"),
    Clause("history_points_oracle", "oracle", gen_history_pts, run_history_pts, judge_history_pts,
           site="Transformation.apply / Point.distance / coords on objects with a history", budget={"quick": 250, "thorough": 8000},
           what="G1/G2: points queried (distance, hyperboloid, klein, poincare, copy) before being moved, moved in one or two steps by @ or apply, indexed; every query on the image = the same query on a fresh point built from the image's data = the image under the composite; distances invariant; overwriting returned coordinate arrays changes nothing"),
    Clause("ctor_inputs_oracle", "oracle", gen_iso_inputs, run_iso_inputs, judge_iso_inputs, site="Isometry constructors (input isolation)",
           budget={"quick": 150, "thorough": 4000},
           what="G2: arrays (incl. non-contiguous views) handed to origin_to / elliptic / sl2_iso / Hyperplane are not modified (timelike_to, spacelike_to: same projective point) and are not aliased by the result"),
    Clause("enumeration_oracle", "oracle", gen_enum, run_enum, judge_enum,
           site="HyperbolicRepresentation.automaton_accepted / freely_reduced_elements / elements", budget={"quick": 120, "thorough": 3000},
           what="G3: elements enumerated through automaton_accepted / freely_reduced_elements / elements(words) after (and between) the same calls on unrelated representations with the same generator names (canonical, Tits–Vinberg, projective and plain free-group reps, another Coxeter group) and after a call history on the group: all preserve the form and equal the word images on a fresh representation"),
    Clause("refusal_magnitude_oracle", "oracle", gen_refusal, run_refusal, judge_refusal,
           site="reflection_across / timelike_to / spacelike_to / Hyperplane / origin_to / standard_loxodromic / sl2_iso",
           budget={"quick": 300, "thorough": 8000},
           what="G15: reflection_across of subspaces of codimension ≥ 2 (Geodesic, Subspace, Segment in H^3, H^4), timelike_to / spacelike_to / Hyperplane of lightlike or wrong-type vectors of any size must raise GeometryError; G12: the same constructors on valid data of size 10^±9, points 8–17 units away, translation lengths up to 25, SL(2) matrices with entries up to 1e6 must answer with an isometry; Geodesic of H² with rescaled endpoints gives the closed-form reflection; G13: Geodesic vs Hyperplane(normal), from_sl2 vs sl2_iso"),
    Clause("composite_reflection_oracle", "oracle", gen_crefl, run_crefl, judge_crefl, site="hyperbolic.Hyperplane / Subspace.reflection_across (composite)",
           budget={"quick": 80, "thorough": 2000},
           what="arrays of spacelike normals: every unit of the composite reflection is the reflection in its own normal"),
    Clause("packaging_oracle", "oracle", gen_pack, run_pack, judge_pack, site="every Isometry constructor (parameter packagings)",
           budget={"quick": 300, "thorough": 6000},
           what="integer-valued parameters passed as Python int / NumPy integer scalars / 0-d arrays / integer arrays and lists / float32: the result is an isometry and equals the float64 result"),
    Clause("h1_reflection_oracle", "oracle", gen_h1, run_h1, judge_h1, site="hyperbolic.Hyperplane (dimension 1)",
           budget={"quick": 20, "thorough": 200},
           what="Hyperplane(normal).reflection_across() in H^1 preserves the form (regression for the repaired ideal basis)"),
]
