"""Helpers shared by props/C03.py, C04.py, C11.py: array <-> driver JSON, exact small entries,
shape generators (DESIGN §3: all shapes of rank 0-3 with axis sizes in {1,2,3})."""
import itertools
from fractions import Fraction as F
import numpy as np


def qstr(x):
    if isinstance(x, F):
        return str(x.numerator) if x.denominator == 1 else f"{x.numerator}/{x.denominator}"
    if isinstance(x, (int, np.integer)):
        return str(int(x))
    f = F(float(x))
    return str(f.numerator) if f.denominator == 1 else f"{f.numerator}/{f.denominator}"


def enc(a):
    """numpy array (float/int, exactly representable) -> driver JSON"""
    a = np.asarray(a)
    return {"shape": [int(d) for d in a.shape], "data": [qstr(x) for x in a.reshape(-1).tolist()]}


def enc_q(shape, flat):
    """shape + flat list of Fractions -> driver JSON"""
    return {"shape": [int(d) for d in shape], "data": [qstr(x) for x in flat]}


def dec(j):
    """driver JSON -> float numpy array"""
    return np.array([float(F(s)) for s in j["data"]], dtype=float).reshape(tuple(j["shape"]))


def dec_q(j):
    """driver JSON -> (shape, flat list of Fractions)"""
    return tuple(j["shape"]), [F(s) for s in j["data"]]


def same(j, arr):
    """driver array equals numpy array exactly (shape and every entry)"""
    arr = np.asarray(arr)
    if tuple(j["shape"]) != tuple(arr.shape):
        return False
    return [F(s) for s in j["data"]] == [F(float(x)) if not isinstance(x, int) else F(x) for x in arr.reshape(-1).tolist()]


def small(rng, shape, dyadic=True):
    """array of small exactly-representable numbers (integers in [-3,3], sometimes halves/quarters):
    sums of products of a few of these are exact in float64"""
    n = int(np.prod(shape)) if len(shape) else 1
    den = rng.choice([1, 1, 2, 4]) if dyadic else 1
    vals = [rng.randint(-3 * den, 3 * den) / den for _ in range(n)]
    return np.array(vals, dtype=float).reshape(tuple(shape))


def all_shapes(maxrank=3, sizes=(1, 2, 3)):
    out = []
    for r in range(maxrank + 1):
        out += [list(s) for s in itertools.product(sizes, repeat=r)]
    return out


def rshape(rng, maxrank=3, sizes=(1, 2, 3), minrank=0):
    return [rng.choice(sizes) for _ in range(rng.randint(minrank, maxrank))]


def bcast_partner(rng, s, sizes=(1, 2, 3)):
    """a shape that numpy-broadcasts against s: drop leading axes or add some, set some axes to 1,
    or replace 1-axes by other sizes"""
    t = list(s)
    for k in range(len(t)):
        r = rng.random()
        if r < 0.3:
            t[k] = 1
        elif t[k] == 1 and r < 0.7:
            t[k] = rng.choice(sizes)
    c = rng.random()
    if c < 0.3 and t:
        t = t[rng.randint(1, len(t)):]
    elif c < 0.5 and len(t) < 3:
        t = [rng.choice(sizes) for _ in range(rng.randint(1, 3 - len(t)))] + t
    return t


def broadcastable(s, t):
    try:
        np.broadcast_shapes(tuple(s), tuple(t))
        return True
    except ValueError:
        return False
