"""C01 — model coordinates are mutually consistent and carry one metric (DESIGN §4 C01)."""
import itertools, math
from fractions import Fraction as F
import numpy as np
from vlib.runner import Clause
from vlib import q as Q
from vlib.canon import close, err, proj_close, finite
from geometry_tools import hyperbolic as H

LEVEL = "proof"
MODELS = ["projective", "hyperboloid", "klein", "poincare", "halfspace"]
EXPLANATION = ("Lean theorems (all dimensions): chart round trips, get∘set=id per model, closed-form metrics = coshDist, "
               "dist_self/comm/nonneg, reverse Cauchy–Schwarz (clamp no-op), projective invariance; exact-ℚ correspondence "
               "of Point.coords/Point.distance with the model; float oracle for round trips over all model pairs and metric laws.")
ASSUMPTIONS = ["IEEE rounding within tolerance on Klein radius ≤ 0.95 (corr) / ≤ 0.999 (oracle)",
               "numpy broadcasting semantics for composite shapes (validated per unit by the oracle)"]


# ---- exact reference coordinates from a rational Poincaré point -----------------------------
def ex_coords(p, model, scale=F(1)):
    a = sum(x * x for x in p)
    if model == "poincare":
        return list(p)
    k = [2 * x / (1 + a) for x in p]
    if model == "klein":
        return k
    if model == "hyperboloid":
        return [(1 + a) / (1 - a)] + [2 * x / (1 - a) for x in p]
    if model == "projective":
        return [scale * (1 + a)] + [scale * 2 * x for x in p]
    if model == "halfspace":
        y, v = p[0], p[1:]
        x2 = sum(t * t for t in v)
        den = x2 + (y - 1) * (y - 1)
        return [-2 * t / den for t in v] + [(1 - x2 - y * y) / den]
    raise ValueError(model)


def gen_coords(rng, n):
    for _ in range(n):
        dim = rng.choice([1, 2, 2, 3, 3, 4, 5])
        shape = rng.choice([[], [], [2], [3], [2, 2], [1, 3]])
        cnt = int(np.prod(shape)) if shape else 1
        ideal = rng.random() < 0.15
        pts = []
        for _ in range(cnt):
            if ideal:
                while True:
                    p = Q.rsphere(rng, dim)
                    if p[0] <= F(9, 10):   # at bounded distance from the half-space point at infinity
                        break
            else:
                p = Q.rball(rng, dim)
            pts.append(p)
        src = rng.choice(MODELS)
        if ideal and src == "hyperboloid":
            src = "projective"
        scale = Q.rq(rng, 30, 7, nonzero=True)
        yield {"dim": dim, "shape": shape, "src": src, "ideal": ideal, "scale": Q.qs(scale),
               "pts": [[Q.qs(x) for x in p] for p in pts]}


def _src_coords(inp):
    scale = F(inp["scale"])
    if inp["ideal"] and inp["src"] == "projective":
        return [[scale] + [scale * F(x) for x in p] for p in inp["pts"]]
    return [ex_coords([F(x) for x in p], inp["src"], scale) for p in inp["pts"]]


def run_coords(inp):
    co = _src_coords(inp)
    a = np.array([[float(x) for x in c] for c in co]).reshape(tuple(inp["shape"]) + (len(co[0]),))
    P = H.Point(a, model=inp["src"])
    out = {}
    for m in MODELS:
        c = P.coords(m)
        out[m] = np.asarray(c, dtype=float).reshape(len(co), -1).tolist()
    out["shape_ok"] = list(P.shape) == list(inp["shape"])
    return out


def lean_coords(inp, obs):
    ops = []
    for c in _src_coords(inp):
        ops.append({"op": "c01.set", "model": inp["src"], "d": [Q.qs(x) for x in c]})
    return ops


def lean_coords2(inp, obs):
    # second phase is folded into one op list: set is cheap, so recompute the stored data in python exactly
    ops = []
    for c, p in zip(_src_coords(inp), inp["pts"]):
        ops.append({"op": "c01.set", "model": inp["src"], "d": [Q.qs(x) for x in c]})
        if inp["ideal"]:
            stored = ([F(inp["scale"])] + [F(inp["scale"]) * F(x) for x in p]) if inp["src"] in ("projective",) else \
                ([F(1)] + ex_coords([F(x) for x in p], "klein"))
        elif inp["src"] in ("projective", "hyperboloid"):
            stored = c
        else:
            stored = [F(1)] + ex_coords([F(x) for x in p], "klein")
        for m in MODELS:
            if m == "halfspace" and inp["dim"] < 1:
                continue
            ops.append({"op": "c01.get", "model": m, "x": [Q.qs(x) for x in stored]})
    return ops


def judge_coords(inp, obs, lr):
    if "exc" in obs:
        return {"expected": "coordinates", "observed": obs, "tags": {"exc": obs["exc"]}, "property_failure": True}
    if not obs["shape_ok"]:
        return {"expected": "shape " + str(inp["shape"]), "observed": "different shape", "tags": {"shape": True}}
    per = 1 + len(MODELS)
    for i in range(len(inp["pts"])):
        chunk = lr[i * per:(i + 1) * per]
        for m, res in zip(MODELS, chunk[1:]):
            if "err" in res:
                if inp["ideal"] and m == "hyperboloid":
                    continue      # lightlike: normalize leaves the representative alone
                return {"expected": "model answer", "observed": res, "tags": {"driver_err": res["err"], "model": m}}
            mv = Q.decf(res["ok"])
            iv = np.array(obs[m][i])
            tol = 1e-6 if inp["ideal"] else 1e-9
            if inp["ideal"] and m == "halfspace":
                # ideal points lose half their digits in kleinian_to_poincare (sqrt of a rounding error) and the
                # half-space chart amplifies that by ~(1+|h|^2) near its point at infinity
                tol = 1e-6 * (1 + float(np.max(np.abs(mv))) ** 2)
            if m == "projective" or (m == "hyperboloid" and inp["ideal"]):
                ok = proj_close(iv, mv, tol)   # lightlike vectors have no hyperboloid normalisation; only the ray matters
            else:
                ok = close(iv, mv, tol)
            if m == "hyperboloid" and not ok:
                ok = close(-iv, mv, tol)    # sheet of the representative is not part of the point
            if not ok:
                return {"expected": {"model": m, "coords": mv.tolist()}, "observed": iv.tolist(),
                        "tags": {"src": inp["src"], "dst": m, "ideal": inp["ideal"]}}
    return None


# ---- distance correspondence -----------------------------------------------------------------
def gen_dist(rng, n):
    for _ in range(n):
        dim = rng.choice([1, 2, 3, 4, 5])
        kind = rng.choice(["pair", "pair", "self", "scaled"])
        p = Q.rball(rng, dim)
        qq = Q.rball(rng, dim) if kind == "pair" else p
        s_, t_ = Q.rq(rng, 40, 9, nonzero=True), Q.rq(rng, 40, 9, nonzero=True)
        if rng.random() < 0.3:                              # representatives of very different magnitude (10^-9 .. 10^9)
            s_ *= F(10) ** rng.randint(-9, 9); t_ *= F(10) ** rng.randint(-9, 9)
        yield {"dim": dim, "kind": kind, "p": [Q.qs(x) for x in p], "q": [Q.qs(x) for x in qq],
               "s": Q.qs(s_), "t": Q.qs(t_)}


def _dist_vecs(inp):
    p = [F(x) for x in inp["p"]]
    qq = [F(x) for x in inp["q"]]
    X = ex_coords(p, "projective", F(inp["s"]))
    Y = ex_coords(qq, "projective", F(inp["t"]))
    return X, Y


def run_dist(inp):
    X, Y = _dist_vecs(inp)
    A = H.Point(np.array([float(x) for x in X]))
    B = H.Point(np.array([float(x) for x in Y]))
    d = A.distance(B)
    return {"d": float(np.asarray(d).reshape(-1)[0])}


def lean_dist(inp, obs):
    X, Y = _dist_vecs(inp)
    return [{"op": "c01.cosh", "x": [Q.qs(x) for x in X], "y": [Q.qs(x) for x in Y]}]


def judge_dist(inp, obs, lr):
    if "exc" in obs:
        return {"expected": "distance", "observed": obs, "tags": {"exc": obs["exc"]}, "property_failure": True}
    if "err" in lr[0]:
        return {"expected": "model answer", "observed": lr[0], "tags": {"driver_err": lr[0]["err"]}}
    c = float(F(lr[0]["ok"]))
    d = obs["d"]
    if not math.isfinite(d):
        return {"expected": f"finite distance, cosh d = {c}", "observed": d, "tags": {"nan": True, "self": inp["kind"] != "pair"},
                "property_failure": True}
    if abs(math.cosh(d) - c) > 1e-9 * (1 + c) or abs(d - math.acosh(max(c, 1.0))) > 1e-6:
        # the model value is the exact closed-form metric of the two points (theorems metric_*), so a reported
        # distance that differs from it is the property failing on the real code, not just a broken tie
        return {"expected": {"cosh_d": c, "d": math.acosh(max(c, 1.0))}, "observed": {"d": d, "cosh_d": math.cosh(d)},
                "tags": {"kind": inp["kind"], "opposite_sign": (F(inp["s"]) < 0) != (F(inp["t"]) < 0)}, "property_failure": True}
    return None


# ---- oracle: round trips over all ordered model pairs, float points ---------------------------
def fball(rng, dim, shape, rmax):
    cnt = int(np.prod(shape)) if shape else 1
    pts = []
    for _ in range(cnt):
        v = [rng.gauss(0, 1) for _ in range(dim)]
        nv = math.sqrt(sum(x * x for x in v)) or 1.0
        r = rmax * rng.random() ** (1.0 / dim)
        pts.append([x / nv * r for x in v])
    return pts


def gen_rt(rng, n):
    for _ in range(n):
        dim = rng.choice([1, 2, 2, 3, 4, 5])
        shape = rng.choice([[], [3], [2, 2], [1, 2], [2, 1, 2], [3, 3], [4, 1]])
        ideal = rng.random() < 0.25
        if ideal:
            pts = []
            for _ in range(int(np.prod(shape)) if shape else 1):
                while True:
                    v = [rng.gauss(0, 1) for _ in range(dim)]
                    nv = math.sqrt(sum(x * x for x in v))
                    if nv > 1e-3 and abs(v[0] / nv - 1) > 0.05:     # away from the half-space point at infinity
                        break
                pts.append([x / nv for x in v])
        else:
            pts = fball(rng, dim, shape, 0.999)
        yield {"dim": dim, "shape": shape, "klein": pts, "ideal": ideal}


def run_rt(inp):
    k = np.array(inp["klein"]).reshape(tuple(inp["shape"]) + (inp["dim"],))
    P = H.Point(k, model="klein")
    worst, where = 0.0, None
    models = [m for m in MODELS if not (inp.get("ideal") and m == "hyperboloid")]   # lightlike: no hyperboloid point
    for m1 in models:
        c1 = np.array(P.coords(m1), dtype=float)
        P1 = H.Point(c1.copy(), model=m1)
        for m2 in models:
            c2 = np.array(P1.coords(m2), dtype=float)
            P2 = H.Point(c2.copy(), model=m2)
            k2 = np.array(P2.coords("klein"), dtype=float)
            if k2.shape != k.shape or not finite(k2):
                return {"worst": float("inf"), "where": [m1, m2]}
            e = err(k2, k)
            if e > worst:
                worst, where = e, [m1, m2]
    return {"worst": worst, "where": where}


def judge_rt(inp, obs, lr):
    if "exc" in obs:
        return {"expected": "round trip", "observed": obs, "tags": {"exc": obs["exc"]}}
    if obs["worst"] > 1e-6:
        return {"expected": "same Klein coordinates after m1 -> m2 -> klein (tol 1e-6)", "observed": obs,
                "tags": {"pair": obs["where"], "ideal": bool(inp.get("ideal"))}}
    return None


# ---- oracle: closed-form metrics and metric laws -----------------------------------------------
def gen_metric(rng, n):
    for _ in range(n):
        dim = rng.choice([1, 2, 3, 4, 5])
        # each point is stored through projective coordinates with its own non-zero scale of either sign
        scales = [rng.choice([-1, 1]) * rng.uniform(0.1, 10) if rng.random() < 0.5 else 1.0 for _ in range(3)]
        if rng.random() < 0.3:                              # tiny / huge representatives: no absolute threshold may decide a branch
            scales = [sc * 10.0 ** rng.randint(-9, 9) for sc in scales]
        yield {"dim": dim, "pts": fball(rng, dim, [3], 0.99), "scales": scales}


def closed_forms(P, Qp):
    out = {}
    k, l = np.array(P.coords("klein")), np.array(Qp.coords("klein"))
    out["klein"] = (1 - k @ l) / math.sqrt((1 - k @ k) * (1 - l @ l))
    p, q = np.array(P.coords("poincare")), np.array(Qp.coords("poincare"))
    out["poincare"] = 1 + 2 * ((p - q) @ (p - q)) / ((1 - p @ p) * (1 - q @ q))
    x, y = np.array(P.coords("halfspace")), np.array(Qp.coords("halfspace"))
    out["halfspace"] = 1 + ((x - y) @ (x - y)) / (2 * x[-1] * y[-1])
    X, Y = np.array(P.coords("hyperboloid")), np.array(Qp.coords("hyperboloid"))
    out["hyperboloid"] = abs(-X[0] * Y[0] + X[1:] @ Y[1:])
    return out


def run_metric(inp):
    pts = [H.Point(np.array([1.0] + list(p)) * s, model="projective") for p, s in zip(inp["pts"], inp.get("scales", [1, 1, 1]))]
    a, b, c = pts
    d = lambda u, v: float(np.asarray(u.distance(v)).reshape(-1)[0])
    res = {"ab": d(a, b), "ba": d(b, a), "bc": d(b, c), "ac": d(a, c), "aa": d(a, a), "bb": d(b, b), "cc": d(c, c)}
    res["closed"] = closed_forms(a, b)
    # composite distance equals per-unit distance
    comp = H.Point(np.array(inp["pts"]), model="klein")
    comp2 = H.Point(np.array(inp["pts"][1:] + inp["pts"][:1]), model="klein")
    res["vec"] = np.asarray(comp.distance(comp2), dtype=float).tolist()
    res["unit"] = [d(a, b), d(b, c), d(c, a)]
    return res


def judge_metric(inp, obs, lr):
    if "exc" in obs:
        return {"expected": "distances", "observed": obs, "tags": {"exc": obs["exc"]}}
    for k in ("aa", "bb", "cc"):
        if not (math.isfinite(obs[k]) and abs(obs[k]) <= 1e-6):
            return {"expected": "d(x,x) = 0 (finite, never NaN)", "observed": obs[k], "tags": {"self": True, "nan": not math.isfinite(obs[k])}}
    for k in ("ab", "ba", "bc", "ac"):
        if not (math.isfinite(obs[k]) and obs[k] >= 0):
            return {"expected": "finite non-negative distance", "observed": obs[k], "tags": {"nonfinite": True}}
    if abs(obs["ab"] - obs["ba"]) > 1e-9 * (1 + obs["ab"]):
        return {"expected": "symmetry", "observed": [obs["ab"], obs["ba"]], "tags": {"law": "symmetry"}}
    if obs["ac"] > obs["ab"] + obs["bc"] + 1e-7:
        return {"expected": "triangle inequality", "observed": [obs["ac"], obs["ab"], obs["bc"]], "tags": {"law": "triangle"}}
    for m, c in obs["closed"].items():
        if not math.isfinite(c) or abs(c - math.cosh(obs["ab"])) > 1e-6 * (1 + abs(c)):
            return {"expected": f"closed-form {m} metric cosh d = {c}", "observed": math.cosh(obs["ab"]), "tags": {"metric": m}}
    if not close(obs["vec"], obs["unit"], 1e-7):
        return {"expected": "composite distance = per-unit distances", "observed": [obs["vec"], obs["unit"]], "tags": {"composite": True}}
    return None


# ---- oracle: histories on one / several point objects -------------------------------------------
# "reading coordinates in any model and building a point back gives the same point" must also hold for an object
# with a past (coordinates read before an in-place item assignment), for a point built from a caller-owned buffer
# that the caller then recycles, and for a point built from another point (or a selection of one) that is then edited.
def gen_hist(rng, n):
    for _ in range(n):
        dim = rng.choice([1, 2, 2, 3, 4])
        k = rng.choice([2, 3, 4])
        yield {"dim": dim, "a": fball(rng, dim, [k], 0.95), "b": fball(rng, dim, [k], 0.95),
               "steps": [rng.choice(["read", "setitem", "setslice", "buffer", "dup_edit", "sel_edit", "distance", "mutate_returned", "set", "coords_set"])
                         for _ in range(rng.randint(3, 7))],
               "models": [rng.choice(MODELS) for _ in range(8)], "idx": [rng.randrange(k) for _ in range(8)]}


def _klein_of(P):
    return np.array(P.coords("klein"), dtype=float)


def run_hist(inp):
    a = np.array(inp["a"]); b = np.array(inp["b"])
    truth = a.copy()                       # Klein coordinates the object `P` must represent
    P = H.Point(a.copy(), model="klein")
    others = []                            # (object, klein truth) pairs that must never move
    for j, st in enumerate(inp["steps"]):
        m = inp["models"][j % 8]; i = inp["idx"][j % 8]
        if st == "read":
            for mm in MODELS:
                P.coords(mm)
        elif st == "distance":
            P.distance(H.Point(b.copy(), model="klein"))
        elif st == "setitem":
            P[i] = H.Point(b[i].copy(), model="klein"); truth[i] = b[i]
        elif st == "setslice":
            P[...] = H.Point(b.copy(), model="klein"); truth = b.copy()
        elif st == "mutate_returned":
            # G2: whatever coords() hands out belongs to the caller; scribbling over it must not move the point
            c = P.coords(m)
            if m in ("klein", "poincare", "halfspace"):      # (projective/hyperboloid coords are the stored representative itself;
                try:                                         #  the library documents no copy there, so only positive rescaling is tried)
                    c[...] = 0.123
                except (ValueError, TypeError):
                    pass
            else:
                try:
                    c *= 3.0
                except (ValueError, TypeError):
                    pass
        elif st == "set":
            # replace all data through the public setter (a cache keyed on object identity would go stale here)
            P.set(np.concatenate([np.ones((len(b), 1)), b], axis=-1) * 2.5); truth = b.copy()
        elif st == "coords_set":
            # coords(model, data) is the documented get-AND-set entry point
            src = H.Point(b.copy(), model="klein")
            P.coords(m, np.array(src.coords(m), dtype=float)); truth = b.copy()
        elif st == "buffer":
            buf = np.array(P.coords(m), dtype=float)
            first = H.Point(buf, model=m)
            others.append((first, truth.copy()))
            buf[...] = np.array(H.Point(b.copy(), model="klein").coords(m), dtype=float)   # caller recycles its buffer
        elif st == "dup_edit":
            dup = H.Point(P)
            others.append((P, truth.copy())) if False else None
            dup[i] = H.Point(b[i].copy(), model="klein")
            t2 = truth.copy(); t2[i] = b[i]
            others.append((dup, t2))
        elif st == "sel_edit":
            sel = P[0:2]
            sel[0] = H.Point(b[0].copy(), model="klein")
            t2 = truth[0:2].copy(); t2[0] = b[0]
            others.append((sel, t2))
        # after every step: every model's coordinates of P rebuild the point P is supposed to be
        worst = 0.0
        for mm in MODELS:
            c = np.array(P.coords(mm), dtype=float)
            k2 = _klein_of(H.Point(c.copy(), model=mm))
            if k2.shape != truth.shape or not finite(k2):
                return {"step": j, "op": st, "model": mm, "err": float("inf"), "who": "P"}
            worst = max(worst, err(k2, truth))
            if worst > 1e-6:
                return {"step": j, "op": st, "model": mm, "err": worst, "who": "P"}
        # G1: distances reported by the object with a history equal those of a fresh object with the same data
        fresh = H.Point(truth.copy(), model="klein")
        ref = H.Point(b.copy(), model="klein")
        d1 = np.asarray(P.distance(ref), dtype=float); d2 = np.asarray(fresh.distance(ref), dtype=float)
        if d1.shape != d2.shape or not finite(d1) or err(d1, d2) > 1e-6:
            return {"step": j, "op": st, "model": "distance", "err": float(err(d1, d2)) if d1.shape == d2.shape else float("inf"), "who": "P vs fresh"}
        for obj, tr in others:
            k2 = _klein_of(obj)
            if k2.shape != tr.shape or not finite(k2) or err(k2, tr) > 1e-6:
                return {"step": j, "op": st, "model": "klein", "err": err(k2, tr) if k2.shape == tr.shape else float("inf"),
                        "who": "other object"}
    return {"step": -1, "err": 0.0}


def judge_hist(inp, obs, lr):
    if "exc" in obs:
        return {"expected": "history to run", "observed": obs, "tags": {"exc": obs["exc"]}}
    if obs["err"] > 1e-6:
        return {"expected": "after every step each object's coordinates (in every model) rebuild the point it represents; "
                            "other objects and recycled caller buffers do not move it",
                "observed": obs, "tags": {"op": obs.get("op"), "who": obs.get("who")}}
    return None


# ---- oracle: composites containing special elements ------------------------------------------------
def gen_special(rng, n):
    for _ in range(n):
        dim = rng.choice([1, 2, 3, 4])
        k = rng.choice([2, 3, 5])
        pts = fball(rng, dim, [k], 0.95)
        kind = rng.choice(["inf_ideal", "origin", "ideal", "equal"])
        j = rng.randrange(k)
        if kind == "inf_ideal":
            pts[j] = [1.0] + [0.0] * (dim - 1)          # the half-space point at infinity (exempt itself)
        elif kind == "origin":
            pts[j] = [0.0] * dim
        elif kind == "ideal":
            v = [rng.gauss(0, 1) for _ in range(dim)]; nv = math.sqrt(sum(x * x for x in v)) or 1.0
            v = [x / nv for x in v]
            if abs(v[0] - 1) < 0.05:
                v = [-x for x in v]        # keep away from the half-space point at infinity
            pts[j] = v
        else:
            pts[j] = list(pts[(j + 1) % k])
        yield {"dim": dim, "pts": pts, "kind": kind, "j": j}


def run_special(inp):
    k = np.array(inp["pts"])
    P = H.Point(k.copy(), model="klein")
    worst, where = 0.0, None
    special_ideal = inp["kind"] in ("inf_ideal", "ideal")
    for m1 in MODELS:
        with np.errstate(all="ignore"):
            c1 = np.array(P.coords(m1), dtype=float)
        for i in range(len(inp["pts"])):
            if i == inp["j"] and (inp["kind"] == "inf_ideal" or (special_ideal and m1 == "hyperboloid")):
                continue                                     # exempt entry / no hyperboloid point for a lightlike vector
            unit = H.Point(k[i].copy(), model="klein")
            with np.errstate(all="ignore"):
                cu = np.array(unit.coords(m1), dtype=float)
            # the composite's entry i is what the unit object reports ...
            a, b = c1[i], cu
            if m1 in ("projective", "hyperboloid"):
                ok = proj_close(a, b, 1e-6)
            else:
                ok = close(a, b, 1e-6 * (1 + float(np.max(np.abs(b))) ** 2) if i == inp["j"] and special_ideal else 1e-7)
            if not ok:
                return {"worst": float("inf"), "where": [m1, i], "composite": a.tolist(), "unit": b.tolist()}
            # ... and builds back the same point
            if not (i == inp["j"] and special_ideal and m1 == "halfspace"):
                back = _klein_of(H.Point(a.copy(), model=m1))
                e = err(back, k[i])
                if e > worst:
                    worst, where = e, [m1, i]
    d = np.asarray(P.distance(H.Point(np.roll(k, 1, axis=0).copy(), model="klein")), dtype=float)
    dref = []
    for i in range(len(inp["pts"])):
        a, b = k[i], np.roll(k, 1, axis=0)[i]
        if min(1 - a @ a, 1 - b @ b) < 1e-9:
            dref.append(None)
        else:
            dref.append(math.acosh(max(1.0, (1 - a @ b) / math.sqrt((1 - a @ a) * (1 - b @ b)))))
    return {"worst": worst, "where": where, "dist": d.tolist(), "dref": dref}


def judge_special(inp, obs, lr):
    if "exc" in obs:
        return {"expected": "coordinates of a composite containing a special element", "observed": obs,
                "tags": {"exc": obs["exc"], "kind": inp["kind"]}}
    if obs["worst"] > 1e-6:
        return {"expected": "every non-exempt entry of the composite equals its unit object's coordinates and builds back the same point",
                "observed": obs, "tags": {"kind": inp["kind"], "model": (obs.get("where") or [None])[0]}}
    for x, r in zip(obs["dist"], obs["dref"]):
        if r is not None and not (math.isfinite(x) and abs(x - r) <= 1e-6 * (1 + r)):
            return {"expected": {"distances": obs["dref"]}, "observed": obs["dist"], "tags": {"kind": inp["kind"], "distance": True}}
    return None


# ---- oracle: the same coordinates in different packagings / dtypes --------------------------------
# Coordinates that happen to be whole numbers (or dyadic) can be handed over as Python ints, nested lists, tuples,
# integer / float32 arrays, non-contiguous or Fortran-ordered views: the point built from them is the point built from
# the float64 array with the same values, in every model, for units and composites, and so are its distances.
_HYP_INT = {1: [[1, 0], [-1, 0]],
            2: [[1, 0, 0], [3, 2, 2], [3, -2, 2], [9, 8, 4], [9, 4, -8], [17, 12, 12], [-3, 2, 2]],
            3: [[1, 0, 0, 0], [2, 1, 1, 1], [3, 2, 2, 0], [3, 0, -2, 2], [-2, 1, -1, 1], [7, 4, 4, 4]]}


def gen_pack(rng, n):
    for _ in range(n):
        dim = rng.choice([1, 2, 2, 3])
        m = rng.choice(MODELS)
        k = rng.choice([0, 1, 2, 3])                        # 0: a unit object, else a composite of k points
        cnt = max(k, 1)
        pts = []
        for _ in range(cnt):
            if m == "hyperboloid":
                pts.append(list(rng.choice(_HYP_INT[dim])))
            elif m == "projective":
                while True:
                    v = [rng.randint(-6, 6) for _ in range(dim)]
                    t = rng.choice([-1, 1]) * rng.randint(1, 9)
                    if t * t > sum(x * x for x in v):
                        break
                pts.append([t] + v)
            elif m == "halfspace":
                pts.append([rng.randint(-5, 5) for _ in range(dim - 1)] + [rng.randint(1, 6)])
            else:                                            # unit ball: dyadic coordinates (exact in float32), incl. the origin
                while True:
                    v = [rng.choice([0, 0, 0.5, -0.5, 0.25, -0.25, 0.75, -0.125]) for _ in range(dim)]
                    if sum(x * x for x in v) < 0.95:
                        break
                if rng.random() < 0.3:
                    v = [0] * dim
                pts.append(v)
        integral = all(float(x).is_integer() for p in pts for x in p)
        packs = ["list", "tuple", "f32", "f64_view", "f64_fortran", "f64_readonly"] + (["int_list", "int64", "int32", "py_mixed"] if integral else [])
        yield {"dim": dim, "model": m, "k": k, "pts": pts, "pack": rng.choice(packs)}


def _package(inp):
    pts = inp["pts"] if inp["k"] else inp["pts"][0]
    ref = np.array(pts, dtype=float)
    pk = inp["pack"]
    if pk == "list":
        return ref, [[float(x) for x in p] for p in pts] if inp["k"] else [float(x) for x in pts]
    if pk == "tuple":
        return ref, tuple(tuple(float(x) for x in p) for p in pts) if inp["k"] else tuple(float(x) for x in pts)
    if pk == "int_list":
        return ref, [[int(x) for x in p] for p in pts] if inp["k"] else [int(x) for x in pts]
    if pk == "py_mixed":                                      # Python ints and floats side by side
        mix = lambda p: [int(x) if i % 2 else float(x) for i, x in enumerate(p)]
        return ref, [mix(p) for p in pts] if inp["k"] else mix(pts)
    if pk == "int64":
        return ref, np.array(pts, dtype=np.int64)
    if pk == "int32":
        return ref, np.array(pts, dtype=np.int32)
    if pk == "f32":
        return ref, np.array(pts, dtype=np.float32)
    if pk == "f64_view":                                      # every other column of a wider buffer
        big = np.zeros(ref.shape[:-1] + (2 * ref.shape[-1],)); big[..., ::2] = ref
        return ref, big[..., ::2]
    if pk == "f64_fortran":
        return ref, np.asfortranarray(ref)
    if pk == "f64_readonly":
        r = ref.copy(); r.setflags(write=False)
        return ref, r
    raise ValueError(pk)


def run_pack(inp):
    ref, data = _package(inp)
    snap = np.array(data, dtype=float).copy()
    A = H.Point(data, model=inp["model"])
    B = H.Point(ref.copy(), model=inp["model"])
    out = {"worst": 0.0, "where": None}
    f32 = inp["pack"] == "f32"                               # float32 data is processed in float32: compare loosely
    for mm in MODELS:
        ca, cb = np.array(A.coords(mm), dtype=float), np.array(B.coords(mm), dtype=float)
        if ca.shape != cb.shape or not finite(ca):
            return {"worst": float("inf"), "where": mm, "a": ca.tolist(), "b": cb.tolist()}
        if mm in ("projective", "hyperboloid"):
            ok = all(proj_close(x, y, 1e-3 if f32 else 1e-6) for x, y in zip(ca.reshape(-1, ca.shape[-1]), cb.reshape(-1, cb.shape[-1])))
            e = 0.0 if ok else float("inf")
        else:
            e = err(ca, cb)
            if f32:
                e = 0.0 if e <= 1e-3 * (1 + float(np.max(np.abs(cb))) ** 2) else e
        if e > out["worst"]:
            out = {"worst": e, "where": mm, "a": ca.tolist(), "b": cb.tolist()}
    o = H.Point(np.zeros(inp["dim"]), model="klein")
    da, db = np.asarray(A.distance(o), dtype=float), np.asarray(B.distance(o), dtype=float)
    if da.shape != db.shape or not finite(da) or err(da, db) > (1e-2 if f32 else 1e-6):
        return {"worst": float("inf"), "where": "distance", "a": da.tolist(), "b": db.tolist()}
    after = np.array(data, dtype=float)
    if not all(proj_close(x, y, 1e-9) for x, y in zip(after.reshape(-1, after.shape[-1]), snap.reshape(-1, snap.shape[-1]))) \
            if inp["model"] in ("projective", "hyperboloid") else not close(after, snap, 0):
        return {"worst": float("inf"), "where": "caller data changed", "a": after.tolist(), "b": snap.tolist()}
    return out


def judge_pack(inp, obs, lr):
    if "exc" in obs:
        return {"expected": "a point from packaged coordinates", "observed": obs,
                "tags": {"exc": obs["exc"], "pack": inp["pack"], "model": inp["model"]}}
    if obs["worst"] > 1e-6:
        return {"expected": "same point as from the float64 array with the same values", "observed": obs,
                "tags": {"pack": inp["pack"], "model": inp["model"], "where": obs["where"]}}
    return None


# ---- oracle: every accepted name of a model and every entry point agree ------------------------------
# The Model enum documents aliases compared case-insensitively; Point(c, model=m), p.coords(m), p.coords(m, data),
# the per-model methods and the module-level functions are alternative entry points to one conversion.
def _alias_names():
    out = {}
    for name, member in H.Model.__members__.items():
        out.setdefault(member.value, []).append(name)
    return out


def gen_alias(rng, n):
    names = _alias_names()
    for _ in range(n):
        dim = rng.choice([1, 2, 3])
        canon = rng.choice(MODELS)
        alias = rng.choice(names[canon])
        form = rng.choice(["enum", "lower", "upper", "title", "mixed"])
        k = rng.choice([0, 2, 3])
        yield {"dim": dim, "canon": canon, "alias": alias, "form": form, "k": k,
               "pts": fball(rng, dim, [max(k, 1)], 0.95), "scale": rng.choice([1.0, -2.5, 0.3])}


def _alias_value(inp):
    a = inp["alias"]
    return {"enum": getattr(H.Model, a), "lower": a.lower(), "upper": a.upper(), "title": a.title(),
            "mixed": "".join(c.upper() if i % 2 else c.lower() for i, c in enumerate(a))}[inp["form"]]


def run_alias(inp):
    k = np.array(inp["pts"] if inp["k"] else inp["pts"][0])
    m, canon = _alias_value(inp), inp["canon"]
    P = H.Point(np.concatenate([np.ones(k.shape[:-1] + (1,)), k], axis=-1) * inp["scale"], model="projective")
    ref = np.array(P.coords(canon), dtype=float)
    got = np.array(P.coords(m), dtype=float)                       # read through the alias
    out = {"read": err(got, ref) if got.shape == ref.shape and finite(got) else float("inf")}
    Q1 = H.Point(ref.copy(), model=m)                              # construct through the alias
    out["construct"] = err(_klein_of(Q1), k) if _klein_of(Q1).shape == k.shape else float("inf")
    Q2 = H.Point(np.concatenate([np.ones(k.shape[:-1] + (1,)), 0 * k], axis=-1), model="projective")
    Q2.coords(m, ref.copy())                                       # get-and-set through the alias
    out["set"] = err(_klein_of(Q2), k) if _klein_of(Q2).shape == k.shape else float("inf")
    meth = {"projective": "projective_coords", "hyperboloid": "hyperboloid_coords", "klein": "kleinian_coords",
            "poincare": "poincare_coords", "halfspace": "halfspace_coords"}[canon]
    if hasattr(P, meth):                                           # the per-model method is the same conversion
        via = np.array(getattr(P, meth)(), dtype=float)
        ok = via.shape == ref.shape and (all(proj_close(x, y, 1e-9) for x, y in zip(via.reshape(-1, via.shape[-1]), ref.reshape(-1, ref.shape[-1])))
                                         if canon in ("projective", "hyperboloid") else close(via, ref, 1e-9))
        out["method"] = 0.0 if ok else float("inf")
    return out


def judge_alias(inp, obs, lr):
    if "exc" in obs:
        return {"expected": "every documented model name is accepted", "observed": obs,
                "tags": {"exc": obs["exc"], "alias": inp["alias"], "form": inp["form"]}}
    for k, v in obs.items():
        if v > 1e-7:
            return {"expected": f"{k} through the name {inp['alias']!r} ({inp['form']}) = through {inp['canon']!r}", "observed": obs,
                    "tags": {"alias": inp["alias"], "form": inp["form"], "entry": k}}
    return None


# ---- oracle: composites assembled from point objects ---------------------------------------------------
# Point([P1, P2, ...]) (a list of point objects, possibly of different dtypes, scales and origins) is the composite of
# the same points built from one float coordinate array, in the given order.
def gen_assemble(rng, n):
    for _ in range(n):
        dim = rng.choice([1, 2, 3])
        k = rng.choice([1, 2, 3, 4])
        members = []
        for _ in range(k):
            kind = rng.choice(["int_proj", "int_origin", "float_klein", "float_proj", "f32", "float_poincare", "int_halfspace"])
            if kind == "int_proj":
                while True:
                    v = [rng.randint(-6, 6) for _ in range(dim)]; t = rng.choice([-1, 1]) * rng.randint(1, 9)
                    if t * t > sum(x * x for x in v):
                        break
                members.append({"kind": kind, "data": [t] + v})
            elif kind == "int_origin":
                members.append({"kind": kind, "data": [0] * dim})
            elif kind == "int_halfspace":
                members.append({"kind": kind, "data": [rng.randint(-4, 4) for _ in range(dim - 1)] + [rng.randint(1, 5)]})
            elif kind == "float_proj":
                p = fball(rng, dim, [1], 0.95)[0]; sc = rng.choice([-1, 1]) * rng.uniform(0.2, 5)
                members.append({"kind": kind, "data": [sc] + [sc * x for x in p]})
            else:
                members.append({"kind": kind, "data": fball(rng, dim, [1], 0.95)[0]})
        yield {"dim": dim, "members": members, "warm": rng.random() < 0.5}


def _member(mb):
    kd, d = mb["kind"], mb["data"]
    if kd == "int_proj":
        return H.Point(np.array(d, dtype=np.int64), model="projective")
    if kd == "int_origin":
        return H.Point(np.array(d, dtype=np.int64), model="klein")
    if kd == "int_halfspace":
        return H.Point(np.array(d, dtype=np.int64), model="halfspace")
    if kd == "float_proj":
        return H.Point(np.array(d, dtype=float), model="projective")
    if kd == "f32":
        return H.Point(np.array(d, dtype=np.float32), model="klein")
    if kd == "float_poincare":
        return H.Point(np.array(d, dtype=float), model="poincare")
    return H.Point(np.array(d, dtype=float), model="klein")


def run_assemble(inp):
    objs = [_member(mb) for mb in inp["members"]]
    truth = np.array([_klein_of(_member(mb)) for mb in inp["members"]])      # each member on its own, fresh
    if inp["warm"]:
        for o in objs:                                                      # members that already answered queries
            o.coords("hyperboloid"); o.distance(H.Point(np.zeros(inp["dim"]), model="klein"))
    comp = H.Point(objs)
    k = _klein_of(comp)
    if k.shape != truth.shape or not finite(k):
        return {"err": float("inf"), "shape": list(k.shape), "want": list(truth.shape)}
    e = err(k, truth)
    ref = H.Point(truth.copy(), model="klein")
    o = H.Point(np.zeros(inp["dim"]), model="klein")
    d1, d2 = np.asarray(comp.distance(o), dtype=float), np.asarray(ref.distance(o), dtype=float)
    e = max(e, err(d1, d2) if d1.shape == d2.shape and finite(d1) else float("inf"))
    after = np.array([_klein_of(x) for x in objs])                          # the members are still where they were
    e = max(e, err(after, truth))
    return {"err": float(e), "klein": k.tolist(), "truth": truth.tolist()}


def judge_assemble(inp, obs, lr):
    if "exc" in obs:
        return {"expected": "a composite from a list of point objects", "observed": obs,
                "tags": {"exc": obs["exc"], "kinds": [m["kind"] for m in inp["members"]]}}
    tol = 1e-3 if any(m["kind"] == "f32" for m in inp["members"]) else 1e-6
    if obs["err"] > tol:
        return {"expected": "member i of Point([P1, P2, ...]) is P_i (same Klein coordinates, same distances), members untouched",
                "observed": obs, "tags": {"kinds": [m["kind"] for m in inp["members"]], "warm": inp["warm"]}}
    return None


CLAUSES = [
    Clause("coords_corr", "corr", gen_coords, run_coords, judge_coords, lean=lean_coords2,
           site="hyperbolic.Point.coords", budget={"quick": 150, "thorough": 20000},
           what="Point(d, model=m1).coords(m2) for all m2 vs Lean setX/getX executed over ℚ (rational Poincaré points, ideal points, composite shapes)"),
    Clause("dist_corr", "corr", gen_dist, run_dist, judge_dist, lean=lean_dist,
           site="hyperbolic.Point.distance", budget={"quick": 200, "thorough": 20000},
           what="cosh(Point.distance) vs Lean coshDistClamped over ℚ, incl. d(x,x) and rescaled representatives of either sign"),
    Clause("roundtrip_oracle", "oracle", gen_rt, run_rt, judge_rt, site="hyperbolic.Point.coords",
           budget={"quick": 60, "thorough": 8000},
           what="float points: coords(m1) -> Point(.,m1) -> coords(m2) -> Point(.,m2) -> klein, all 25 ordered pairs, dims 1-5, shapes rank 0-3"),
    Clause("metric_oracle", "oracle", gen_metric, run_metric, judge_metric, site="hyperbolic.Point.distance",
           budget={"quick": 300, "thorough": 60000},
           what="metric laws (finite, >=0, d(x,x)=0, symmetry, triangle), closed-form metrics of each model, composite = per unit"),
    Clause("history_oracle", "oracle", gen_hist, run_hist, judge_hist, site="hyperbolic.Point.coords / __setitem__ / Point(Point)",
           budget={"quick": 120, "thorough": 4000},
           what="histories on point objects: reads in every model, in-place item assignment, points built from caller buffers that are then recycled, "
                "copies and selections that are then edited; after every step all models' coordinates rebuild the represented point"),
    Clause("special_oracle", "oracle", gen_special, run_special, judge_special, site="hyperbolic.Point.coords (composite)",
           budget={"quick": 120, "thorough": 4000},
           what="composites containing a special element (the half-space point at infinity, the origin, an ideal point, two equal points): "
                "every other entry still equals its unit object's coordinates, round-trips, and has the right distance"),
    Clause("packaging_oracle", "oracle", gen_pack, run_pack, judge_pack, site="hyperbolic.Point.__init__ / coords (packagings)",
           budget={"quick": 200, "thorough": 6000},
           what="whole-number / dyadic coordinates in every model handed over as Python ints, nested lists, tuples, int32/int64/float32 "
                "arrays, strided, Fortran-ordered and read-only views: same point and distances as from the float64 array"),
    Clause("alias_oracle", "oracle", gen_alias, run_alias, judge_alias, site="hyperbolic.Model / Point.coords / Point.__init__ (names and entry points)",
           budget={"quick": 150, "thorough": 4000},
           what="every documented model name (enum member, alias, any letter case) through every entry point (read, construct, get-and-set, "
                "per-model method) is the same conversion as the canonical name"),
    Clause("assemble_oracle", "oracle", gen_assemble, run_assemble, judge_assemble, site="hyperbolic.Point([P1, P2, ...])",
           budget={"quick": 150, "thorough": 4000},
           what="composites assembled from a list of point objects of different dtypes (int first, float later, float32), models, scales and "
                "query histories: member i is P_i, members untouched"),
]
