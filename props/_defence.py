"""Generic defences G1-G3 for the FSA class, used by C09 (views) and C10 (language):

G1  fresh-object differential: after every step the object with a history answers like a fresh object
    built from its current label view and start list;
G2  input/output isolation: every container passed into a call is snapshotted and compared afterwards,
    collections are passed as lists / tuples / generators / iterators / dict views / strings; everything the
    API returns is mutated in place and the automaton re-examined; no mutable container is shared between
    two automata of the process or between an automaton and a caller argument (identity scan);
G3  cross-object independence: unrelated automata over the SAME vertex names and labels (plus FSA(),
    built-ins, free automata) are built, edited and queried between the steps, in both orders.
"""
import copy, collections, itertools, types
from props import _fsa as U
from geometry_tools.automata import fsa as FS
from geometry_tools.automata.fsa import FSA, FSAException

PACKS = ["list", "tuple", "gen", "iter", "view"]


def pack(kind, items, allow_str=False):
    """the same collection in a different packaging (one-shot where the packaging is one-shot)"""
    items = list(items)
    if kind == "tuple":
        return tuple(items)
    if kind == "gen":
        return (x for x in items)
    if kind == "iter":
        return iter(items)
    if kind == "view":
        try:
            d = dict.fromkeys(items)
            if len(d) == len(items):
                return d.keys()
        except TypeError:
            pass
        return tuple(items)
    if kind == "str" and allow_str and all(isinstance(x, str) and len(x) == 1 for x in items):
        return "".join(items)
    return items


def apply_packed(A, op, pk):
    """U.apply_op with the argument collections repackaged according to pk; returns (automaton, input-problems)"""
    k = op["k"]
    p1, p2, p3 = pk
    problems = []
    if k == "addv":
        src = list(op["vs"])
        keep = list(src)
        A.add_vertices(pack(p1, src))
        if src != keep:
            problems.append("add_vertices modified its argument")
    elif k == "adde":
        es = [tuple(e) if p2 != "list" else list(e) for e in op["es"]]
        keep = copy.deepcopy(es)
        A.add_edges(pack(p1, es), elist=False, ignore_redundant=op.get("ir", True))
        if es != keep:
            problems.append("add_edges modified its argument")
    elif k == "addel":
        inner = [list(e[2]) for e in op["es"]]
        keep = copy.deepcopy(inner)
        es = [(e[0], e[1], pack(p3, ls, allow_str=True)) for e, ls in zip(op["es"], inner)]
        if p3 == "list":
            es = [(e[0], e[1], ls) for e, ls in zip(op["es"], inner)]          # the caller's own list objects
        A.add_edges(pack(p1, es), elist=True, ignore_redundant=op.get("ir", True))
        if inner != keep:
            problems.append("add_edges(elist=True) modified the caller's label lists")
    elif k == "delvs":
        src = list(op["vs"])
        keep = list(src)
        A.delete_vertices(pack(p1, src))
        if src != keep:
            problems.append("delete_vertices modified its argument")
    elif k == "rename":
        m = dict(map(tuple, op["m"]))
        keep = dict(m)
        A.rename_generators(types.MappingProxyType(m) if p1 in ("view", "tuple") else m, inplace=True)
        if m != keep:
            problems.append("rename_generators modified its map")
    else:
        A = U.apply_op(A, op)
    return A, problems


# ------------------------------------------------------------------ identity scan
def container_ids(x, acc=None, depth=0):
    """ids of the mutable containers reachable from x (dicts, lists, sets, deques and object attributes)"""
    if acc is None:
        acc = {}
    if depth > 8:
        return acc
    if isinstance(x, (dict, list, set, collections.deque)):
        if id(x) in acc:
            return acc
        acc[id(x)] = type(x).__name__
        it = list(x.values()) if isinstance(x, dict) else list(x)
        for y in it:
            container_ids(y, acc, depth + 1)
    elif isinstance(x, tuple):
        for y in x:
            container_ids(y, acc, depth + 1)
    elif isinstance(x, FSA):
        # only what the public API hands out (the three view properties and the start list): whether two automata share
        # internal, never exposed structure is their own business
        for y in (x.graph_dict, x.out_dict, x.in_dict, x.start_vertices):
            container_ids(y, acc, depth + 1)
    return acc


def shared_containers(objs):
    """pairs of named objects that share a mutable container"""
    seen, out = {}, []
    for name, o in objs:
        for i, t in container_ids(o).items():
            if i in seen and seen[i] != name:
                out.append([seen[i], name, t])
            seen.setdefault(i, name)
    return out[:3]


# ------------------------------------------------------------------ queries
def words_upto(ls, n):
    for k in range(n + 1):
        yield from itertools.product(ls, repeat=k)


def lang_snapshot(A, vs, ls, wmax=2, nmax=2):
    """every query family of C10 as plain data"""
    out = {}
    starts = list(A.start_vertices)
    verts = set(A.vertices())
    for sv in [None] + list(vs)[:2]:
        if (sv is None and (not starts or starts[0] not in verts)) or (sv is not None and sv not in verts):
            continue            # queries from something that is not a state are outside the contract
        for w in words_upto(ls, wmax):
            pw = "".join(w)
            try:
                f = repr(A.follow_word(pw, start_vertex=sv))
            except FSAException:
                f = "FSAException"
            except KeyError:
                f = "KeyError"
            out[("f", repr(sv), pw)] = (A.accepts(pw, start_vertex=sv), f)
        for n in range(nmax + 1):
            try:
                out[("e", repr(sv), n)] = (sorted(map(repr, U.capped(A.enumerate_fixed_length_paths(n, start_vertex=sv, with_states=True)))),
                                          sorted(U.capped(A.enumerate_words(n, start_vertex=sv))))
            except KeyError:
                out[("e", repr(sv), n)] = "KeyError"
    if starts and starts[0] in verts:
        for w in words_upto(ls, wmax):
            pw = "".join(w)
            try:
                out[("p", pw)] = (A.initial_accepted_subword(pw), A.initial_rejected_subword(pw))
            except KeyError:
                out[("p", pw)] = "KeyError"
    return out


def lang_reference(ref, starts, vs, ls, wmax=2, nmax=2):
    out = {}
    for sv in [None] + list(vs)[:2]:
        if (sv is None and (not starts or starts[0] not in ref.V)) or (sv is not None and sv not in ref.V):
            continue
        s0 = starts[0] if sv is None else sv
        for w in words_upto(ls, wmax):
            pw = "".join(w)
            end = ref.follow(s0, w) if (s0 in ref.V or not w) else None
            acc = (end is not None) if sv is not None else any((x in ref.V or not w) and ref.follow(x, w) is not None for x in starts)
            out[("f", repr(sv), pw)] = (acc, repr(end) if end is not None else ("FSAException"))
        tot = []
        for n in range(nmax + 1):
            if s0 not in ref.V and n > 0:
                out[("e", repr(sv), n)] = "KeyError"
                continue
            lv = [("".join(w), e) for w, e in ref.lang(s0, n)]
            tot += [w for w, _ in lv]
            out[("e", repr(sv), n)] = (sorted(repr((w, e)) for w, e in lv), sorted(tot))
    if starts and starts[0] in ref.V:
        s0 = starts[0]
        for w in words_upto(ls, wmax):
            pw = "".join(w)
            best = max((w[:j] for j in range(len(w) + 1) if (s0 in ref.V or j == 0) and ref.follow(s0, w[:j]) is not None), key=len)
            out[("p", pw)] = ("".join(best), None if len(best) == len(w) else "".join(w[:len(best) + 1]))
    return out


def first_diff(a, b):
    for k in sorted(set(a) | set(b), key=repr):
        if a.get(k) != b.get(k):
            return [list(k), repr(a.get(k))[:160], repr(b.get(k))[:160]]
    return None


def poke_outputs(A, ref):
    """G2: mutate in place everything the API hands out (values, not the documented handles)"""
    got = []
    for v in list(A.vertices())[:3]:
        for w in list(A.neighbors_out(v))[:2]:
            labs = A.edge_labels(v, w)
            labs.append("_zz")
            labs.clear()
        eo = list(A.edges_out(v)); eo.append("x"); eo.clear()
        ei = list(A.edges_in(v)); ei.append("x"); ei.clear()
        nb = list(A.neighbors_out(v)); nb.append("x")
        ni = list(A.neighbors_in(v)); ni.clear()
    es = list(A.edges(with_labels=True)); es.reverse(); es.clear()
    vs = list(A.vertices()); vs.append("_ghost")
    if A.start_vertices and A.start_vertices[0] in ref.V:
        ew = list(U.capped(A.enumerate_words(2, with_states=True)))
        ew.append(("_zz", "_ghost")); ew.reverse(); ew.clear()
        ef = list(U.capped(A.enumerate_fixed_length_paths(1)))
        ef.clear()
    return got


def fresh_of(A):
    """a fresh automaton from the current primary data of A"""
    return FSA({v: dict(row) for v, row in A.graph_dict.items()}, list(A.start_vertices))


# ------------------------------------------------------------------ the history
def gen_defence(rng, n, mode):
    for _ in range(n):
        main = U.rand_history(rng, maxlen=rng.choice([3, 6, 10]), p_invalid=0.0, fresh=False)
        while main["init"]["route"] not in ("graph", "out", "empty"):
            main = U.rand_history(rng, maxlen=rng.choice([3, 6, 10]), p_invalid=0.0, fresh=False)
        other = U.rand_history(rng, maxlen=rng.choice([2, 4, 8]), p_invalid=0.0, fresh=False)
        while other["init"]["route"] not in ("graph", "out", "empty"):
            other = U.rand_history(rng, maxlen=rng.choice([2, 4, 8]), p_invalid=0.0, fresh=False)
        sched = []          # interleaving: "m" = next step of the main object, "o" = next step of the unrelated one
        nm, no = len(main["ops"]), len(other["ops"])
        seq = ["m"] * nm + ["o"] * no
        rng.shuffle(seq)
        extra = [rng.choice(["FSA()", "builtin", "free", "derive"]) for _ in range(rng.choice([0, 1, 2, 3]))]
        yield {"main": main, "other": other, "seq": seq, "first": rng.choice(["m", "o"]),
               "pk": [[rng.choice(PACKS), rng.choice(PACKS), rng.choice(PACKS + ["str"])] for _ in range(nm + no + 1)],
               "extra": extra, "restart": [[rng.choice(U.VS)] if rng.random() < 0.5 else None for _ in range(nm)], "mode": mode}


def run_defence(inp):
    mode = inp["mode"]
    vs, ls = U.VS, U.LS
    bad = []
    objs = {}

    def build(h, name):
        init = h["init"]
        if init["route"] == "graph":
            arg = collections.OrderedDict((v, {l: w for l, w in d}) for v, d in init["d"])
        elif init["route"] == "out":
            arg = {v: {w: list(lab) for w, lab in d} for v, d in init["d"]}
        else:
            arg = {}
        st = list(init["starts"])
        keep = (copy.deepcopy(arg), list(st))
        A = FSA(arg, start_vertices=pack(inp["pk"][0][0], st), graph_dict=(init["route"] != "out"))
        _, ref = U.build(init)
        if (arg, st) != keep:
            bad.append([name, "constructor modified its arguments"])
        objs[name] = {"A": A, "ref": ref, "starts": list(st), "arg": arg, "st": st, "ops": list(h["ops"]), "i": 0}

    def examine(name, where):
        o = objs[name]
        A, ref = o["A"], o["ref"]
        pb = U.coherence_problems(U.views(A), ref)
        if list(A.start_vertices) != o["starts"]:
            pb.append("start-list")
        if pb:
            bad.append([name, where, "views"] + pb)
            return
        if mode == "lang" or where.endswith("final"):
            d = first_diff(lang_snapshot(A, vs, ls), lang_reference(ref, o["starts"], vs, ls))
            if d:
                bad.append([name, where, "language-vs-reference"] + d)
            F = fresh_of(A)
            d = first_diff(lang_snapshot(A, vs, ls), lang_snapshot(F, vs, ls))
            if d:
                bad.append([name, where, "differs-from-a-fresh-object"] + d)
        else:
            F = fresh_of(A)
            ca, cf = U.canon(U.views(A)), U.canon(U.views(F))
            cf["o"] = [[v, [e for e in row if e[1]]] for v, row in cf["o"]]
            ca["o"] = [[v, [e for e in row if e[1]]] for v, row in ca["o"]]
            if ca != cf:
                bad.append([name, where, "differs-from-a-fresh-object"])

    def step(name):
        o = objs[name]
        if o["i"] >= len(o["ops"]):
            return
        op = o["ops"][o["i"]]
        pk = inp["pk"][(o["i"] + (0 if name == "main" else 7)) % len(inp["pk"])] if inp["pk"] else ["list"] * 3
        if not o["ref"].valid(op):
            o["i"] = len(o["ops"])
            return
        before_other = {n: U.canon(U.views(x["A"])) for n, x in objs.items() if n != name}
        o["A"], pin = apply_packed(o["A"], op, pk)
        o["ref"].apply(op)
        for p in pin:
            bad.append([name, op["k"], p])
        if name == "main" and mode == "lang":
            rs = inp["restart"][o["i"]] if o["i"] < len(inp["restart"]) else None
            if rs is not None:                       # re-root between the queries
                o["A"].start_vertices = list(rs)
                o["starts"] = list(rs)
        o["i"] += 1
        examine(name, "after %s #%d (%s)" % (name, o["i"], op["k"]))
        poke_outputs(o["A"], o["ref"])
        examine(name, "after mutating what the accessors returned (%s #%d)" % (name, o["i"]))
        for n, c in before_other.items():
            if U.canon(U.views(objs[n]["A"])) != c:
                bad.append([n, "changed by a step on " + name, op["k"]])
        sh = shared_containers([(n, x["A"]) for n, x in objs.items()] + [(n + "-argument", (x["arg"], x["st"])) for n, x in objs.items()])
        if sh:
            bad.append(["shared mutable container"] + sh[0])

    first, second = ("main", "other") if inp["first"] == "m" else ("other", "main")
    build(inp[first], first)
    build(inp[second], second)
    examine(first, "construction"); examine(second, "construction")
    for who in inp["seq"]:
        if bad:
            break
        step("main" if who == "m" else "other")
    # unrelated constructions of the same class in between / afterwards
    for x in inp["extra"]:
        if bad:
            break
        if x == "FSA()":
            E = FSA()
            if list(E.vertices()) or list(E.start_vertices) or list(E.edges()):
                bad.append(["FSA() is not empty", list(E.vertices()), list(E.start_vertices)])
            E.add_edges([(0, 1, "a")]); E.start_vertices.append(0)
        elif x == "builtin":
            B = FS.load_builtin("f2.wa"); B.delete_vertex(1); B.start_vertices.append(99)
            B2 = FS.load_builtin("f2.wa")
            if len(list(B2.vertices())) != 5 or list(B2.start_vertices) != [1]:
                bad.append(["second load of a built-in differs from the file"])
        elif x == "free":
            Fz = FS.free_automaton("ab"); Fz.delete_vertex("a")
            if len(list(FS.free_automaton("ab").vertices())) != 5:
                bad.append(["free_automaton changed"])
        elif x == "derive":
            A = objs["main"]["A"]
            ref = objs["main"]["ref"]
            if A.start_vertices and set(A.start_vertices) <= ref.V:
                with U.time_limit(5):
                    D1 = A.automaton_multiple(1); D2 = A.even_automaton()
                H = A.remove_long_paths()
                R = A.recurrent(inplace=False)
                for D in (D1, D2, H, R):
                    D.add_vertices(["_n"]); D.add_edges([("_n", "_n", "_l")]); D.start_vertices.append("_s")
                    for v in list(D.vertices())[:2]:
                        D.delete_vertex(v)
                sh = shared_containers([("main", A), ("multiple", D1), ("even", D2), ("shortest", H), ("recurrent", R)])
                if sh:
                    bad.append(["shared mutable container"] + sh[0])
        for n in objs:
            examine(n, "after unrelated " + x)
    for n in objs:
        if not bad:
            examine(n, "final")
    return {"bad": bad[:4]}


def judge_defence(inp, obs, lr):
    if "exc" in obs:
        return {"expected": "every step succeeds", "observed": obs, "tags": {"exc": obs["exc"]}}
    if obs["bad"]:
        b = obs["bad"][0]
        return {"expected": "G1 fresh-object differential, G2 input/output isolation, G3 cross-object independence", "observed": obs["bad"],
                "tags": {"which": str(b[2] if len(b) > 2 else b[-1])[:60]}}
    return None


def gen_views(rng, n):
    return gen_defence(rng, n, "views")


def gen_lang(rng, n):
    return gen_defence(rng, n, "lang")
