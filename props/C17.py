"""C17 — the Lie-group maps are homomorphisms onto the groups they name (DESIGN §4 C17)."""
import math
from fractions import Fraction as F
import numpy as np
from vlib.runner import Clause
from vlib import q as Q
from vlib.canon import close, err, finite
from props import _cx as C
from props._cx import Z
from geometry_tools import lie
from geometry_tools import hyperbolic as H

LEVEL = "proof"
EXPLANATION = ("Lean theorems: sl2_irrep (general-n formula of the source) is multiplicative, unital and has det = (det A)^(n(n-1)/2) for "
               "n = 1..6 over every commutative ring; sl2_to_so21 is multiplicative, unital, scales diag(-1,1,1) by (det A)^2 and has "
               "det = (det A)^3; gln_adjoint / sln_adjoint are multiplicative and unital for every n (linear_matrix_action is functorial "
               "on linear maps) and sln_adjoint preserves sln_killing_form; slc_to_slr and block_include are multiplicative and unital "
               "for every n; sl2c_to_so31 (complex numbers as pairs) is multiplicative, unital, real, and scales diag(-1,1,1,1) by "
               "|det M|^2 with determinant |det M|^4; the repaired o_to_pgl recovers ±A from sl2_to_so21(A) for every A with det ≠ 0 and is a homomorphism up to "
               "sign on that image; for the pinned extraction the negation is proved (witness [[2,3],[1,2]] ↦ [[2,1],[3,2]]). Exact "
               "ℚ / ℚ(i) correspondence of every map with the executed model (single matrices and arrays); float oracles for the "
               "homomorphism laws, preserved structures and the ±A recovery.")
ASSUMPTIONS = ["numpy.linalg.inv is a contract: exact inverses are supplied to the model; the literal inverse matrices of the model are proved to be inverses",
               "scipy.special.binom returns exact small binomial coefficients",
               "IEEE rounding within 1e-9 relative on the generated inputs (entries bounded, determinants bounded away from 0)"]
TOL = 1e-9


def rfield(rng, p=0.4):
    return "QI" if rng.random() < p else "Q"


def tolist(x):
    x = np.asarray(x)
    if x.dtype == object:
        return {"object_dtype": True}
    if np.iscomplexobj(x):
        return {"cplx": True, "shape": list(x.shape), "v": [[float(v.real), float(v.imag)] for v in x.reshape(-1)]}
    return {"cplx": False, "shape": list(x.shape), "v": x.reshape(-1).astype(float).tolist()}


def toarr(d):
    if d["cplx"]:
        return np.array([complex(a, b) for a, b in d["v"]], dtype=complex).reshape(d["shape"])
    return np.array(d["v"], dtype=float).reshape(d["shape"])


def same(py, model, tol=TOL):
    py, model = np.asarray(py), np.asarray(model)
    if py.shape != model.shape:
        return False
    return close(py.astype(complex), model.astype(complex), tol)


def mats_of(inp, key, n):
    return C.dec(inp[key], inp["field"]).reshape((-1, n, n))


SHAPES = [[], [], [], [1], [2], [3], [2, 2], [1, 2]]


LOCI = ["adbc0", "adbc0", "adbc0", "a_eq_d", "a_eq_md", "b_eq_c", "b_eq_mc", "parabolic", "diag", "antidiag",
        "upper", "lower", "zero_a", "zero_d", "minus_one"]


def special_sl2(rng):
    """determinant-one 2x2 matrices with DYADIC entries on exact algebraic special loci (exact in floating point too):
    ad + bc = 0 (ad = 1/2, bc = -1/2), a = ±d (trace 0), b = ±c, trace 2, (anti)diagonal, triangular, vanishing entries."""
    pw = lambda: F(2) ** rng.randint(-2, 2) * rng.choice([-1, 1])
    t, s, u = pw(), pw(), pw()
    fam = rng.choice(LOCI)
    if fam == "adbc0":
        M = [[t, s], [-1 / (2 * s), 1 / (2 * t)]]
    elif fam == "a_eq_d":
        M = [[t, s], [(t * t - 1) / s, t]]
    elif fam == "a_eq_md":
        M = [[t, s], [(-t * t - 1) / s, -t]]
    elif fam == "b_eq_c":
        M = [[t, s], [s, (1 + s * s) / t]]
    elif fam == "b_eq_mc":
        M = [[t, s], [-s, (1 - s * s) / t]]
    elif fam == "parabolic":
        M = [[1 + s, -s * u], [s / u, 1 - s]]
    elif fam == "diag":
        M = [[t, F(0)], [F(0), 1 / t]]
    elif fam == "antidiag":
        M = [[F(0), t], [-1 / t, F(0)]]
    elif fam == "upper":
        M = [[t, s], [F(0), 1 / t]]
    elif fam == "lower":
        M = [[t, F(0)], [s, 1 / t]]
    elif fam == "zero_a":
        M = [[F(0), t], [-1 / t, s]]
    elif fam == "zero_d":
        M = [[s, t], [-1 / t, F(0)]]
    else:
        M = [[F(-1), F(0)], [F(0), F(-1)]]
    assert M[0][0] * M[1][1] - M[0][1] * M[1][0] == 1
    return [[F(x) for x in r] for r in M]


WORD_GENS = [[[1, 2], [0, 1]], [[1, 0], [2, 1]], [[1, -2], [0, 1]], [[1, 0], [-2, 1]], [[2, 0], [0, F(1, 2)]], [[F(1, 2), 0], [0, 2]],
             [[0, -1], [1, 0]], [[2, 1], [1, 1]], [[1, -1], [-1, 2]]]


def word_sl2(rng, maxlen=12, bound=10 ** 5):
    """a product of up to `maxlen` random generators (integer / dyadic entries, determinant exactly one, exact in floating point);
    entries up to ~1e5 — the matrices that long words of a discrete group produce"""
    M = [[F(1), F(0)], [F(0), F(1)]]
    for _ in range(rng.randint(4, maxlen)):
        g = rng.choice(WORD_GENS)
        N = [[sum(M[i][k] * F(g[k][j]) for k in range(2)) for j in range(2)] for i in range(2)]
        if max(abs(x) for r in N for x in r) > bound:
            break
        M = N
    return M


def rmat2(rng, field, kind):
    """2x2 exact matrix: 'sl2' (det 1), 'zero' (det 1 with a vanishing entry), 'neg' (det -1), 'gl2' (any invertible)."""
    if kind == "sl2":
        return C.rzsl2(rng, field)
    if kind == "word":
        return [[Z(x) for x in r] for r in word_sl2(rng)]
    if kind == "locus":
        M = [[Z(x) for x in r] for r in special_sl2(rng)]
        if field == "QI" and rng.random() < 0.5:        # conjugate-type twist by diag(i, -i): still determinant one
            M = [[Z(0, 1) * M[0][0], Z(0, 1) * M[0][1]], [Z(0, -1) * M[1][0], Z(0, -1) * M[1][1]]]
        return M
    if kind == "zero":
        t = C.rz(rng, field, 4, 3, nonzero=True)
        u = C.rz(rng, field, 4, 3)
        return rng.choice([
            [[Z(0), t], [-t.inv(), u]], [[u, t], [-t.inv(), Z(0)]], [[t, Z(0)], [u, t.inv()]], [[t, u], [Z(0), t.inv()]],
            [[Z(0), Z(1)], [Z(-1), Z(0)]], [[Z(1), Z(0)], [Z(0), Z(1)]], [[Z(-1), Z(0)], [Z(0), Z(-1)]], [[t, Z(0)], [Z(0), t.inv()]]])
    if kind == "neg":
        M = C.rzsl2(rng, field)
        return [[M[0][0], M[0][1]], [-M[1][0], -M[1][1]]]
    return C.rzinv(rng, field, 2)


def so21_exact(A):
    a, b, c, d = A[0][0], A[0][1], A[1][0], A[1][1]
    h = F(1, 2)
    return [[(a * a + b * b + c * c + d * d) * h, (b * b + d * d - a * a - c * c) * h, a * b + c * d],
            [(c * c + d * d - a * a - b * b) * h, (a * a + d * d - b * b - c * c) * h, c * d - a * b],
            [a * c + b * d, b * d - a * c, a * d + b * c]]


# ------------------------------------------------------------------------------------------------
# 1. sl2_irrep correspondence (single matrices and arrays, ℚ and ℚ(i), n = 1..6)
# ------------------------------------------------------------------------------------------------
def gen_irrep(rng, n):
    for _ in range(n):
        dim = rng.choice([1, 2, 3, 3, 4, 4, 5, 5, 6, 6])
        field = rfield(rng)
        shape = rng.choice(SHAPES)
        cnt = int(np.prod(shape)) if shape else 1
        mats = [rmat2(rng, field, rng.choice(["sl2", "sl2", "zero", "gl2", "neg", "locus", "locus", "word"])) for _ in range(cnt)]
        yield {"n": dim, "field": field, "shape": shape, "A": C.enc(mats, field), "via_hom": rng.random() < 0.3}


def run_irrep(inp):
    A = C.dec(inp["A"], inp["field"]).reshape(tuple(inp["shape"]) + (2, 2))
    f = lie.hom.sl2_irrep(inp["n"]) if inp["via_hom"] else (lambda M: lie.sl2_irrep(M, inp["n"]))
    return {"R": tolist(f(A.copy()))}


def lean_irrep(inp, obs):
    return [{"op": "c17.irrep", "field": inp["field"], "n": inp["n"], "A": a} for a in inp["A"]]


def judge_irrep(inp, obs, lr):
    tags0 = {"field": inp["field"], "n": inp["n"], "array": len(inp["shape"]) > 0}
    if "exc" in obs:
        return {"expected": "sl2_irrep value", "observed": obs, "tags": dict(tags0, exc=obs["exc"]), "property_failure": True}
    n = inp["n"]
    if "object_dtype" in obs["R"]:
        return {"expected": "numeric array", "observed": "object dtype", "tags": dict(tags0, object_dtype=True)}
    R = toarr(obs["R"])
    if list(R.shape) != inp["shape"] + [n, n]:
        return {"expected": inp["shape"] + [n, n], "observed": list(R.shape), "tags": dict(tags0, site="shape"), "property_failure": True}
    R = R.reshape((-1, n, n))
    for u, r in enumerate(lr):
        if "err" in r:
            return {"expected": "model answer", "observed": r, "tags": dict(tags0, driver_err=r["err"])}
        m = C.dec(r["ok"], inp["field"])
        if not same(R[u], m, 1e-9):
            return {"expected": r["ok"], "observed": R[u].tolist(), "tags": dict(tags0, site="sl2_irrep", unit=u)}
    return None


# ------------------------------------------------------------------------------------------------
# 2. sl2_to_so21 / sl2_iso / o_to_pgl / to_sl2 correspondence (ℚ)
# ------------------------------------------------------------------------------------------------
def gen_so21(rng, n):
    for _ in range(n):
        shape = rng.choice(SHAPES)
        cnt = int(np.prod(shape)) if shape else 1
        kinds = [rng.choice(["sl2", "sl2", "zero", "zero", "neg", "locus", "locus", "locus", "word", "word"]) for _ in range(cnt)]
        mats = [rmat2(rng, "Q", k) for k in kinds]
        yield {"field": "Q", "shape": shape, "A": C.enc(mats, "Q"), "kinds": kinds}


def run_so21(inp):
    A = C.dec(inp["A"], "Q").reshape(tuple(inp["shape"]) + (2, 2))
    S = lie.sl2_to_so21(A.copy())
    iso = H.sl2_iso(A.copy())
    out = {"S": tolist(S), "iso": tolist(np.swapaxes(np.asarray(iso.proj_data), -1, -2)),
           "iso_list": tolist(np.swapaxes(np.asarray(H.sl2_iso(A.tolist()).proj_data), -1, -2))}
    # o_to_pgl is documented for arrays of shape (..., 3, 3): single matrices and arrays alike
    out["pgl"] = tolist(lie.o_to_pgl(np.asarray(S)))
    out["to_sl2"] = tolist(iso.to_sl2())
    out["hom_pgl"] = tolist(lie.hom.so21_to_sl2()(np.asarray(S)))
    return out


def lean_so21(inp, obs):
    ops = [{"op": "c17.so21", "A": a} for a in inp["A"]]
    for a in inp["A"]:
        A = [[F(x) for x in r] for r in a]
        ops.append({"op": "c17.o_to_pgl", "S": Q.enc(so21_exact(A))})
    return ops


def pm_same(py, model, tol=1e-6):
    # o_to_pgl takes square roots of the entries of A_d: an entry that is exactly 0 comes back as
    # sqrt(rounding noise) ~ 1e-8, so these comparisons are made at 1e-6 (DESIGN §3, root singularity)
    return same(py, model, tol) or same(py, -np.asarray(model), tol)


def judge_so21(inp, obs, lr):
    zero_entry = any(F(x) == 0 for a in inp["A"] for r in a for x in r)
    tags0 = {"array": len(inp["shape"]) > 0, "zero_entry": zero_entry}
    if "exc" in obs:
        return {"expected": "sl2_to_so21 / o_to_pgl values", "observed": obs, "tags": dict(tags0, exc=obs["exc"]), "property_failure": True}
    cnt = len(inp["A"])
    for k in ("S", "iso", "iso_list"):
        if "object_dtype" in obs[k]:
            return {"expected": "numeric array", "observed": "object dtype", "tags": dict(tags0, site=k, object_dtype=True)}
        S = toarr(obs[k])
        if list(S.shape) != inp["shape"] + [3, 3]:
            return {"expected": inp["shape"] + [3, 3], "observed": list(S.shape), "tags": dict(tags0, site=k + "_shape"), "property_failure": True}
        S = S.reshape((-1, 3, 3))
        for u in range(cnt):
            r = lr[u]
            if "err" in r:
                return {"expected": "model answer", "observed": r, "tags": dict(tags0, driver_err=r["err"])}
            if not same(S[u], Q.decf(r["ok"])):
                return {"expected": r["ok"], "observed": S[u].tolist(), "tags": dict(tags0, site=k, unit=u)}
    for k in ("pgl", "to_sl2", "hom_pgl"):
        if "object_dtype" in obs[k] or list(toarr(obs[k]).shape) != inp["shape"] + [2, 2]:
            return {"expected": inp["shape"] + [2, 2], "observed": obs[k] if "object_dtype" in obs[k] else list(toarr(obs[k]).shape),
                    "tags": dict(tags0, site=k + "_shape"), "property_failure": True}
    for u in range(cnt):
        r = lr[cnt + u]
        if "err" in r:
            return {"expected": "model answer", "observed": r, "tags": dict(tags0, driver_err=r["err"])}
        mA = Q.decf(r["ok"]["A"])
        A = C.dec(inp["A"], "Q")[u]
        for k in ("pgl", "to_sl2", "hom_pgl"):
            got = toarr(obs[k]).reshape((-1, 2, 2))[u]
            if not pm_same(got, mA):
                # model (repaired extraction) and implementation disagree: is the property itself violated?
                viol = not pm_same(got, A)
                pap = pm_same(got, np.array([[A[1, 1], A[1, 0]], [A[0, 1], A[0, 0]]]))
                return {"expected": {"model o_to_pgl": r["ok"]["A"]}, "observed": got.tolist(),
                        "tags": dict(tags0, site=k, returns_PAP=bool(pap), matches_pinned_model=bool(pm_same(got, Q.decf(r["ok"]["pinned"])))),
                        "property_failure": viol}
    return None


# ------------------------------------------------------------------------------------------------
# 2b. o_to_pgl(S, bilinear_form=B) correspondence: the general-form A_d (model oToPglAdForm / oToPglForm) with the pair
#     (W, Winv) that the public utils.diagonalize_form returns for B (a contract output; W·Winv = 1 checked exactly)
# ------------------------------------------------------------------------------------------------
def _fmul(X, Y):
    return [[sum((X[i][k] * Y[k][j] for k in range(len(Y))), F(0)) for j in range(len(Y[0]))] for i in range(len(X))]


def _pf_exact(inp):
    """the diagonal form B (negative direction at index p, square-norms q_i^2) and S = Pm^-1 so21(A) Pm with Pm^T J Pm = B"""
    p, q = inp["p"], [F(x) for x in inp["q"]]
    A = [[F(x) for x in r] for r in inp["A"]]
    cols = [p] + [i for i in range(3) if i != p]
    Pm = [[(q[j] if cols[i] == j else F(0)) for j in range(3)] for i in range(3)]
    Pi = [[(1 / q[i] if cols[j] == i else F(0)) for j in range(3)] for i in range(3)]
    B = [[((-1 if i == p else 1) * q[i] * q[i] if i == j else F(0)) for j in range(3)] for i in range(3)]
    return B, _fmul(_fmul(Pi, so21_exact(A)), Pm)


def gen_pglform_corr(rng, n):
    for _ in range(n):
        kind = rng.choice(["sl2", "sl2", "zero", "word", "locus"])
        yield {"p": rng.randrange(3), "q": [Q.qs(rng.choice([F(1), F(2), F(1, 2), F(4), F(1, 4)])) for _ in range(3)],
               "A": C.enc([rmat2(rng, "Q", kind)], "Q")[0], "kind": kind}


def run_pglform_corr(inp):
    from geometry_tools import utils
    B, S = _pf_exact(inp)
    Bf = np.array([[float(x) for x in r] for r in B])
    Sf = np.array([[float(x) for x in r] for r in S])
    W, Winv = utils.diagonalize_form(Bf.copy(), order_eigenvalues="minkowski", reverse=True, with_inverse=True)
    return {"W": np.asarray(W, dtype=float).tolist(), "Winv": np.asarray(Winv, dtype=float).tolist(),
            "pgl": np.asarray(lie.o_to_pgl(Sf.copy(), bilinear_form=Bf.copy()), dtype=float).tolist()}


def lean_pglform_corr(inp, obs):
    if "exc" in obs:
        return []
    _, S = _pf_exact(inp)
    return [{"op": "c17.o_to_pgl_form", "S": Q.enc(S), "W": Q.enc(obs["W"]), "Winv": Q.enc(obs["Winv"])}]


def judge_pglform_corr(inp, obs, lr):
    tags0 = {"p": inp["p"], "kind": inp["kind"], "unit_form": all(F(x) == 1 for x in inp["q"])}
    if "exc" in obs:
        return {"expected": "o_to_pgl(S, bilinear_form=B)", "observed": obs, "tags": dict(tags0, exc=obs["exc"])}
    r = lr[0]
    if "err" in r:
        if r["err"] == "irrational-root":
            return None        # the pair (W, Winv) returned for B is not exactly rational: nothing to compare by value
        return {"expected": "model answer", "observed": r, "tags": dict(tags0, driver_err=r["err"])}
    if not r["ok"]["inverse"]:
        return None            # W·Winv = 1 only up to rounding: the exact model is not evaluated on this pair
    if not pm_same(np.array(obs["pgl"]), Q.decf(r["ok"]["A"])):
        return {"expected": {"model o_to_pgl(S, form)": r["ok"]["A"]}, "observed": obs["pgl"], "tags": dict(tags0, site="o_to_pgl_form")}
    return None


# ------------------------------------------------------------------------------------------------
# 3. adjoint representations and Killing form correspondence
# ------------------------------------------------------------------------------------------------
def gen_adj(rng, n):
    for _ in range(n):
        dim = rng.choice([1, 2, 2, 3, 3, 4, 5, 6])
        field = rfield(rng, 0.3)
        A = C.rzinv(rng, field, dim, 2, 2, F(1, 2))
        if rng.random() < 0.5:
            # determinant one: rescale the first row
            d = C.zdet(A)
            A[0] = [x / d for x in A[0]]
        yield {"n": dim, "field": field, "A": C.enc(A, field), "Ai": C.enc(C.zinv(A), field),
               "pass_inv": rng.random() < 0.5, "via_hom": rng.random() < 0.3}


def run_adj(inp):
    f, n = inp["field"], inp["n"]
    A = C.dec(inp["A"], f)
    Ai = C.dec(inp["Ai"], f)
    kw = {"inv": Ai.copy()} if inp["pass_inv"] else {}
    if inp["via_hom"]:
        g = lie.hom.gln_adjoint()(A.copy(), **kw)
        s = lie.hom.sln_adjoint()(A.copy(), **kw)
    else:
        g = lie.gln_adjoint(A.copy(), **kw)
        s = lie.sln_adjoint(A.copy(), **kw)
    return {"gln": tolist(g), "sln": tolist(s), "killing": tolist(lie.sln_killing_form(n))}


def lean_adj(inp, obs):
    f, n = inp["field"], inp["n"]
    return [{"op": "c17.gln_adj", "field": f, "n": n, "A": inp["A"], "Ai": inp["Ai"]},
            {"op": "c17.sln_adj", "field": f, "n": n, "A": inp["A"], "Ai": inp["Ai"]},
            {"op": "c17.killing", "n": n}]


def judge_adj(inp, obs, lr):
    f, n = inp["field"], inp["n"]
    tags0 = {"field": f, "n": n, "via_hom": inp["via_hom"], "pass_inv": inp["pass_inv"]}
    if "exc" in obs:
        return {"expected": "adjoint matrices", "observed": obs, "tags": dict(tags0, exc=obs["exc"]), "property_failure": True}
    for k, r, fld in (("gln", lr[0], f), ("sln", lr[1], f), ("killing", lr[2], "Q")):
        if "err" in r:
            return {"expected": "model answer", "observed": r, "tags": dict(tags0, driver_err=r["err"])}
        if "object_dtype" in obs[k]:
            return {"expected": "numeric array", "observed": "object dtype", "tags": dict(tags0, site=k, object_dtype=True),
                    "property_failure": True}
        m = C.dec(r["ok"], fld)
        if m.size == 0:             # sl(1): 0x0 matrices on both sides
            if toarr(obs[k]).size != 0:
                return {"expected": "a 0x0 matrix", "observed": toarr(obs[k]).tolist(), "tags": dict(tags0, site=k)}
            continue
        if k == "killing":
            # the invariant form is determined up to a non-zero factor (trace form vs. the Killing form proper, 2n·trace)
            got = toarr(obs[k]).astype(complex)
            nz = np.abs(m) > 0
            fac = got[nz][0] / m[nz][0] if got.shape == m.shape and nz.any() else 0
            if fac == 0 or not same(got, fac * m, 1e-8):
                return {"expected": r["ok"], "observed": toarr(obs[k]).tolist(), "tags": dict(tags0, site=k)}
            continue
        if not same(toarr(obs[k]), m, 1e-8):
            return {"expected": r["ok"], "observed": toarr(obs[k]).tolist(), "tags": dict(tags0, site=k)}
    return None


# ------------------------------------------------------------------------------------------------
# 4. slc_to_slr, block_include, sl2c_to_so31 correspondence
# ------------------------------------------------------------------------------------------------
def gen_blocks(rng, n):
    for _ in range(n):
        dim = rng.choice([1, 2, 2, 3, 4, 5, 6])
        shape = rng.choice(SHAPES)
        cnt = int(np.prod(shape)) if shape else 1
        Zs = [C.rzinv(rng, "QI", dim, 3, 2, F(1, 4)) for _ in range(cnt)]
        if rng.random() < 0.35:
            # deviation from the real (or purely imaginary) locus of size 10^-6..10^-14: nearly real complex matrices
            eps = F(10) ** (-rng.randint(6, 14))
            tiny_re = rng.random() < 0.25
            Zs = [[[Z(z.re * eps, z.im) if tiny_re else Z(z.re, z.im * eps) for z in row] for row in M] for M in Zs]
            if rng.random() < 0.5 and not tiny_re:          # a single tiny imaginary entry in a unipotent matrix
                Zs[0] = [[Z(1 if i == j else 0, eps if (i, j) == (0, dim - 1) else 0) for j in range(dim)] for i in range(dim)]
        field = rfield(rng)
        Bs = [C.rzinv(rng, field, dim, 3, 2, F(1, 4)) for _ in range(cnt)]
        yield {"n": dim, "shape": shape, "Z": C.enc(Zs, "QI"), "field": field, "B": C.enc(Bs, field),
               "dim": dim + rng.choice([0, 1, 2, 3]), "via_hom": rng.random() < 0.3}


def run_blocks(inp):
    n = inp["n"]
    Zm = C.dec(inp["Z"], "QI").reshape(tuple(inp["shape"]) + (n, n))
    B = C.dec(inp["B"], inp["field"]).reshape(tuple(inp["shape"]) + (n, n))
    if inp["via_hom"]:
        return {"slr": tolist(lie.hom.slc_to_slr()(Zm.copy())), "blk": tolist(lie.hom.block_include(inp["dim"])(B.copy()))}
    return {"slr": tolist(lie.slc_to_slr(Zm.copy())), "blk": tolist(lie.block_include(B.copy(), inp["dim"]))}


def lean_blocks(inp, obs):
    ops = [{"op": "c17.realify", "n": inp["n"], "Z": z} for z in inp["Z"]]
    ops += [{"op": "c17.block", "field": inp["field"], "n": inp["n"], "dim": inp["dim"], "A": b} for b in inp["B"]]
    return ops


def judge_blocks(inp, obs, lr):
    n, cnt = inp["n"], len(inp["Z"])
    tags0 = {"n": n, "array": len(inp["shape"]) > 0, "field": inp["field"]}
    if "exc" in obs:
        return {"expected": "block matrices", "observed": obs, "tags": dict(tags0, exc=obs["exc"]), "property_failure": True}
    slr, blk = toarr(obs["slr"]), toarr(obs["blk"])
    if list(slr.shape) != inp["shape"] + [2 * n, 2 * n] or list(blk.shape) != inp["shape"] + [inp["dim"], inp["dim"]]:
        return {"expected": "shapes (..., 2n, 2n) and (..., dim, dim)", "observed": [list(slr.shape), list(blk.shape)],
                "tags": dict(tags0, site="shape"), "property_failure": True}
    if np.max(np.abs(slr.imag)) != 0 if np.iscomplexobj(slr) else False:
        return {"expected": "real matrix", "observed": "non-zero imaginary part", "tags": dict(tags0, site="slr_imag")}
    slr = slr.reshape((-1, 2 * n, 2 * n))
    blk = blk.reshape((-1, inp["dim"], inp["dim"]))
    for u in range(cnt):
        r1, r2 = lr[u], lr[cnt + u]
        for r in (r1, r2):
            if "err" in r:
                return {"expected": "model answer", "observed": r, "tags": dict(tags0, driver_err=r["err"])}
        mslr = Q.decf(r1["ok"])
        # each of the four blocks (Re, -Im, Im, Re) is compared relative to ITS OWN size: an imaginary part of size 1e-12 is data
        for bi in range(2):
            for bj in range(2):
                gb = slr[u].real[bi * n:(bi + 1) * n, bj * n:(bj + 1) * n]
                mb = mslr[bi * n:(bi + 1) * n, bj * n:(bj + 1) * n]
                sc = float(np.max(np.abs(mb)))
                if float(np.max(np.abs(gb - mb))) > 1e-9 * sc:
                    return {"expected": r1["ok"], "observed": slr[u].real.tolist(),
                            "tags": dict(tags0, site="slc_to_slr", unit=u, block=[bi, bj], block_size=sc), "property_failure": True}
        if not same(blk[u], C.dec(r2["ok"], inp["field"])):
            return {"expected": r2["ok"], "observed": blk[u].tolist(), "tags": dict(tags0, site="block_include", unit=u)}
    return None


def gen_so31(rng, n):
    for _ in range(n):
        kind = rng.choice(["sl2", "sl2", "zero", "gl2", "real", "locus", "locus", "word", "near_identity", "near_identity"])
        if kind == "near_identity":
            # unipotent / boost / rotation-like elements with parameter 10^-6..10^-14 (exact determinant one)
            eps = F(10) ** (-rng.randint(6, 14)) * rng.choice([1, -1, 3])
            w = Z(eps, 0) if rng.random() < 0.5 else Z(eps, 2 * eps)
            M = rng.choice([[[Z(1), w], [Z(0), Z(1)]], [[Z(1), Z(0)], [w, Z(1)]],
                            [[Z(1) + w, w], [Z(0) - w, Z(1) - w]],                 # (1+w)(1-w) + w^2 = 1
                            [[Z(-1), w], [Z(0), Z(-1)]]])
        else:
            M = rmat2(rng, "Q" if kind == "real" else "QI", "sl2" if kind == "real" else kind)
        yield {"kind": kind, "M": C.enc(M, "QI"), "via_hom": rng.random() < 0.3}


def run_so31(inp):
    M = C.dec(inp["M"], "QI")
    S = lie.hom.sl2c_to_so31()(M.copy()) if inp["via_hom"] else lie.sl2c_to_so31(M.copy())
    return {"S": tolist(S), "herm_unreal": tolist(lie.sl2c_herm_action(M.copy(), force_real=False))}


def lean_so31(inp, obs):
    return [{"op": "c17.so31", "M": inp["M"]}]


def judge_so31(inp, obs, lr):
    tags0 = {"kind": inp["kind"], "via_hom": inp["via_hom"]}
    if "exc" in obs:
        return {"expected": "sl2c_to_so31 value", "observed": obs, "tags": dict(tags0, exc=obs["exc"]), "property_failure": True}
    r = lr[0]
    if "err" in r:
        return {"expected": "model answer", "observed": r, "tags": dict(tags0, driver_err=r["err"])}
    if F(r["ok"]["dropped_imag"]) != 0:
        return {"expected": "model Hermitian action real", "observed": r["ok"]["dropped_imag"], "tags": dict(tags0, site="model_imag")}
    S = toarr(obs["S"])
    if np.iscomplexobj(S) and np.max(np.abs(S.imag)) > 1e-12:
        return {"expected": "real matrix", "observed": float(np.max(np.abs(S.imag))), "tags": dict(tags0, site="imag")}
    mS = Q.decf(r["ok"]["S"])
    if not same(S.real, mS):
        return {"expected": r["ok"]["S"], "observed": S.tolist(), "tags": dict(tags0, site="sl2c_to_so31")}
    if inp["kind"] == "near_identity":
        # the deviation from the identity IS the information: compare S - 1 relative to its own size (the clean tree gets it to
        # ~1e-16 absolute; a deviation of 1e-13 must not be rounded away)
        dev_m, dev_p = mS - np.eye(4), S.real - np.eye(4)
        sc = float(np.max(np.abs(dev_m)))
        if sc > 0 and float(np.max(np.abs(dev_p - dev_m))) > 1e-2 * sc + 4e-16:
            return {"expected": {"S - 1": dev_m.tolist()}, "observed": {"S - 1": dev_p.tolist()},
                    "tags": dict(tags0, site="near_identity", deviation=sc), "property_failure": True}
    Hc = toarr(obs["herm_unreal"])
    if np.max(np.abs(Hc.imag)) > 1e-9 * (1 + np.max(np.abs(Hc))):
        return {"expected": "utils.real drops a zero imaginary part", "observed": float(np.max(np.abs(Hc.imag))),
                "tags": dict(tags0, site="herm_imag"), "property_failure": True}
    return None


# ------------------------------------------------------------------------------------------------
# oracles (float / complex inputs)
# ------------------------------------------------------------------------------------------------
def fsl2(rng, cplx, kind="sl2"):
    if kind == "word":
        M = np.array([[float(x) for x in r] for r in word_sl2(rng)])
        return M.astype(complex) if cplx else M
    if kind == "fword":
        # a long word in NON-exact generators (boosts, rotations, parabolics): entries up to ~1e5 and determinant 1 only up to
        # the rounding of the products (|det - 1| ~ 1e-16·|entries|^2) — a perfectly valid element of SL(2,R) for every map
        target = 10.0 ** rng.uniform(2.5, 5.0)
        M = np.eye(2)
        for _ in range(40):
            t, th = rng.uniform(0.8, 2.2), rng.uniform(0, 2 * math.pi)
            co, si = math.cos(th), math.sin(th)
            Rm = np.array([[co, -si], [si, co]])
            g = rng.choice([Rm @ np.array([[math.cosh(t), math.sinh(t)], [math.sinh(t), math.cosh(t)]]) @ Rm.T,
                            np.array([[1.0, t], [0.0, 1.0]]), np.array([[1.0, 0.0], [-t, 1.0]]), Rm])
            N = M @ g
            if np.max(np.abs(N)) > 1e5:
                break
            M = N
            if np.max(np.abs(M)) > target:
                break
        return M.astype(complex) if cplx else M
    if kind in ("locus", "locus_neg"):
        M = np.array([[float(x) for x in r] for r in special_sl2(rng)])
        if kind == "locus_neg":
            M[1] = -M[1]
        if cplx:
            M = M.astype(complex)
            if rng.random() < 0.5:
                M = np.diag([1j, -1j]) @ M
        return M
    while True:
        if cplx:
            M = np.array([[complex(rng.gauss(0, 1), rng.gauss(0, 1)) for _ in range(2)] for _ in range(2)])
        else:
            M = np.array([[rng.gauss(0, 1) for _ in range(2)] for _ in range(2)])
        if kind == "zero":
            i, j = rng.randrange(2), rng.randrange(2)
            M[i, j] = 0
        d = np.linalg.det(M)
        if abs(d) < 0.2 or np.max(np.abs(M)) > 3:
            continue
        if cplx:
            return M / np.sqrt(d)
        if kind == "neg":
            M = M / math.sqrt(abs(d))
            if np.linalg.det(M) > 0:
                M[1] = -M[1]
            return M
        if d < 0:
            M[1] = -M[1]
        return M / math.sqrt(abs(d))


def fgl(rng, n, cplx):
    while True:
        M = np.array([[complex(rng.gauss(0, 1), rng.gauss(0, 1)) if cplx else rng.gauss(0, 1) for _ in range(n)] for _ in range(n)])
        if np.linalg.cond(M) < 30:
            return M


def enc_c(a):
    return tolist(a)


MAPS = ["irrep", "so21", "gln", "sln", "slr", "blk", "so31", "hom_irrep", "hom_so21", "hom_gln", "hom_sln", "hom_slr", "hom_blk", "hom_so31"]


def map_fn(name, param):
    base = name[4:] if name.startswith("hom_") else name
    hom = name.startswith("hom_")
    if base == "irrep":
        return lie.hom.sl2_irrep(param) if hom else (lambda M: lie.sl2_irrep(M, param))
    if base == "so21":
        return lie.hom.sl2_to_so21() if hom else lie.sl2_to_so21
    if base == "gln":
        return lie.hom.gln_adjoint() if hom else lie.gln_adjoint
    if base == "sln":
        return lie.hom.sln_adjoint() if hom else lie.sln_adjoint
    if base == "slr":
        return lie.hom.slc_to_slr() if hom else lie.slc_to_slr
    if base == "blk":
        return lie.hom.block_include(param) if hom else (lambda M: lie.block_include(M, param))
    if base == "so31":
        return lie.hom.sl2c_to_so31() if hom else lie.sl2c_to_so31
    raise ValueError(name)


VECTORISED = {"irrep", "so21", "slr", "blk"}     # documented `(..., k, k)` inputs


def gen_hom(rng, n):
    for _ in range(n):
        name = rng.choice(MAPS)
        base = name[4:] if name.startswith("hom_") else name
        shape = rng.choice([[], [], [2], [3], [2, 2], [1, 2]])
        cnt = int(np.prod(shape)) if shape else 1
        param = None
        if base == "irrep":
            param = rng.choice([1, 2, 3, 4, 5, 6])
            k, cplx = 2, rng.random() < 0.4
            mk = lambda: fsl2(rng, cplx, rng.choice(["sl2", "zero", "locus", "word", "fword"]))
        elif base == "so21":
            k, cplx = 2, False
            mk = lambda: fsl2(rng, False, rng.choice(["sl2", "zero", "neg", "locus", "locus_neg", "word", "fword", "fword"]))
        elif base == "so31":
            k, cplx = 2, True
            mk = lambda: fsl2(rng, True, rng.choice(["sl2", "zero", "locus", "word", "fword"]))
        elif base in ("gln", "sln"):
            k, cplx = rng.choice([1, 2, 3, 4, 5, 6]), rng.random() < 0.3
            if base == "sln" and k == 1 and shape:
                shape, cnt = [], 1      # sl(1) is 0-dimensional: a stack of 0x0 matrices carries no composite axis to compare
            mk = lambda: fgl(rng, k, cplx)
        elif base == "slr":
            k, cplx = rng.choice([1, 2, 3, 4, 5, 6]), True
            mk = lambda: fgl(rng, k, True)
        else:
            k, cplx = rng.choice([1, 2, 3, 4, 5]), rng.random() < 0.3
            param = k + rng.choice([0, 1, 2])
            mk = lambda: fgl(rng, k, cplx)
        A = np.array([mk() for _ in range(cnt)]).reshape(tuple(shape) + (k, k))
        B = np.array([mk() for _ in range(cnt)]).reshape(tuple(shape) + (k, k))
        yield {"map": name, "param": param, "k": k, "shape": shape, "A": enc_c(A), "B": enc_c(B)}


def _amax(x):
    x = np.asarray(x)
    return float(np.max(np.abs(x))) if x.size else 0.0


def run_hom(inp):
    f = map_fn(inp["map"], inp["param"])
    A, B = toarr(inp["A"]), toarr(inp["B"])
    k = inp["k"]
    I = np.broadcast_to(np.eye(k, dtype=A.dtype), A.shape).copy()
    fa, fb, fab, fi = f(A.copy()), f(B.copy()), f(A @ B), f(I)
    fa, fb, fab, fi = (np.asarray(x) for x in (fa, fb, fab, fi))
    if fa.dtype == object:
        return {"object_dtype": True}
    m = fa.shape[-1]
    sc = 1 + float(_amax(fa)) * float(_amax(fb))
    out = {"shape": list(fa.shape), "m": m,
           "hom": float(_amax(fab - fa @ fb) / sc),
           "one": float(_amax(fi - np.eye(m))),
           "scale": sc}
    # unit by unit = array call
    if inp["shape"]:
        Af = A.reshape((-1, k, k))
        per = np.array([np.asarray(f(Af[u].copy())) for u in range(Af.shape[0])]).reshape(fa.shape)
        out["per_unit"] = float(_amax(per - fa) / (1 + _amax(fa)))
    return out


def judge_hom(inp, obs, lr):
    base = inp["map"][4:] if inp["map"].startswith("hom_") else inp["map"]
    arr_in = len(inp["shape"]) > 0
    tags0 = {"map": base, "via_hom": inp["map"].startswith("hom_"), "array": arr_in, "cplx": inp["A"]["cplx"]}
    if "exc" in obs:
        return {"expected": "a homomorphism value", "observed": obs, "tags": dict(tags0, exc=obs["exc"])}
    if obs.get("object_dtype"):
        return {"expected": "numeric array", "observed": "object dtype", "tags": dict(tags0, object_dtype=True)}
    if obs["shape"][:-2] != inp["shape"]:
        return {"expected": inp["shape"] + ["m", "m"], "observed": obs["shape"], "tags": dict(tags0, site="shape")}
    tol = 1e-9 if base not in ("gln", "sln") else 1e-8
    if not (obs["hom"] <= tol):
        return {"expected": "f(A·B) = f(A)·f(B)", "observed": obs, "tags": dict(tags0, site="product")}
    if not (obs["one"] <= 1e-12):
        return {"expected": "f(1) = 1", "observed": obs, "tags": dict(tags0, site="identity")}
    if "per_unit" in obs and not (obs["per_unit"] <= 1e-12):
        return {"expected": "array call = unit-by-unit calls", "observed": obs, "tags": dict(tags0, site="per_unit")}
    return None


def gen_struct(rng, n):
    for _ in range(n):
        what = rng.choice(["irrep_det", "so21", "so31", "killing", "realify", "block"])
        if what == "irrep_det":
            A = fsl2(rng, rng.random() < 0.4, rng.choice(["sl2", "zero", "locus"]))
            yield {"what": what, "n": rng.choice([1, 2, 3, 4, 5, 6]), "A": enc_c(A)}
        elif what == "so21":
            yield {"what": what, "A": enc_c(fsl2(rng, False, rng.choice(["sl2", "zero", "neg", "locus", "locus_neg"])))}
        elif what == "so31":
            yield {"what": what, "A": enc_c(fsl2(rng, True, rng.choice(["sl2", "zero", "locus"])))}
        elif what == "killing":
            k = rng.choice([2, 3, 4, 5])
            A = fgl(rng, k, False)
            yield {"what": what, "n": k, "A": enc_c(A)}
        elif what == "realify":
            k = rng.choice([1, 2, 3, 4])
            yield {"what": what, "n": k, "A": enc_c(fgl(rng, k, True))}
        else:
            k = rng.choice([1, 2, 3, 4])
            yield {"what": what, "n": k, "dim": k + rng.choice([0, 1, 3]), "A": enc_c(fgl(rng, k, rng.random() < 0.3))}


def run_struct(inp):
    A = toarr(inp["A"])
    w = inp["what"]
    if w == "irrep_det":
        R = lie.sl2_irrep(A, inp["n"])
        return {"det_err": float(abs(np.linalg.det(R) - 1)), "scale": float(1 + np.max(np.abs(R)) ** inp["n"])}
    if w == "so21":
        S = np.asarray(lie.sl2_to_so21(A))
        J = np.diag([-1.0, 1, 1])
        return {"form": float(np.max(np.abs(S.T @ J @ S - J))), "form2": float(np.max(np.abs(S @ J @ S.T - J))),
                "det": float(np.linalg.det(S)), "detA": float(np.linalg.det(A)), "scale": float(1 + np.max(np.abs(S)) ** 2),
                "iso_ok": bool(np.max(np.abs(np.asarray(H.sl2_iso(A).proj_data).T - S)) < 1e-12)}
    if w == "so31":
        S = np.asarray(lie.sl2c_to_so31(A))
        J = np.diag([-1.0, 1, 1, 1])
        return {"imag": float(np.max(np.abs(S.imag))) if np.iscomplexobj(S) else 0.0,
                "form": float(np.max(np.abs(S.real.T @ J @ S.real - J))), "det": float(np.linalg.det(S.real)),
                "scale": float(1 + np.max(np.abs(S)) ** 2), "time_pos": bool(S.real[0, 0] > 0)}
    if w == "killing":
        Ad = np.asarray(lie.sln_adjoint(A))
        kf = np.asarray(lie.sln_killing_form(inp["n"]))
        G = np.asarray(lie.gln_adjoint(A))
        n = inp["n"]
        # trace form of gl(n) in the elementary basis: tau[(i,j),(k,l)] = δ_jk δ_il
        tau = np.zeros((n * n, n * n))
        for i in range(n):
            for j in range(n):
                tau[i * n + j, j * n + i] = 1
        return {"sln": float(np.max(np.abs(Ad.T @ kf @ Ad - kf)) / max(1.0, float(np.max(np.abs(kf))))), "gln": float(np.max(np.abs(G.T @ tau @ G - tau))),
                "scale": float(1 + np.max(np.abs(Ad)) ** 2), "sym": float(np.max(np.abs(kf - kf.T)))}
    if w == "realify":
        Rm = np.asarray(lie.slc_to_slr(A))
        n = inp["n"]
        v = np.array([complex(i + 1, -i) for i in range(n)])
        lhs = A @ v
        rhs = Rm.real @ np.concatenate([v.real, v.imag])
        return {"acts": float(np.max(np.abs(np.concatenate([lhs.real, lhs.imag]) - rhs))),
                "det": float(abs(np.linalg.det(Rm.real) - abs(np.linalg.det(A)) ** 2)), "scale": float(1 + np.max(np.abs(A)) ** (2 * n))}
    Bm = np.asarray(lie.block_include(A, inp["dim"]))
    k = inp["n"]
    ok = (np.max(np.abs(Bm[:k, :k] - A)) == 0 and np.max(np.abs(Bm[k:, k:] - np.eye(inp["dim"] - k))) == 0
          and np.max(np.abs(Bm[:k, k:])) == 0 and np.max(np.abs(Bm[k:, :k])) == 0) if inp["dim"] > k else bool(np.max(np.abs(Bm - A)) == 0)
    return {"block_ok": bool(ok)}


def judge_struct(inp, obs, lr):
    w = inp["what"]
    tags0 = {"what": w}
    if "exc" in obs:
        return {"expected": "structure preserved", "observed": obs, "tags": dict(tags0, exc=obs["exc"])}
    if w == "irrep_det" and not obs["det_err"] <= 1e-9 * obs["scale"]:
        return {"expected": "det sl2_irrep(A) = 1", "observed": obs, "tags": tags0}
    if w == "so21":
        if not (obs["form"] <= 1e-9 * obs["scale"] and obs["form2"] <= 1e-9 * obs["scale"]):
            return {"expected": "diag(-1,1,1) preserved", "observed": obs, "tags": dict(tags0, site="form")}
        if not abs(obs["det"] - obs["detA"]) <= 1e-8 * obs["scale"]:
            return {"expected": "det = det(A)^3 = ±1", "observed": obs, "tags": dict(tags0, site="det")}
        if not obs["iso_ok"]:
            return {"expected": "sl2_iso(A) stores sl2_to_so21(A) as a column matrix", "observed": obs, "tags": dict(tags0, site="sl2_iso")}
    if w == "so31":
        if not (obs["imag"] <= 1e-12 and obs["form"] <= 1e-9 * obs["scale"]):
            return {"expected": "real matrix preserving diag(-1,1,1,1)", "observed": obs, "tags": dict(tags0, site="form")}
        if not (abs(obs["det"] - 1) <= 1e-8 * obs["scale"] ** 2 and obs["time_pos"]):
            return {"expected": "det = 1, time-orientation preserved (SO⁺(3,1))", "observed": obs, "tags": dict(tags0, site="det")}
    if w == "killing":
        if not (obs["sln"] <= 1e-8 * obs["scale"] and obs["gln"] <= 1e-8 * obs["scale"] and obs["sym"] == 0):
            return {"expected": "Ad(g)ᵀ κ Ad(g) = κ", "observed": obs, "tags": tags0}
    if w == "realify" and not (obs["acts"] <= 1e-10 * obs["scale"] and obs["det"] <= 1e-8 * obs["scale"]):
        return {"expected": "real block form acts as the complex matrix on (Re v, Im v); det = |det|^2", "observed": obs, "tags": tags0}
    if w == "block" and not obs["block_ok"]:
        return {"expected": "A in the corner, identity elsewhere", "observed": obs, "tags": tags0}
    return None


def gen_pgl(rng, n):
    for _ in range(n):
        kind = rng.choice(["sl2", "sl2", "zero", "zero", "exactzero", "neg", "locus", "locus", "locus", "locus_neg", "word", "fword", "fword"])
        if kind == "exactzero":
            t = math.exp(rng.uniform(-1.5, 1.5)) * rng.choice([-1, 1])
            u = rng.gauss(0, 1)
            A = np.array(rng.choice([
                [[0.0, t], [-1 / t, u]], [[u, t], [-1 / t, 0.0]], [[t, 0.0], [u, 1 / t]], [[t, u], [0.0, 1 / t]],
                [[0.0, 1.0], [-1.0, 0.0]], [[0.0, -1.0], [1.0, 0.0]], [[1.0, 0.0], [0.0, 1.0]], [[-1.0, 0.0], [0.0, -1.0]],
                [[t, 0.0], [0.0, 1 / t]], [[0.0, t], [-1 / t, 0.0]]]))
        else:
            A = fsl2(rng, False, kind)
        B = fsl2(rng, False, rng.choice(["sl2", "zero", "locus", "word", "fword"]))
        yield {"kind": kind, "A": enc_c(A), "B": enc_c(B)}


def run_pgl(inp):
    A, B = toarr(inp["A"]), toarr(inp["B"])
    SA, SB = np.asarray(lie.sl2_to_so21(A)), np.asarray(lie.sl2_to_so21(B))
    rA = np.asarray(lie.o_to_pgl(SA))
    rB = np.asarray(lie.o_to_pgl(SB))
    rAB = np.asarray(lie.o_to_pgl(SA @ SB))
    r2 = np.asarray(H.sl2_iso(A).to_sl2())
    r3 = np.asarray(H.Isometry.from_sl2(A).to_sl2())
    r4 = np.asarray(lie.hom.so21_to_sl2()(SA))
    # the other two components of O(2,1): -S
    rmA = np.asarray(lie.o_to_pgl(-SA))
    # bilinear_form=None: the argument is already in the Killing basis, i.e. it is sl2_irrep(A, 3)
    rN = np.asarray(lie.o_to_pgl(np.asarray(lie.sl2_irrep(A, 3)), bilinear_form=None))
    rS = np.asarray(lie.o_to_pgl(np.array([[SA, SB], [SA @ SB, -SA]])))          # an array of shape (2, 2, 3, 3)
    rIS = np.asarray(H.sl2_iso(np.array([A, B])).to_sl2())
    rmAB = np.asarray(lie.o_to_pgl((-SA) @ SB))
    return {"rA": rA.tolist(), "rB": rB.tolist(), "rAB": rAB.tolist(), "to_sl2": r2.tolist(),
            "rmA": rmA.tolist(), "rmAB": rmAB.tolist(), "rN": rN.tolist(),
            "from_to_sl2": r3.tolist(), "hom_so21_to_sl2": r4.tolist(),
            "stack": rS.tolist() if rS.shape == (2, 2, 2, 2) else list(rS.shape), "iso_stack": rIS.tolist() if rIS.shape == (2, 2, 2) else list(rIS.shape)}


def pm_err(X, Y):
    X, Y = np.asarray(X, dtype=float), np.asarray(Y, dtype=float)
    return float(min(np.max(np.abs(X - Y)), np.max(np.abs(X + Y))) / (1 + np.max(np.abs(Y))))


def judge_pgl(inp, obs, lr):
    A, B = toarr(inp["A"]), toarr(inp["B"])
    zero_entry = bool(np.any(A == 0))
    tags0 = {"zero_entry": zero_entry, "det": "neg" if inp["kind"] in ("neg", "locus_neg") else "pos", "locus": inp["kind"].startswith("locus")}
    if "exc" in obs:
        return {"expected": "o_to_pgl value", "observed": obs, "tags": dict(tags0, exc=obs["exc"])}
    PAP = np.array([[A[1, 1], A[1, 0]], [A[0, 1], A[0, 0]]])
    for k in ("rA", "to_sl2", "from_to_sl2", "hom_so21_to_sl2"):
        if not finite(obs[k]) or pm_err(obs[k], A) > 1e-6:
            return {"expected": {"±A": A.tolist()}, "observed": obs[k],
                    "tags": dict(tags0, site="recover_" + k, returns_PAP=bool(finite(obs[k]) and pm_err(obs[k], PAP) <= 1e-6))}
    if pm_err(obs["rAB"], np.array(obs["rA"]) @ np.array(obs["rB"])) > 1e-6:
        return {"expected": "o_to_pgl(S·T) = ± o_to_pgl(S)·o_to_pgl(T)", "observed": obs, "tags": dict(tags0, site="hom_up_to_sign")}
    want = [[A, B], [A @ B, A]]
    st = np.array(obs["stack"])
    if st.shape != (2, 2, 2, 2) or any(pm_err(st[i][j], want[i][j]) > 1e-6 for i in range(2) for j in range(2)):
        return {"expected": "o_to_pgl on an array of shape (2,2,3,3): ±A, ±B, ±AB, ±A unit by unit", "observed": obs["stack"],
                "tags": dict(tags0, site="array")}
    ist = np.array(obs["iso_stack"])
    if ist.shape != (2, 2, 2) or pm_err(ist[0], A) > 1e-6 or pm_err(ist[1], B) > 1e-6:
        return {"expected": "sl2_iso(stack).to_sl2() = ±A, ±B unit by unit", "observed": obs["iso_stack"], "tags": dict(tags0, site="iso_array")}
    if not finite(obs["rN"]) or pm_err(obs["rN"], A) > 1e-6:
        return {"expected": {"o_to_pgl(sl2_irrep(A,3), bilinear_form=None) = ±A": A.tolist()}, "observed": obs["rN"],
                "tags": dict(tags0, site="form_none")}
    if not finite(obs["rmA"]) or pm_err(obs["rmA"], A) > 1e-6:
        return {"expected": {"o_to_pgl(-S) = ±A (O(2,1) → PGL(2) kills -1)": A.tolist()}, "observed": obs["rmA"],
                "tags": dict(tags0, site="minus_S")}
    if pm_err(obs["rmAB"], np.array(obs["rmA"]) @ np.array(obs["rB"])) > 1e-6:
        return {"expected": "o_to_pgl((-S)·T) = ± o_to_pgl(-S)·o_to_pgl(T)", "observed": obs, "tags": dict(tags0, site="hom_up_to_sign_minus")}
    return None


# ------------------------------------------------------------------------------------------------
# histories on lie.hom wrapper OBJECTS: one object, many calls, with / without the optional `inv`, any order
# ------------------------------------------------------------------------------------------------
HOM_FACTORIES = ["irrep", "so21", "so21_to_sl2", "gln", "sln", "slr", "blk", "so31"]


def hom_factory(name, param):
    return {"irrep": lambda: lie.hom.sl2_irrep(param), "so21": lie.hom.sl2_to_so21, "so21_to_sl2": lie.hom.so21_to_sl2,
            "gln": lie.hom.gln_adjoint, "sln": lie.hom.sln_adjoint, "slr": lie.hom.slc_to_slr,
            "blk": lambda: lie.hom.block_include(param), "so31": lie.hom.sl2c_to_so31}[name]()


def hom_reference(name, param, M):
    return {"irrep": lambda: lie.sl2_irrep(M, param), "so21": lambda: lie.sl2_to_so21(M), "so21_to_sl2": lambda: lie.o_to_pgl(M),
            "gln": lambda: lie.gln_adjoint(M), "sln": lambda: lie.sln_adjoint(M), "slr": lambda: lie.slc_to_slr(M),
            "blk": lambda: lie.block_include(M, param), "so31": lambda: lie.sl2c_to_so31(M)}[name]()


def gen_homhist(rng, n):
    for _ in range(n):
        name = rng.choice(HOM_FACTORIES)
        param = rng.choice([2, 3, 4, 5]) if name == "irrep" else None
        if name in ("irrep", "so21", "so21_to_sl2", "so31"):
            k = 2
            mk = lambda: fsl2(rng, name == "so31", rng.choice(["sl2", "zero", "locus", "word", "fword"]))
        else:
            k = rng.choice([2, 3, 4])
            cplx = name == "slr" or rng.random() < 0.3
            mk = lambda: fgl(rng, k, cplx)
        if name == "blk":
            param = k + rng.choice([0, 1, 2])
        calls = []
        for _ in range(rng.randint(3, 6)):
            calls.append({"M": enc_c(mk()), "inv": rng.choice(["none", "none", "keyword", "positional"])})
        yield {"factory": name, "param": param, "calls": calls}


def run_homhist(inp):
    name, param = inp["factory"], inp["param"]
    h = hom_factory(name, param)                 # ONE wrapper object for the whole history
    worst, where = 0.0, None
    for idx, c in enumerate(inp["calls"]):
        M = toarr(c["M"])
        X = np.asarray(lie.sl2_to_so21(M)) if name == "so21_to_sl2" else M
        if name == "so21_to_sl2":
            Jm = np.diag([-1.0, 1.0, 1.0])
            Xi = Jm @ X.T @ Jm          # the inverse of an element of O(2,1), without inverting an ill-conditioned matrix
        else:
            Xi = np.linalg.inv(X)
        if c["inv"] == "keyword":
            out = h(X.copy(), inv=Xi)
        elif c["inv"] == "positional":
            out = h(X.copy(), Xi)
        else:
            out = h(X.copy())
        ref = np.asarray(hom_reference(name, param, X.copy()))
        out = np.asarray(out)
        e = float("inf") if out.shape != ref.shape else float(np.max(np.abs(out - ref)) / (1 + np.max(np.abs(ref))))
        if not (e <= worst):
            worst, where = e, idx
    return {"worst": worst, "where": where, "pattern": [c["inv"] for c in inp["calls"]]}


def judge_homhist(inp, obs, lr):
    tags0 = {"factory": inp["factory"], "history": True}
    if "exc" in obs:
        return {"expected": "the value of a fresh call", "observed": obs, "tags": dict(tags0, exc=obs["exc"])}
    if not obs["worst"] <= 1e-8:
        return {"expected": "every call on a reused lie.hom object equals the stateless function on the same matrix "
                            "(whatever was passed as `inv` in earlier calls)", "observed": obs, "tags": dict(tags0, site="history")}
    return None


# ------------------------------------------------------------------------------------------------
# generic defences G2-G4: input/output isolation, cross-call independence, dtype order, extreme scales.
# Every call in a history is compared with an INDEPENDENT reference written here (not with another library call),
# so a poisoned module-level cache or an aliased array cannot hide on both sides.
# ------------------------------------------------------------------------------------------------
def _comb(n, k):
    return math.comb(n, k) if 0 <= k <= n else 0


def ref_irrep(A, n):
    a, b, c, d = A[0, 0], A[0, 1], A[1, 0], A[1, 1]
    r = n - 1
    out = np.zeros((n, n), dtype=np.result_type(A.dtype, float))
    for k in range(n):
        for j in range(n):
            for i in range(max(0, j - r + k), min(j, k) + 1):
                out[j, k] += _comb(k, i) * _comb(r - k, j - i) * a ** i * c ** (k - i) * b ** (j - i) * d ** (r - k - j + i)
    return out


def ref_so21(A):
    a, b, c, d = A[0, 0], A[0, 1], A[1, 0], A[1, 1]
    return np.array([[(a * a + b * b + c * c + d * d) / 2, (b * b + d * d - a * a - c * c) / 2, a * b + c * d],
                     [(c * c + d * d - a * a - b * b) / 2, (a * a + d * d - b * b - c * c) / 2, c * d - a * b],
                     [a * c + b * d, b * d - a * c, a * d + b * c]])


def ref_gln(A):
    return np.kron(A, np.linalg.inv(A).T)          # row-major vec: vec(A M B) = (A ⊗ Bᵀ) vec(M)


def ref_sln(A):
    n = A.shape[0]
    Ai = np.linalg.inv(A)
    idx = [(i, j) for i in range(n) for j in range(n)][:-1]
    out = np.zeros((n * n - 1, n * n - 1), dtype=np.result_type(A.dtype, float))
    for col, (i, j) in enumerate(idx):
        Bm = np.zeros((n, n), dtype=out.dtype)
        Bm[i, j] = 1
        if i == j:
            Bm[n - 1, n - 1] = -1
        out[:, col] = (A @ Bm @ Ai).reshape(-1)[:-1]
    return out


def ref_slr(Zm):
    return np.block([[Zm.real, -Zm.imag], [Zm.imag, Zm.real]])


def ref_blk(A, dim):
    k = A.shape[0]
    out = np.eye(dim, dtype=A.dtype)
    out[:k, :k] = A
    return out


def ref_so31(M):
    hb = [np.array([[1, 0], [0, 0]], dtype=complex), np.array([[0, 0], [0, 1]], dtype=complex),
          np.array([[0, 1], [1, 0]], dtype=complex), np.array([[0, 1j], [-1j, 0]])]
    Hm = np.zeros((4, 4))
    for j, h in enumerate(hb):
        X = M @ h @ M.conj().T
        Hm[:, j] = [X[0, 0].real, X[1, 1].real, X[0, 1].real, X[0, 1].imag]
    B2 = np.array([[1., -1, 0, 0], [1, 1, 0, 0], [0, 0, 1, 0], [0, 0, 0, 1]])
    return np.linalg.inv(B2) @ Hm @ B2


ISO_MAPS = ["irrep", "so21", "gln", "sln", "slr", "blk", "so31", "pgl", "hom_gln", "hom_sln", "hom_irrep"]


def iso_call(name, param, M):
    base = name[4:] if name.startswith("hom_") else name
    if name == "pgl":
        return lie.o_to_pgl(M)
    return map_fn(name, param)(M)


def iso_ref(name, param, M):
    base = name[4:] if name.startswith("hom_") else name
    M64 = M.astype(complex) if np.iscomplexobj(M) else M.astype(float)
    return {"irrep": lambda: ref_irrep(M64, param), "so21": lambda: ref_so21(M64), "gln": lambda: ref_gln(M64),
            "sln": lambda: ref_sln(M64), "slr": lambda: ref_slr(M64.astype(complex)), "blk": lambda: ref_blk(M64, param),
            "so31": lambda: ref_so31(M64.astype(complex))}[base]()


def gen_iso(rng, n):
    for _ in range(n):
        steps = []
        for _ in range(rng.randint(4, 8)):
            name = rng.choice(ISO_MAPS)
            base = name[4:] if name.startswith("hom_") else name
            dt = rng.choice(["float64", "float64", "complex128", "int64", "float32"])
            param = None
            if base in ("irrep", "so21", "so31", "pgl"):
                k = 2
                if base == "irrep":
                    param = rng.choice([2, 3, 4, 5])
                if base in ("so21", "pgl") and dt == "complex128":
                    dt = "float64"
                if base == "so31":
                    dt = rng.choice(["complex128", "float64", "int64"])
                if dt == "int64":
                    M = np.array(rng.choice([[[2, 3], [1, 2]], [[1, 1], [0, 1]], [[0, -1], [1, 0]], [[3, 2], [4, 3]], [[1, 0], [-2, 1]]]), dtype=float)
                else:
                    M = fsl2(rng, dt == "complex128", rng.choice(["sl2", "zero", "locus"]))
            else:
                k = rng.choice([2, 2, 3, 4])
                if base == "slr" and dt in ("int64", "float32"):
                    dt = "complex128"
                if dt == "int64":
                    while True:
                        M = np.array([[rng.randint(-3, 3) for _ in range(k)] for _ in range(k)], dtype=float)
                        if abs(np.linalg.det(M)) > 0.5:
                            break
                else:
                    M = fgl(rng, k, dt == "complex128")
                if base == "blk":
                    param = k + rng.choice([0, 1, 2])
            scale = None
            if base in ("gln", "sln", "irrep") and dt in ("float64", "complex128") and rng.random() < 0.3:
                scale = rng.choice([1e-100, 1e-8, 1e8, 1e100]) if base != "irrep" else rng.choice([1e-30, 1e-4, 1e4, 1e30])
            steps.append({"map": name, "param": param, "dtype": dt, "M": enc_c(M), "scale": scale,
                          "mutate": rng.choice(["zero", "add", "none"]), "view": rng.random() < 0.25})
        yield {"steps": steps}


def run_iso(inp):
    worst = {"value": 0.0, "input_changed": False, "after_mutation": 0.0, "scale": 0.0, "where": None}
    for idx, st in enumerate(inp["steps"]):
        name, param = st["map"], st["param"]
        base = name[4:] if name.startswith("hom_") else name
        M = toarr(st["M"]).astype(st["dtype"])
        if st["view"]:
            big = np.zeros((M.shape[0] + 2, M.shape[1] + 1), dtype=M.dtype)
            big[1:-1, 1:] = M
            M = big[1:-1, 1:]                           # a non-contiguous view of a larger array
        X = np.asarray(lie.sl2_to_so21(M.astype(float))) if name == "pgl" else M
        snap = X.copy()
        tol = 2e-4 if st["dtype"] == "float32" else 1e-8
        def err_vs_ref(out):
            out = np.asarray(out)
            if out.dtype == object:
                return float("inf")
            if name == "pgl":
                A = M.astype(float)
                return float(min(np.max(np.abs(out - A)), np.max(np.abs(out + A))) / (1 + np.max(np.abs(A)))) / 100   # sqrt singularity: 1e-6
            ref = iso_ref(name, param, snap)
            if out.shape != ref.shape:
                return float("inf")
            return float(np.max(np.abs(out - ref)) / (1 + np.max(np.abs(ref)))) * (1e-8 / tol)
        out = iso_call(name, param, X)
        e = err_vs_ref(out)
        if not e <= worst["value"]:
            worst["value"], worst["where"] = e, [idx, name, st["dtype"]]
        if not (X.shape == snap.shape and np.array_equal(X, snap)):
            worst["input_changed"], worst["where"] = True, [idx, name, st["dtype"]]
        # G2: mutate what the API returned, call again with the same input
        if st["mutate"] != "none" and isinstance(out, np.ndarray) and out.dtype != object:
            try:
                if st["mutate"] == "zero":
                    out[...] = 0
                else:
                    out += 1
            except (ValueError, TypeError):
                pass
            e2 = err_vs_ref(iso_call(name, param, X))
            if not e2 <= worst["after_mutation"]:
                worst["after_mutation"], worst["where"] = e2, [idx, name, st["dtype"], "after mutating the returned array"]
        # extreme scales: Ad(sA) = Ad(A), irrep(sA, n) = s^(n-1) irrep(A, n)
        if st["scale"] is not None:
            s_ = st["scale"]
            o1 = np.asarray(iso_call(name, param, X.copy()))
            o2 = np.asarray(iso_call(name, param, X * s_))
            if base == "irrep":
                o2 = o2 / s_ ** (param - 1)
            es = float(np.max(np.abs(o2 - o1)) / (1 + np.max(np.abs(o1)))) if np.all(np.isfinite(o2)) else float("inf")
            if not es <= worst["scale"]:
                worst["scale"], worst["where"] = es, [idx, name, st["dtype"], "scale %g" % s_]
    return worst


def judge_iso(inp, obs, lr):
    tags0 = {"history": True}
    if "exc" in obs:
        return {"expected": "every call of the history succeeds", "observed": obs, "tags": dict(tags0, exc=obs["exc"])}
    if obs["input_changed"]:
        return {"expected": "arrays passed in are left untouched", "observed": obs, "tags": dict(tags0, site="input_mutated")}
    if not obs["value"] <= 1e-8:
        return {"expected": "each call equals the independent reference whatever was called before (other maps, n, dtypes)",
                "observed": obs, "tags": dict(tags0, site="cross_call")}
    if not obs["after_mutation"] <= 1e-8:
        return {"expected": "mutating a returned array does not change later results", "observed": obs, "tags": dict(tags0, site="output_aliased")}
    if not obs["scale"] <= 1e-8:
        return {"expected": "Ad(sA) = Ad(A), irrep(sA) = s^(n-1) irrep(A) for extreme s", "observed": obs, "tags": dict(tags0, site="scale")}
    return None


# ------------------------------------------------------------------------------------------------
# Isometry objects with a history (sl2_iso / from_sl2, products, inverses, set(), item assignment, copies): to_sl2 of the
# object must be ± the matrix the harness tracked and ± to_sl2 of a FRESH Isometry built from the object's current data
# ------------------------------------------------------------------------------------------------
from copy import copy as _shallow


def gen_isohist(rng, n):
    for _ in range(n):
        steps = []
        for _ in range(rng.randint(2, 6)):
            steps.append({"op": rng.choice(["mul_right", "mul_left", "inv", "set", "setitem", "copy_then_set", "query"]),
                          "M": enc_c(fsl2(rng, False, rng.choice(["sl2", "zero", "locus", "word"]))),
                          "ctor": rng.choice(["sl2_iso", "from_sl2", "list"])})
        yield {"A": enc_c(fsl2(rng, False, rng.choice(["sl2", "zero", "locus", "word"]))), "ctor": rng.choice(["sl2_iso", "from_sl2", "list"]),
               "steps": steps}


def _mk_iso(M, ctor):
    if ctor == "from_sl2":
        return H.Isometry.from_sl2(M.copy())
    if ctor == "list":
        return H.sl2_iso(M.tolist())
    return H.sl2_iso(M.copy())


def run_isohist(inp):
    A = toarr(inp["A"])
    iso = _mk_iso(A, inp["ctor"])
    cur = A.copy()                      # the tracked lift, up to sign
    bad = []
    copies = []
    def differential(obj, lift, what):
        got = np.asarray(obj.to_sl2())
        fresh = np.asarray(H.Isometry(np.array(np.asarray(obj.proj_data), copy=True)).to_sl2())
        sc = 1 + float(np.max(np.abs(lift)))
        if pm_err(got, lift) > 1e-6 * sc:
            bad.append([what, "to_sl2 is not ± the tracked matrix", got.tolist(), lift.tolist()])
        elif pm_err(got, fresh) > 1e-6 * sc:
            bad.append([what, "to_sl2 differs from a fresh Isometry with the same data", got.tolist(), fresh.tolist()])
    iso.to_sl2()
    differential(iso, cur, "construction (%s)" % inp["ctor"])
    for i, st in enumerate(inp["steps"]):
        M = toarr(st["M"])
        op = st["op"]
        # keep the history well conditioned: cond(sl2_to_so21(A)) grows like |A|^4, and inv / sqrt then lose digits legitimately
        # (soak false alarm, seed stream anchor-1: a `setitem` had installed a lift with entries ~4e3, a later `inv` of its
        #  SO(2,1) image (entries ~2e7, condition ~1e15) legitimately lost all but two digits.)  The oracle claims nothing
        #  about products or inverses taken *from* a lift larger than 12 either: those steps become `set` as well.
        if op in ("mul_right", "mul_left") and max(np.max(np.abs(cur @ M)), np.max(np.abs(M @ cur)), np.max(np.abs(M))) > 12:
            op = "set"
        if op in ("mul_right", "mul_left", "inv") and np.max(np.abs(cur)) > 12:
            op = "set"
        what = "step %d: %s" % (i, op)
        if op == "mul_right":           # (X @ Y).proj_data = Y.data · X.data, i.e. the lift of X @ Y is lift(X)·lift(Y)
            other = _mk_iso(M, st["ctor"])
            other.to_sl2()
            iso = iso @ other
            cur = cur @ M
        elif op == "mul_left":
            other = _mk_iso(M, st["ctor"])
            other.to_sl2()
            iso = other @ iso
            cur = M @ cur
        elif op == "inv":
            iso = iso.inv()
            cur = np.linalg.inv(cur)
        elif op == "set":
            iso.set(np.asarray(_mk_iso(M, "sl2_iso").proj_data).copy())
            cur = M.copy()
        elif op == "setitem":
            iso[...] = _mk_iso(M, st["ctor"])
            cur = M.copy()
        elif op == "copy_then_set":
            copies.append((_shallow(iso), cur.copy(), "shallow copy taken before set()"))
            copies.append((H.Isometry(iso), cur.copy(), "constructor copy taken before set()"))
            iso.set(np.asarray(_mk_iso(M, "sl2_iso").proj_data).copy())
            cur = M.copy()
        differential(iso, cur, what)
        if len(bad) >= 2:
            break
    for obj, lift, label in copies:
        differential(obj, lift, label)
    return {"bad": bad[:2]}


def judge_isohist(inp, obs, lr):
    tags0 = {"history": True, "object": "Isometry"}
    if "exc" in obs:
        return {"expected": "every step of the history succeeds", "observed": obs, "tags": dict(tags0, exc=obs["exc"])}
    if obs["bad"]:
        return {"expected": "to_sl2 of an Isometry with a history = ± the product the history describes = ± to_sl2 of a fresh Isometry",
                "observed": obs["bad"], "tags": dict(tags0, site=obs["bad"][0][1])}
    return None


# ------------------------------------------------------------------------------------------------
# every optional keyword argument of every mapped function (enumerated from the signatures), supplied explicitly in a dtype
# that is independent of the main argument's dtype; references are the independent formulas above
# ------------------------------------------------------------------------------------------------
import inspect

KW_FUNCS = {"gln_adjoint": lie.gln_adjoint, "sln_adjoint": lie.sln_adjoint, "sl2c_to_so31": lie.sl2c_to_so31,
            "sl2c_herm_action": lie.sl2c_herm_action, "o_to_pgl": lie.o_to_pgl, "slc_to_slr": lie.slc_to_slr,
            "hom.gln_adjoint": lie.hom.gln_adjoint(), "hom.sln_adjoint": lie.hom.sln_adjoint(),
            "hom.sl2_irrep": lie.hom.sl2_irrep(3), "hom.sl2_to_so21": lie.hom.sl2_to_so21()}
KW_DTYPES = ["int64", "int32", "float32", "float64", "complex128"]


def optional_params(fn):
    sig = inspect.signature(fn)
    names = [p.name for p in sig.parameters.values() if p.default is not inspect.Parameter.empty]
    if any(p.kind == inspect.Parameter.VAR_KEYWORD for p in sig.parameters.values()):
        # what the **kwargs are forwarded to: `like=` (dtype donor) — except slc_to_slr, which fixes like=mat itself and
        # forwards the rest to utils.zeros (dtype=)
        names.append("dtype" if getattr(fn, "__name__", "") == "slc_to_slr" else "like")
    return names


def gen_kw(rng, n):
    combos = [(f, kw) for f, fn in KW_FUNCS.items() for kw in optional_params(fn)]
    for _ in range(n):
        f, kw = rng.choice(combos)
        yield {"fn": f, "kw": kw, "kw_dtype": rng.choice(KW_DTYPES), "main_dtype": rng.choice(["float64", "int64", "float32", "complex128"]),
               "k": rng.choice([2, 2, 3]), "seed": rng.randrange(10 ** 9)}


def run_kw(inp):
    r = np.random.default_rng(inp["seed"])
    f, kw, kd, md, k = inp["fn"], inp["kw"], inp["kw_dtype"], inp["main_dtype"], inp["k"]
    fn = KW_FUNCS[f]
    base = f.split(".")[-1]
    out = {"skipped": False}
    def intmat(kk, unimodular):
        while True:
            N = r.integers(-3, 4, size=(kk, kk))
            d = round(np.linalg.det(N))
            if d != 0 and (abs(d) == 1) == unimodular:
                return N.astype(np.int64)
    if base in ("gln_adjoint", "sln_adjoint"):
        ref_f = ref_gln if base == "gln_adjoint" else ref_sln
        if kw == "inv":
            # an inverse that is exactly representable in EVERY dtype (an integer matrix N), for a main argument mat = N^-1
            # that is not integral, and the other way round (integer mat, its float inverse)
            N = intmat(k, unimodular=bool(r.integers(0, 2)))
            if r.integers(0, 2):
                mat, inv = np.linalg.inv(N), N.astype(kd)
                if md == "complex128":
                    mat = mat.astype(complex)
                elif md == "float32":
                    mat = mat.astype(np.float32)
            else:
                mat = N.astype(md)
                inv = np.linalg.inv(N)
                inv = inv.astype(kd) if kd in ("float64", "complex128") else inv
            ms, is_ = mat.copy(), inv.copy()
            got = np.asarray(fn(mat, inv=inv))
            ref = ref_f(np.asarray(ms).astype(complex))
            out["arg_changed"] = not (np.array_equal(mat, ms) and np.array_equal(inv, is_))
        elif kw == "like":
            if kd in ("int64", "int32"):
                return {"skipped": True}           # an integer `like` asks for an integer result: nothing to compare
            mat = fgl(r_py(r), k, md == "complex128").astype(md if md != "int64" else "float64")
            if kd != "complex128" and np.iscomplexobj(mat):
                return {"skipped": True}           # a real `like` for complex data asks for a real result
            got = np.asarray(fn(mat, like=np.zeros(1, dtype=kd)))
            ref = ref_f(mat.astype(complex))
        else:
            return {"skipped": True}
    elif base in ("sl2c_to_so31", "sl2c_herm_action"):
        M = fsl2(r_py(r), True, "sl2")
        kwargs = {}
        if kw == "like":
            kwargs["like"] = np.zeros(1, dtype=kd)
        elif kw == "force_real":
            kwargs["force_real"] = bool(r.integers(0, 2))
        else:
            return {"skipped": True}
        got = np.asarray(fn(M, **kwargs))
        if base == "sl2c_to_so31":
            ref = ref_so31(M)
        else:
            B2 = np.array([[1., -1, 0, 0], [1, 1, 0, 0], [0, 0, 1, 0], [0, 0, 0, 1]])
            ref = B2 @ ref_so31(M) @ np.linalg.inv(B2)
    elif base == "o_to_pgl":
        A = fsl2(r_py(r), False, "locus" if r.integers(0, 2) else "sl2")
        S = np.asarray(lie.sl2_to_so21(A))
        got = np.asarray(fn(S, bilinear_form=np.diag([-1, 1, 1]).astype(kd)))
        out["pm"] = True
        ref = A
    elif base == "slc_to_slr":
        Zm = fgl(r_py(r), k, True)
        if kd in ("int64", "int32"):
            return {"skipped": True}               # an integer dtype asks for an integer result
        got = np.asarray(fn(Zm, dtype=np.dtype(kd)))
        ref = ref_slr(Zm)
    elif base in ("sl2_irrep", "sl2_to_so21"):
        A = fsl2(r_py(r), False, "sl2")
        Ai = np.linalg.inv(A)
        got = np.asarray(fn(A, inv=Ai.astype(kd) if kd in ("float64", "complex128") else np.round(Ai).astype(kd)))   # ignored by these maps
        ref = ref_irrep(A, 3) if base == "sl2_irrep" else ref_so21(A)
    else:
        return {"skipped": True}
    if got.dtype == object:
        out["object_dtype"] = True
        return out
    tol_scale = 1e4 if "float32" in (kd, md) else 1.0
    if out.get("pm"):
        e = pm_err(got, ref) / 100
    else:
        e = float("inf") if got.shape != ref.shape else float(np.max(np.abs(got - ref)) / (1 + np.max(np.abs(ref))))
    out["err"] = e / tol_scale
    out["dtype"] = str(got.dtype)
    return out


def r_py(r):
    """a python `random.Random` seeded from a numpy generator (the matrix helpers above take the former)"""
    import random
    return random.Random(int(r.integers(0, 2 ** 31)))


def judge_kw(inp, obs, lr):
    tags0 = {"fn": inp["fn"], "kw": inp["kw"], "kw_dtype": inp["kw_dtype"], "main_dtype": inp["main_dtype"]}
    if "exc" in obs:
        return {"expected": "a value", "observed": obs, "tags": dict(tags0, exc=obs["exc"])}
    if obs.get("skipped"):
        return None
    if obs.get("object_dtype"):
        return {"expected": "numeric array", "observed": "object dtype", "tags": dict(tags0, object_dtype=True)}
    if obs.get("arg_changed"):
        return {"expected": "arguments untouched", "observed": obs, "tags": dict(tags0, site="argument")}
    if not obs["err"] <= 1e-8:
        return {"expected": "the value of the independent reference, whatever dtype the optional argument is given in",
                "observed": obs, "tags": dict(tags0, site="value")}
    return None


# ------------------------------------------------------------------------------------------------
# G13 / G15 / G16: every entry point of the same map agrees, on single and on stacked input (including stacks whose axes all have
# the matrix size, and stacks mixing small, large-word and special-locus members); a valid input never raises
# ------------------------------------------------------------------------------------------------
def gen_entry(rng, n):
    for _ in range(n):
        shape = rng.choice([[], [1], [2], [2, 2], [3], [3, 3], [2, 3]])     # [2], [2,2]: every axis of the 2x2 stack has length 2;
        cnt = int(np.prod(shape)) if shape else 1                            # [3], [3,3]: every axis of the 3x3 images has length 3
        kinds = [rng.choice(["sl2", "zero", "locus", "word", "fword", "fword"]) for _ in range(cnt)]
        if rng.random() < 0.3:
            kinds = [rng.choice(["locus_neg", "neg", "sl2"]) for _ in range(cnt)]
        A = np.array([fsl2(rng, False, k) for k in kinds]).reshape(tuple(shape) + (2, 2))
        yield {"shape": shape, "A": enc_c(A), "pack": rng.choice(["array", "array", "list"])}


def run_entry(inp):
    A = toarr(inp["A"])
    arg = A.tolist() if inp["pack"] == "list" else A
    tr = lambda iso: np.swapaxes(np.asarray(iso.proj_data), -1, -2)
    S = {"lie.sl2_to_so21": np.asarray(lie.sl2_to_so21(A.copy())),
         "hom.sl2_to_so21": np.asarray(lie.hom.sl2_to_so21()(A.copy())),
         "sl2_iso": tr(H.sl2_iso(arg)),
         "Isometry.from_sl2": tr(H.Isometry.from_sl2(arg)),
         "Isometry(...)": tr(H.Isometry(np.swapaxes(np.asarray(lie.sl2_to_so21(A.copy())), -1, -2)))}
    ref = np.array([ref_so21(M) for M in A.reshape((-1, 2, 2))]).reshape(A.shape[:-2] + (3, 3))
    out = {"so21": {k: (float(np.max(np.abs(v - ref) / (1 + np.abs(ref)))) if v.shape == ref.shape else "shape %r" % (v.shape,)) for k, v in S.items()}}
    Sref = ref
    iso = H.sl2_iso(arg)
    back = {"lie.o_to_pgl": np.asarray(lie.o_to_pgl(Sref.copy())), "hom.so21_to_sl2": np.asarray(lie.hom.so21_to_sl2()(Sref.copy())),
            "sl2_iso.to_sl2": np.asarray(iso.to_sl2()), "from_sl2.to_sl2": np.asarray(H.Isometry.from_sl2(arg).to_sl2())}
    flat = A.reshape((-1, 2, 2))
    res = {}
    for k, v in back.items():
        if v.shape != A.shape:
            res[k] = "shape %r" % (v.shape,)
            continue
        vf = v.reshape((-1, 2, 2))
        res[k] = max(pm_err(vf[u], flat[u]) for u in range(len(flat)))
    out["back"] = res
    # member u of the stacked answer = the single-object answer for member u
    single = 0.0
    for u in range(len(flat)):
        single = max(single, float(np.max(np.abs(np.asarray(lie.sl2_to_so21(flat[u].copy())) - Sref.reshape((-1, 3, 3))[u]) / (1 + np.abs(Sref.reshape((-1, 3, 3))[u])))))
    out["member_vs_single"] = single
    return out


def judge_entry(inp, obs, lr):
    tags0 = {"stack": inp["shape"], "pack": inp["pack"]}
    if "exc" in obs:
        return {"expected": "every entry point accepts a valid input (no exception)", "observed": obs, "tags": dict(tags0, exc=obs["exc"])}
    for k, v in obs["so21"].items():
        if isinstance(v, str) or not v <= 1e-9:
            return {"expected": "the SO(2,1) image by the closed formula, for every entry point, unit by unit", "observed": {k: v},
                    "tags": dict(tags0, site=k)}
    for k, v in obs["back"].items():
        if isinstance(v, str) or not v <= 1e-6:
            return {"expected": "±A unit by unit from every entry point of the inverse", "observed": {k: v}, "tags": dict(tags0, site=k)}
    if not obs["member_vs_single"] <= 1e-9:
        return {"expected": "member of the stacked answer = single-object answer", "observed": obs, "tags": dict(tags0, site="member_vs_single")}
    return None


# ------------------------------------------------------------------------------------------------
# near-identity elements (deviation 10^-6..10^-14 from the identity, or from the real locus) and high powers by repeated squaring:
# the deviation is the information, so it is compared relative to its own size
# ------------------------------------------------------------------------------------------------
NEAR_MAPS = ["irrep", "so21", "gln", "sln", "slr", "blk", "so31"]


def gen_near(rng, n):
    for _ in range(n):
        name = rng.choice(NEAR_MAPS)
        eps = 10.0 ** (-rng.randint(6, 14)) * rng.choice([1.0, -1.0, 3.0])
        param = None
        if name in ("irrep", "so21", "so31"):
            N = np.array(rng.choice([[[0, 1], [0, 0]], [[0, 0], [1, 0]], [[1, 1], [-1, -1]]]), dtype=float)
            if name == "so31" and rng.random() < 0.5:
                N = N * (1 + 2j)
            g = np.eye(2) + eps * N                      # N^2 = 0: determinant exactly one
            if name == "irrep":
                param = rng.choice([2, 3, 4, 5])
        else:
            k = rng.choice([2, 3])
            cplx = name == "slr" or rng.random() < 0.3
            g = np.eye(k) + eps * fgl(rng, k, cplx)
            if name == "slr" and rng.random() < 0.6:     # a real matrix plus an imaginary part of size eps
                g = fgl(rng, k, False) + 1j * eps * fgl(rng, k, False)
            if name == "blk":
                param = k + 1
        yield {"map": name, "param": param, "g": enc_c(g), "eps": eps, "squarings": rng.choice([0, 0, 10, 20])}


def run_near(inp):
    name, param = inp["map"], inp["param"]
    g = toarr(inp["g"])
    if name in ("so31", "slr"):
        g = g.astype(complex)
    out = np.asarray(map_fn(name, param)(g.copy()))
    ref = np.asarray(iso_ref(name, param, g))
    res = {"shape_ok": out.shape == ref.shape}
    if not res["shape_ok"]:
        return res
    if name == "slr":
        k = g.shape[0]
        worst = 0.0
        for bi in range(2):
            for bj in range(2):
                mb = ref[bi * k:(bi + 1) * k, bj * k:(bj + 1) * k]
                gb = out.real[bi * k:(bi + 1) * k, bj * k:(bj + 1) * k]
                worst = max(worst, float(np.max(np.abs(gb - mb)) / max(np.max(np.abs(mb)), 1e-300)))
        res["dev_err"] = worst
    else:
        Im = np.eye(ref.shape[-1])
        dev = ref - Im
        sc = float(np.max(np.abs(dev)))
        res["dev_err"] = float(np.max(np.abs((out - Im) - dev)) / sc) if sc > 0 else float(np.max(np.abs(out - Im)))
        res["dev_size"] = sc
    if inp["squarings"] and name in ("irrep", "so21", "so31", "gln"):
        T, h = out.astype(complex), g.astype(complex)
        for _ in range(inp["squarings"]):
            T, h = T @ T, h @ h
        Tr = np.asarray(iso_ref(name, param, h))
        res["power_err"] = float(np.max(np.abs(T - Tr)) / (1 + np.max(np.abs(Tr))))
        res["power_dev"] = float(np.max(np.abs(Tr - np.eye(Tr.shape[-1]))))
    return res


def judge_near(inp, obs, lr):
    tags0 = {"map": inp["map"], "near_identity": True, "eps": inp["eps"]}
    if "exc" in obs:
        return {"expected": "a value", "observed": obs, "tags": dict(tags0, exc=obs["exc"])}
    if not obs["shape_ok"]:
        return {"expected": "shape of the reference", "observed": obs, "tags": dict(tags0, site="shape")}
    # the clean tree gets f(g) to ~1e-16 absolute, i.e. the deviation to 1e-16/|deviation| relative; 1e-2 + that is claimed
    lim = 1e-2 + 1e-15 / max(obs.get("dev_size", abs(inp["eps"])), 1e-300)
    if not obs["dev_err"] <= lim:
        return {"expected": "f(g) - 1 (resp. each block of slc_to_slr) correct relative to its own size", "observed": obs,
                "tags": dict(tags0, site="deviation")}
    if "power_err" in obs and not obs["power_err"] <= 1e-9 * max(1.0, 2.0 ** inp["squarings"] * 1e-4):
        return {"expected": "f(g)^(2^k) = f(g^(2^k)) by repeated squaring", "observed": obs, "tags": dict(tags0, site="power")}
    return None


def gen_pglform(rng, n):
    for _ in range(n):
        kind = rng.choice(["diag", "generic", "orthogonal"])
        if kind == "diag":
            Pm = np.diag([math.exp(rng.uniform(-1, 1)) for _ in range(3)])
        elif kind == "orthogonal":
            Pm, _ = np.linalg.qr(np.array([[rng.gauss(0, 1) for _ in range(3)] for _ in range(3)]))
        else:
            while True:
                Pm = np.array([[rng.gauss(0, 1) for _ in range(3)] for _ in range(3)])
                if np.linalg.cond(Pm) < 8:
                    break
        yield {"kind": kind, "P": enc_c(Pm), "A": enc_c(fsl2(rng, False, rng.choice(["sl2", "zero", "locus"]))),
               "B": enc_c(fsl2(rng, False, "sl2"))}


def run_pglform(inp):
    Pm, A, B = toarr(inp["P"]), toarr(inp["A"]), toarr(inp["B"])
    J = np.diag([-1.0, 1, 1])
    form = Pm.T @ J @ Pm
    form = (form + form.T) / 2
    Pi = np.linalg.inv(Pm)
    SA, SB = Pi @ np.asarray(lie.sl2_to_so21(A)) @ Pm, Pi @ np.asarray(lie.sl2_to_so21(B)) @ Pm
    rA = np.asarray(lie.o_to_pgl(SA, bilinear_form=form))
    rB = np.asarray(lie.o_to_pgl(SB, bilinear_form=form))
    rAB = np.asarray(lie.o_to_pgl(SA @ SB, bilinear_form=form))
    rH = np.asarray(lie.hom.so21_to_sl2(bilinear_form=form)(SA))       # the wrapper must forward its keyword
    return {"hom_wrapper": pm_err(rH, rA), "preserved": float(np.max(np.abs(SA.T @ form @ SA - form))), "rA": rA.tolist(), "rB": rB.tolist(), "rAB": rAB.tolist(),
            "detA": float(np.linalg.det(rA)), "trA": float(abs(np.trace(rA))), "want_tr": float(abs(np.trace(A))),
            "cond": float(np.linalg.cond(Pm))}


def judge_pglform(inp, obs, lr):
    tags0 = {"form": inp["kind"]}
    if "exc" in obs:
        return {"expected": "o_to_pgl(S, bilinear_form=B)", "observed": obs, "tags": dict(tags0, exc=obs["exc"])}
    tol = 1e-6 * obs["cond"] ** 2
    if not finite(obs["rA"]) or abs(obs["detA"] - 1) > tol * (1 + obs["want_tr"] ** 2):
        return {"expected": "determinant one", "observed": obs, "tags": dict(tags0, site="det")}
    if abs(obs["trA"] - obs["want_tr"]) > tol * (1 + obs["want_tr"]):
        return {"expected": "|trace| of A (A is recovered up to sign and conjugation by the isometry between the forms)",
                "observed": obs, "tags": dict(tags0, site="trace")}
    if obs["hom_wrapper"] > 1e-9:
        return {"expected": "lie.hom.so21_to_sl2(bilinear_form=B)(S) = ± o_to_pgl(S, bilinear_form=B)", "observed": obs,
                "tags": dict(tags0, site="hom_wrapper_keyword")}
    if pm_err(obs["rAB"], np.array(obs["rA"]) @ np.array(obs["rB"])) > tol * 10:
        return {"expected": "o_to_pgl(S·T, B) = ± o_to_pgl(S, B)·o_to_pgl(T, B)", "observed": obs, "tags": dict(tags0, site="hom_up_to_sign")}
    return None


# ------------------------------------------------------------------------------------------------
# array-level correspondence: the literal ND models of the vectorised code paths vs the arrays numpy returns
# ------------------------------------------------------------------------------------------------
def nd_enc(mats, shape, k):
    return {"shape": list(shape) + [k, k], "data": [x for M in mats for r in M for x in r]}


def gen_nd(rng, n):
    for _ in range(n):
        which = rng.choice(["irrep", "irrep", "so21", "gln"])
        shape = rng.choice([[], [1], [2], [3], [2, 2], [1, 2], [2, 1, 2]])
        cnt = int(np.prod(shape)) if shape else 1
        if which == "gln":
            k = rng.choice([1, 2, 2, 3])
            mats = [C.rzinv(rng, "Q", k, 2, 2, F(1, 2)) for _ in range(cnt)]
            yield {"which": which, "k": k, "shape": shape, "A": nd_enc(C.enc(mats, "Q"), shape, k),
                   "Ai": nd_enc(C.enc([C.zinv(M) for M in mats], "Q"), shape, k)}
        else:
            mats = [rmat2(rng, "Q", rng.choice(["sl2", "zero", "gl2", "locus"])) for _ in range(cnt)]
            yield {"which": which, "k": 2, "n": rng.choice([1, 2, 3, 4, 5, 6]), "shape": shape,
                   "A": nd_enc(C.enc(mats, "Q"), shape, 2)}


def _nd_arr(d):
    return np.array([float(F(x)) for x in d["data"]]).reshape(d["shape"])


def run_nd(inp):
    A = _nd_arr(inp["A"])
    if inp["which"] == "irrep":
        R = lie.sl2_irrep(A, inp["n"])
    elif inp["which"] == "so21":
        R = lie.sl2_to_so21(A)
    else:
        R = lie.gln_adjoint(A, inv=_nd_arr(inp["Ai"]))
    return {"R": tolist(R)}


def lean_nd(inp, obs):
    if inp["which"] == "irrep":
        return [{"op": "c17.irrep_nd", "n": inp["n"], "A": inp["A"]}]
    if inp["which"] == "so21":
        return [{"op": "c17.so21_nd", "A": inp["A"]}]
    return [{"op": "c17.gln_nd", "n": inp["k"], "A": inp["A"], "Ai": inp["Ai"]}]


def judge_nd(inp, obs, lr):
    tags0 = {"map": inp["which"], "rank": len(inp["shape"])}
    if "exc" in obs:
        return {"expected": "an array of images", "observed": obs, "tags": dict(tags0, exc=obs["exc"]), "property_failure": True}
    r = lr[0]
    if "err" in r:
        return {"expected": "model answer", "observed": r, "tags": dict(tags0, driver_err=r["err"])}
    if "object_dtype" in obs["R"]:
        return {"expected": "numeric array", "observed": "object dtype", "tags": dict(tags0, object_dtype=True)}
    R = toarr(obs["R"])
    m = r["ok"]
    if list(R.shape) != m["shape"]:
        return {"expected": {"shape": m["shape"]}, "observed": list(R.shape), "tags": dict(tags0, site="shape")}
    M = np.array([float(F(x)) for x in m["data"]]).reshape(m["shape"])
    if not same(R, M, 1e-8):
        return {"expected": "array-level model value", "observed": {"max_abs_diff": float(np.max(np.abs(R - M)))},
                "tags": dict(tags0, site="values")}
    return None


# integer packagings: the same matrices as int ndarrays (int64 / int32), stacks of them, and Python int lists where the
# entry point documents array-likes (hyperbolic.sl2_iso / Isometry.from_sl2); lie.* document `ndarray` arguments
INT_MAPS = ["irrep", "so21", "sl2_iso", "from_sl2", "gln", "sln", "slr", "blk", "so31", "hom_irrep", "hom_so21", "hom_gln", "hom_sln"]


def int_fn(name, param):
    if name == "sl2_iso":
        return lambda M: np.swapaxes(np.asarray(H.sl2_iso(M).proj_data), -1, -2)
    if name == "from_sl2":
        return lambda M: np.swapaxes(np.asarray(H.Isometry.from_sl2(M).proj_data), -1, -2)
    return map_fn(name, param)


def gen_intpack(rng, n):
    for _ in range(n):
        name = rng.choice(INT_MAPS)
        base = name[4:] if name.startswith("hom_") else name
        k = 2 if base in ("irrep", "so21", "sl2_iso", "from_sl2", "so31") else rng.choice([2, 3, 4])
        param = rng.choice([1, 2, 3, 4, 5, 6]) if base == "irrep" else (k + rng.choice([0, 1, 2]) if base == "blk" else None)
        shape = rng.choice([[], [], [2], [2, 2]])
        cnt = int(np.prod(shape)) if shape else 1
        mats = []
        for _ in range(2 * cnt):
            while True:
                M = [[rng.randint(-3, 3) for _ in range(k)] for _ in range(k)]
                d = round(float(np.linalg.det(np.array(M, dtype=float))))
                want_unimodular = base in ("so21", "sl2_iso", "from_sl2", "so31") or rng.random() < 0.4
                if d != 0 and (abs(d) == 1 or not want_unimodular) and (d == 1 or base not in ("so31",)):
                    break
            mats.append(M)
        packs = ["int64", "int32"] + (["list"] if base in ("sl2_iso", "from_sl2") else [])
        yield {"map": name, "param": param, "k": k, "shape": shape, "A": mats[:cnt], "B": mats[cnt:], "pack": rng.choice(packs)}


def _pack(mats, shape, k, pack):
    a = np.array(mats, dtype=np.int64).reshape(tuple(shape) + (k, k))
    if pack == "list":
        return a.tolist()
    return a.astype(pack)


def run_intpack(inp):
    f = int_fn(inp["map"], inp["param"])
    k, shape = inp["k"], inp["shape"]
    Ai, Bi = _pack(inp["A"], shape, k, inp["pack"]), _pack(inp["B"], shape, k, inp["pack"])
    Af = np.array(inp["A"], dtype=float).reshape(tuple(shape) + (k, k))
    Bf = np.array(inp["B"], dtype=float).reshape(tuple(shape) + (k, k))
    ABi = (Af @ Bf).round().astype(np.int64)
    ABi = ABi.tolist() if inp["pack"] == "list" else ABi.astype(inp["pack"])
    ri, rf = np.asarray(f(Ai)), np.asarray(f(Af.copy()))
    rb, rab = np.asarray(f(Bi)), np.asarray(f(ABi))
    if ri.dtype == object:
        return {"object_dtype": True}
    sc = 1 + float(np.max(np.abs(rf)))
    return {"shape_ok": ri.shape == rf.shape, "same": float(np.max(np.abs(ri - rf)) / sc) if ri.shape == rf.shape else float("inf"),
            "hom": float(np.max(np.abs(rab - ri @ rb)) / (1 + float(np.max(np.abs(ri))) * float(np.max(np.abs(rb))))),
            "dtype": str(ri.dtype)}


def judge_intpack(inp, obs, lr):
    base = inp["map"][4:] if inp["map"].startswith("hom_") else inp["map"]
    tags0 = {"map": base, "via_hom": inp["map"].startswith("hom_"), "pack": inp["pack"], "array": len(inp["shape"]) > 0, "integer_input": True}
    if "exc" in obs:
        return {"expected": "the value computed for the same matrices as float64", "observed": obs, "tags": dict(tags0, exc=obs["exc"])}
    if obs.get("object_dtype"):
        return {"expected": "numeric array", "observed": "object dtype", "tags": dict(tags0, object_dtype=True)}
    if not obs["shape_ok"] or not obs["same"] <= 1e-9:
        return {"expected": "integer packaging gives the same value as float64", "observed": obs, "tags": dict(tags0, site="value")}
    if not obs["hom"] <= 1e-8:
        return {"expected": "f(A·B) = f(A)·f(B) on integer matrices", "observed": obs, "tags": dict(tags0, site="product")}
    return None


CLAUSES = [
    Clause("irrep_corr", "corr", gen_irrep, run_irrep, judge_irrep, lean=lean_irrep, site="lie.sl2_irrep",
           budget={"quick": 120, "thorough": 3000},
           what="sl2_irrep(A, n) and hom.sl2_irrep(n)(A), n = 1..6, ℚ and ℚ(i), single matrices and arrays (shapes rank 0-2), "
                "SL(2), det -1, general invertible, zero entries — vs the model's general-n formula executed exactly"),
    Clause("so21_corr", "corr", gen_so21, run_so21, judge_so21, lean=lean_so21, site="lie.sl2_to_so21/o_to_pgl, hyperbolic.sl2_iso/to_sl2",
           budget={"quick": 70, "thorough": 2000},
           what="sl2_to_so21 (arrays), sl2_iso (arrays, list input), o_to_pgl / hom.so21_to_sl2 / Isometry.to_sl2 on exact-ℚ matrices "
                "incl. vanishing entries and det -1 — vs the model (repaired extraction; the pinned extraction is reported alongside)"),
    Clause("pgl_form_corr", "corr", gen_pglform_corr, run_pglform_corr, judge_pglform_corr, lean=lean_pglform_corr,
           site="lie.o_to_pgl(bilinear_form=)", budget={"quick": 60, "thorough": 1000},
           what="o_to_pgl(S, bilinear_form=B) for diagonal forms B of signature (2,1) (negative direction at any index, square-norms in {1/16..16}) and exact "
                "S = Pm^-1 sl2_to_so21(A) Pm vs Lean oToPglForm evaluated with the (W, Winv) that utils.diagonalize_form returns for B (W·Winv = 1 checked exactly); up to sign"),
    Clause("adjoint_corr", "corr", gen_adj, run_adj, judge_adj, lean=lean_adj, site="lie.gln_adjoint/sln_adjoint/sln_killing_form",
           budget={"quick": 30, "thorough": 1000},
           what="gln_adjoint, sln_adjoint (direct and via lie.hom, with and without inv=), sln_killing_form, n = 2..6, ℚ and ℚ(i)"),
    Clause("blocks_corr", "corr", gen_blocks, run_blocks, judge_blocks, lean=lean_blocks, site="lie.slc_to_slr/block_include",
           budget={"quick": 100, "thorough": 2500},
           what="slc_to_slr and block_include on single matrices and arrays, n = 1..6, direct and via lie.hom"),
    Clause("array_nd_corr", "corr", gen_nd, run_nd, judge_nd, lean=lean_nd, site="lie.sl2_irrep/sl2_to_so21/gln_adjoint on arrays",
           budget={"quick": 60, "thorough": 1500},
           what="whole arrays (composite shapes of rank 0-3, size-1 axes) through the literal ND models of the vectorised code "
                "(entry loops with array arithmetic, broadcasting @, tiling linear_matrix_action) vs the arrays numpy returns"),
    Clause("so31_corr", "corr", gen_so31, run_so31, judge_so31, lean=lean_so31, site="lie.sl2c_to_so31",
           budget={"quick": 30, "thorough": 1000},
           what="sl2c_to_so31 on SL(2,ℚ(i)) (incl. zero entries, real matrices, general invertible) vs the model over pairs of rationals; "
                "the imaginary part dropped by utils.real is zero on both sides"),
    Clause("hom_oracle", "oracle", gen_hom, run_hom, judge_hom, site="lie.* / lie.hom.*",
           budget={"quick": 400, "thorough": 10000},
           what="f(A·B) = f(A)·f(B), f(1) = 1 for every map (irrep n=1..6, so21, gln/sln adjoint n=2..6, slc_to_slr, block_include, "
                "sl2c_to_so31; direct and via lie.hom), single matrices and arrays of matrices, arrays = unit-by-unit"),
    Clause("near_identity_oracle", "oracle", gen_near, run_near, judge_near, site="lie.* near the identity / the real locus",
           budget={"quick": 300, "thorough": 6000},
           what="elements 1 + eps·N with eps = 10^-6..10^-14 (unipotent, boost-like, generic; real matrices with an imaginary part of size "
                "eps for slc_to_slr) through every Lie map: f(g) - 1, resp. each block of the realification, is compared with an "
                "independent reference RELATIVE TO ITS OWN SIZE; f(g)^(2^k) = f(g^(2^k)) for k = 10, 20 by repeated squaring"),
    Clause("entrypoints_oracle", "oracle", gen_entry, run_entry, judge_entry, site="sl2_to_so21 / sl2_iso / Isometry.from_sl2 / lie.hom.* / to_sl2",
           budget={"quick": 250, "thorough": 5000},
           what="all entry points of SL(2)->SO(2,1) (lie.sl2_to_so21, lie.hom.sl2_to_so21(), sl2_iso, Isometry.from_sl2, Isometry(data)) and "
                "of its inverse (o_to_pgl, lie.hom.so21_to_sl2(), Isometry.to_sl2) agree with the closed formula / recover ±A on single "
                "matrices and on stacks (shapes with all axes of length 2 resp. 3, size-1 axes), lists and arrays, with members mixing "
                "small matrices, special loci, determinant -1 and long words with entries up to 1e5; valid input never raises"),
    Clause("isometry_history_oracle", "oracle", gen_isohist, run_isohist, judge_isohist, site="hyperbolic.sl2_iso / Isometry.to_sl2 (histories)",
           budget={"quick": 250, "thorough": 5000},
           what="Isometry objects built by sl2_iso / from_sl2 (arrays, lists) with a history of products on either side, inverses, set(), item "
                "assignment, copies taken before a re-set: to_sl2 = ± the tracked product = ± to_sl2 of a fresh Isometry with the same data"),
    Clause("kwargs_oracle", "oracle", gen_kw, run_kw, judge_kw, site="lie.* optional arguments",
           budget={"quick": 300, "thorough": 6000},
           what="every optional keyword argument found in the signatures of the mapped functions (inv=, like= via **kwargs, force_real=, "
                "bilinear_form=; lie.hom wrappers' inv=) supplied explicitly in int64/int32/float32/float64/complex128 independently of the "
                "main argument's dtype (e.g. an exactly integral inv= for a non-integral float matrix), against independent references"),
    Clause("isolation_oracle", "oracle", gen_iso, run_iso, judge_iso, site="lie.* / lie.hom.* (histories)",
           budget={"quick": 150, "thorough": 3000},
           what="generic defences G2-G4: histories of 4-8 calls of different Lie maps / n / dtypes (float64, complex128, int64, "
                "float32, non-contiguous views) interleaved in random order, each compared with an independent reference written in the "
                "harness; inputs snapshotted; returned arrays mutated in place and the call repeated; extreme scalings 1e±100"),
    Clause("hom_history_oracle", "oracle", gen_homhist, run_homhist, judge_homhist, site="lie.hom.* wrapper objects",
           budget={"quick": 250, "thorough": 5000},
           what="one lie.hom wrapper object per case, reused over a history of 3-6 calls with the optional inverse omitted / given by "
                "keyword / given positionally in every order: each call must equal the stateless function (all eight factories)"),
    Clause("integer_oracle", "oracle", gen_intpack, run_intpack, judge_intpack, site="lie.* / lie.hom.* / hyperbolic.sl2_iso",
           budget={"quick": 300, "thorough": 6000},
           what="every Lie map on integer-dtype ndarrays (int64, int32), stacks of them, and Python int lists for sl2_iso / from_sl2: "
                "same value as for float64 input, products to products"),
    Clause("structure_oracle", "oracle", gen_struct, run_struct, judge_struct, site="lie.*",
           budget={"quick": 300, "thorough": 8000},
           what="det sl2_irrep = 1; sl2_to_so21 preserves diag(-1,1,1), det ±1, sl2_iso stores it; sl2c_to_so31 real, preserves "
                "diag(-1,1,1,1), det 1; sln/gln adjoint preserve the trace (Killing) form; slc_to_slr acts as the complex matrix; block layout"),
    Clause("pgl_form_oracle", "oracle", gen_pglform, run_pglform, judge_pglform, site="lie.o_to_pgl(bilinear_form=)",
           budget={"quick": 200, "thorough": 5000},
           what="o_to_pgl with the bilinear_form option (rescaled axes, generic and orthogonal conjugates of diag(-1,1,1)): values have "
                "determinant one, |trace| of the original matrix, and products go to products up to sign"),
    Clause("pgl_oracle", "oracle", gen_pgl, run_pgl, judge_pgl, site="lie.o_to_pgl, hyperbolic.Isometry.to_sl2",
           budget={"quick": 400, "thorough": 10000},
           what="o_to_pgl(sl2_to_so21(A)) = ±A and sl2_iso(A).to_sl2() = ±A for det-one (and det -1) A incl. exactly vanishing entries; "
                "o_to_pgl is multiplicative up to sign on products of images"),
]
