"""C14 — circle and sphere parameters describe the true geodesic, segment and horosphere (DESIGN §4 C14)."""
import math
from fractions import Fraction as F
import numpy as np
from vlib.runner import Clause
from vlib import q as Q
from vlib.canon import close, proj_close, finite
from props import _a4geom as G
from geometry_tools import hyperbolic as H
from geometry_tools import utils

LEVEL = "proof"
EXPLANATION = ("Lean theorems (every dimension, ordered field with supplied square root): both rows of Segment._compute_aux_data are "
               "lightlike and on the line of the endpoints (Klein: affine combination); the Poincare sphere built from the foot of the "
               "perpendicular is centred at m/|m|^2, orthogonal to the boundary (|c|^2 = 1 + r^2), contains every ideal point of the basis "
               "(any number) and the Poincare image of every point of the Klein hull; half-space sphere: centre on the boundary, through "
               "every ideal point; horospheres in both models pass through the reference point and touch the boundary at the centre; "
               "arc selection returns the minor arc / the right-to-left arc, the inside arc is the minor arc and every point between its "
               "ends is inside; proved negations: the pinned tree's centroid construction fails for 3 ideal points in both models. "
               "Exact-Q correspondence of every construction (pinv results enter as checked contracts); float oracle for each sentence.")
ASSUMPTIONS = ["np.linalg.pinv in the repaired sphere_parameters is a contract: the affine coordinates of its result are recomputed exactly "
               "and the contract (orthogonality / equidistance) is checked in Lean on every case",
               "anything routed through kleinian_to_poincare at an ideal point loses half its digits: tolerance 1e-6*(1+r) there",
               "arctan2 / cos / sin within 1e-9"]
TOL = 1e-9
LOOSE = 1e-6


def exc(obs, what, tags=None):
    t = {"exc": obs.get("exc")}
    t.update(tags or {})
    return {"expected": what, "observed": obs, "tags": t, "property_failure": True}


def drv_err(lr, allow=("irrational-root",)):
    for r in lr:
        if "err" in r and r["err"] not in allow:
            return {"expected": "model answer", "observed": r, "tags": {"driver_err": r["err"]}}
    return None


def rat_rot(rng, n, k=None):
    """rational orthogonal n x n matrix (product of rational plane rotations, maybe one reflection)"""
    M = G.identF(n)
    if n < 2:
        return M
    for _ in range(k if k is not None else rng.randint(1, 3)):
        i, j = rng.sample(range(n), 2)
        c, s = Q.rrot(rng, 5)
        E = G.identF(n)
        E[i][i], E[i][j], E[j][i], E[j][j] = c, -s, s, c
        M = G.matmulF(M, E)
    return M


def rat_angle(rng, den=6):
    """rational (cos, sin) of an angle in (0, pi/2), away from the ends"""
    while True:
        t = F(rng.randint(1, den), rng.randint(1, den))
        c, s = (1 - t * t) / (1 + t * t), 2 * t / (1 + t * t)
        if F(1, 10) < c < F(99, 100) and s > F(1, 10):
            return c, s


def ideal_config(rng, n, k):
    """k rational ideal points of S^{n-1} whose affine hull has foot m with |m| and sqrt(1-|m|^2) rational.
    Returns (ks, m)."""
    while True:
        d = k
        Rd = rat_rot(rng, d)
        u = Rd[0]
        cphi, sphi = rat_angle(rng)
        ws = []
        if d == 1:
            return None
        for j in range(k):
            if d == 2:
                w0 = [F(1) if j == 0 else F(-1)]
            else:
                w0 = Q.rsphere(rng, d - 1, 4)
            ws.append(G.vecmatF([F(0)] + w0, Rd))
        kd = [[sphi * a + cphi * b for a, b in zip(u, w)] for w in ws]
        Rn = rat_rot(rng, n)
        ks = [G.vecmatF(x + [F(0)] * (n - d), Rn) for x in kd]
        m = G.vecmatF([sphi * a for a in u] + [F(0)] * (n - d), Rn)
        # affinely independent, away from the half-space pole (1,0,..,0)
        T = [[a - b for a, b in zip(x, ks[0])] for x in ks[1:]]
        gram = [[G.dotF(a, b) for b in T] for a in T]
        if Q.det(gram) == 0:
            continue
        # bounded condition: the directions of the affine hull are well separated
        if np.linalg.svd(np.array([[float(x) for x in t] for t in T]), compute_uv=False)[-1] < 0.05:
            continue
        if any(x[0] > F(9, 10) for x in ks):
            continue
        return ks, m


def foot_lambda(ks):
    """exact affine coordinates of the foot of the perpendicular from 0 to aff(ks)"""
    T = [[a - b for a, b in zip(x, ks[0])] for x in ks[1:]]
    if not T:
        return [F(1)]
    gram = [[G.dotF(a, b) for b in T] for a in T]
    rhs = [G.dotF(t, ks[0]) for t in T]
    c = G.vecmatF(rhs, G.transF(G.invF(gram)))
    return [1 + sum(c)] + [-x for x in c]


def circum_lambda(hs):
    T = [[a - b for a, b in zip(x, hs[0])] for x in hs[1:]]
    if not T:
        return [F(1)]
    gram = [[G.dotF(a, b) for b in T] for a in T]
    rhs = [G.dotF(t, t) / 2 for t in T]
    mu = G.vecmatF(rhs, G.transF(G.invF(gram)))
    return [1 - sum(mu)] + list(mu)


def p2hF(p):
    y, v = p[0], p[1:]
    x2 = sum(t * t for t in v)
    den = x2 + (y - 1) * (y - 1)
    return [-2 * t / den for t in v] + [(1 - x2 - y * y) / den]


# ================================================================== correspondence
def seg_config(rng, dim, planar_exact):
    """rational segment: frame (p^, v^) and two rational boosts; all chart coordinates rational when planar_exact"""
    if planar_exact:
        ks, m = ideal_config(rng, dim, 2)
        c2 = 1 - sum(x * x for x in m)          # cos^2 phi
        cphi = F(math.isqrt(c2.numerator), math.isqrt(c2.denominator))
        assert cphi * cphi == c2
        ph = [1 / cphi] + [x / cphi for x in m]
        w = [(a - b) / (2 * cphi) for a, b in zip(ks[0], ks[1])]
        vh = [F(0)] + w
    else:
        g = G.rat_iso(rng, dim)
        ph, vh = g[0], g[1]
    for _ in range(200):
        b1, b2 = Q.rboost(rng, 6), Q.rboost(rng, 6)
        if b1[2] == b2[2]:
            continue
        X = [[b[0] * a + b[1] * c for a, c in zip(ph, vh)] for b in (b1, b2)]
        # bounded condition (DESIGN §3): Klein radius <= 0.95, Klein distance >= 0.05
        K = [[x / v[0] for x in v[1:]] for v in X]
        if all(sum(x * x for x in k) <= F(9025, 10000) for k in K) and \
                sum((a - b) ** 2 for a, b in zip(*K)) >= F(25, 10000):
            return X
    return None


def gen_ideal(rng, n):
    for _ in range(n):
        dim = rng.choice([2, 3, 4])
        X = None
        while X is None:
            X = seg_config(rng, dim, False)
        if rng.random() < 0.6:
            X = [[x / v[0] for x in v] for v in X]       # Klein-normalised representatives (what the constructors store)
            scaled = False
        else:
            X = [[s * x for x in v] for v, s in zip(X, (G.rscale(rng), G.rscale(rng)))]
            scaled = True
        yield {"dim": dim, "x1": G.qv(X[0]), "x2": G.qv(X[1]), "scaled": scaled}


def run_ideal(inp):
    s = H.Segment(H.Point(G.fv(inp["x1"])), H.Point(G.fv(inp["x2"])))
    return {"ideal": np.array(s.ideal_basis, dtype=float).tolist(), "ends": np.array(s.endpoints, dtype=float).tolist()}


def lean_ideal(inp, obs):
    return [{"op": "c14.segment_ideal", "x1": inp["x1"], "x2": inp["x2"]}]


def judge_ideal(inp, obs, lr):
    if "exc" in obs:
        return exc(obs, "segment")
    if "err" in lr[0]:
        if lr[0]["err"] == "DivZero":
            return None          # representatives whose difference is lightlike: a = 0 (measure zero; not generated on purpose)
        return {"expected": "model answer", "observed": lr[0], "tags": {"driver_err": lr[0]["err"]}}
    mv = Q.decf(lr[0]["ok"])
    iv = np.array(obs["ideal"])
    # the two ideal endpoints as projective points, in either order: neither the scale of the rows nor which row comes
    # first is part of the public contract (on the pinned tree the order follows the relative sheet of the two stored
    # representatives: replacing one of them by its negative swaps the rows)
    if not (all(G.proj_equal(a, b, 1e-8) for a, b in zip(iv, mv)) or all(G.proj_equal(a, b, 1e-8) for a, b in zip(iv, mv[::-1]))):
        return {"expected": {"ideal (as an unordered pair of projective points)": mv.tolist()}, "observed": iv.tolist(), "tags": {"scaled": inp["scaled"]}}
    x1, x2 = G.fv(inp["x1"]), G.fv(inp["x2"])
    for a in iv:
        if abs(G.mink(a, a)) > 1e-9 * np.dot(a, a):
            return {"expected": "lightlike", "observed": a.tolist(), "tags": {"what": "null"}, "property_failure": True}
        sv = np.linalg.svd(np.stack([x1 / np.linalg.norm(x1), x2 / np.linalg.norm(x2), a / np.linalg.norm(a)]), compute_uv=False)
        if sv[-1] > 1e-8:
            return {"expected": "on the line of the endpoints", "observed": float(sv[-1]), "tags": {"what": "span"}, "property_failure": True}
    return None


def gen_circle(rng, n):
    for _ in range(n):
        X = None
        while X is None:
            X = seg_config(rng, 2, True)
        X = [[x / v[0] for x in v] for v in X]
        yield {"x1": G.qv(X[0]), "x2": G.qv(X[1]), "model": rng.choice(["poincare", "halfspace"]), "degrees": rng.random() < 0.5}


def run_circle(inp):
    s = H.Segment(H.Point(G.fv(inp["x1"])), H.Point(G.fv(inp["x2"])))
    c, r, th = s.circle_parameters(degrees=inp["degrees"], model=inp["model"])
    return {"c": np.array(c, dtype=float).tolist(), "r": float(r), "th": np.array(th, dtype=float).tolist()}


def lean_circle(inp, obs):
    return [{"op": "c14.segment_circle", "x1": inp["x1"], "x2": inp["x2"], "model": inp["model"]}]


def judge_circle(inp, obs, lr):
    if "exc" in obs:
        return exc(obs, "circle parameters")
    if "err" in lr[0]:
        if lr[0]["err"] in ("irrational-root", "DivZero"):
            return None
        return {"expected": "model answer", "observed": lr[0], "tags": {"driver_err": lr[0]["err"]}}
    m = lr[0]["ok"]
    mc, mr = Q.decf(m["center"]), float(F(m["radius"]))
    tol = LOOSE * (1 + mr)
    if not (np.all(np.abs(np.array(obs["c"]) - mc) <= tol) and abs(obs["r"] - mr) <= tol):
        return {"expected": {"center": mc.tolist(), "radius": mr}, "observed": obs, "tags": {"what": "center/radius", "model": inp["model"]}}
    th = np.array(obs["th"]) * (math.pi / 180 if inp["degrees"] else 1.0)
    dirs = Q.decf(m["dirs"])
    got = np.stack([mr * np.cos(th), mr * np.sin(th)], axis=-1)
    if not np.all(np.abs(got - dirs) <= 10 * tol):
        return {"expected": {"dirs": dirs.tolist()}, "observed": got.tolist(),
                "tags": {"what": "angles", "model": inp["model"], "degrees": inp["degrees"]}}
    return None


def gen_sphere(rng, n):
    for _ in range(n):
        dim = rng.choice([2, 3, 3, 4, 4])
        k = rng.randint(2, dim)
        while True:
            ks, m = ideal_config(rng, dim, k)
            # keep the subspace away from the half-space point at infinity (1,0,..,0): |e - c|^2 - r^2 = 2 - 2 m_0/|m|^2
            if abs(1 - m[0] / sum(x * x for x in m)) >= F(1, 10):
                break
        sc = [G.rscale(rng) for _ in ks]
        yield {"dim": dim, "k": k, "ks": [G.qv(x) for x in ks], "scale": G.qv(sc), "kind": rng.choice(["subspace", "geodesic"] if k == 2 else ["subspace"])}


def _basis(inp):
    return np.array([[float(F(s))] + [float(F(s)) * float(F(x)) for x in row] for row, s in zip(inp["ks"], inp["scale"])])


def run_sphere(inp):
    data = _basis(inp)
    obj = H.Subspace(data) if inp["kind"] == "subspace" else H.Geodesic(H.Point(data[0]), H.Point(data[1]))
    pc, pr = obj.sphere_parameters("poincare")
    hc, hr = obj.sphere_parameters("halfspace")
    return {"pc": np.array(pc, dtype=float).tolist(), "pr": float(pr), "hc": np.array(hc, dtype=float).tolist(), "hr": float(hr)}


def lean_sphere(inp, obs):
    ks = [[F(x) for x in row] for row in inp["ks"]]
    hs = [p2hF(x) for x in ks]
    return [{"op": "c14.sphere_poincare", "k": inp["k"], "n": inp["dim"], "ks": inp["ks"], "lam": G.qv(foot_lambda(ks))},
            {"op": "c14.sphere_halfspace", "k": inp["k"], "n": inp["dim"], "hs": [G.qv(x) for x in hs], "lam": G.qv(circum_lambda(hs))}]


def judge_sphere(inp, obs, lr):
    tags = {"call_site": "Subspace.sphere_parameters", "k_ge_3": inp["k"] >= 3, "k": inp["k"], "dim": inp["dim"]}
    if "exc" in obs:
        return exc(obs, "sphere parameters", tags)
    e = drv_err(lr, allow=())
    if e:
        return e
    p, h = lr[0]["ok"], lr[1]["ok"]
    if not (p["contract"] and h["contract"]):
        return {"expected": "harness-computed pinv results satisfy the contract", "observed": [p["contract"], h["contract"]], "tags": {"harness": True}}
    mc, mr = Q.decf(p["center"]), float(F(p["radius"]))
    tol = LOOSE * (1 + mr)
    ks = np.array([[float(F(x)) for x in row] for row in inp["ks"]])
    if not (np.all(np.abs(np.array(obs["pc"]) - mc) <= tol) and abs(obs["pr"] - mr) <= tol):
        pf = bool(np.max(np.abs(np.linalg.norm(ks - np.array(obs["pc"]), axis=-1) - obs["pr"])) > 1e-5 * (1 + obs["pr"]))
        return {"expected": {"center": mc.tolist(), "radius": mr}, "observed": [obs["pc"], obs["pr"]], "tags": dict(tags, model="poincare"),
                "property_failure": pf}
    hc, hr2 = Q.decf(h["center"]), float(F(h["rad_sq"]))
    tol = LOOSE * (1 + math.sqrt(hr2)) * (1 + float(np.max(np.abs(hc))))
    if not (np.all(np.abs(np.array(obs["hc"]) - hc) <= tol) and abs(obs["hr"] - math.sqrt(hr2)) <= tol):
        hs = np.array([[float(x) for x in p2hF([F(y) for y in row])] for row in inp["ks"]])
        pf = bool(np.max(np.abs(np.linalg.norm(hs - np.array(obs["hc"]), axis=-1) - obs["hr"])) > 1e-5 * (1 + obs["hr"]))
        return {"expected": {"center": hc.tolist(), "radius": math.sqrt(hr2)}, "observed": [obs["hc"], obs["hr"]],
                "tags": dict(tags, model="halfspace"), "property_failure": pf}
    return None


def gen_horo(rng, n):
    for _ in range(n):
        dim = rng.choice([2, 3, 4])
        while True:
            k = Q.rsphere(rng, dim)
            if k[0] < F(9, 10):
                break
        p = Q.rball(rng, dim)
        yield {"dim": dim, "ideal": G.qv(k), "ref": G.qv(p), "s1": Q.qs(G.rscale(rng)), "s2": Q.qs(G.rscale(rng))}


def _horo(inp):
    k = [F(x) for x in inp["ideal"]]
    p = [F(x) for x in inp["ref"]]
    a = sum(x * x for x in p)
    s1, s2 = F(inp["s1"]), F(inp["s2"])
    c = np.array([float(s1)] + [float(s1 * x) for x in k])
    r = np.array([float(s2 * (1 + a))] + [float(s2 * 2 * x) for x in p])
    return c, r


def run_horo(inp):
    c, r = _horo(inp)
    hs = H.Horosphere(H.IdealPoint(c), H.Point(r))
    pc, pr = hs.sphere_parameters("poincare")
    hc, hr = hs.sphere_parameters("halfspace")
    return {"pc": np.array(pc, dtype=float).tolist(), "pr": float(pr), "hc": np.array(hc, dtype=float).tolist(), "hr": float(hr)}


def lean_horo(inp, obs):
    return [{"op": "c14.horo", "ideal": inp["ideal"], "ref": inp["ref"]}]


def judge_horo(inp, obs, lr):
    if "exc" in obs:
        return exc(obs, "horosphere parameters")
    e = drv_err(lr, allow=())
    if e:
        return e
    m = lr[0]["ok"]
    if not (close(obs["pc"], Q.decf(m["p_center"]), LOOSE) and abs(obs["pr"] - float(F(m["p_radius"]))) <= LOOSE):
        return {"expected": {"center": m["p_center"], "radius": m["p_radius"]}, "observed": [obs["pc"], obs["pr"]], "tags": {"model": "poincare"}}
    if m["h_center"] is not None:
        hr = float(F(m["h_radius"]))
        tol = LOOSE * (1 + hr) * (1 + float(np.max(np.abs(Q.decf(m["h_center"])))))
        if not (np.all(np.abs(np.array(obs["hc"]) - Q.decf(m["h_center"])) <= tol) and abs(obs["hr"] - hr) <= tol):
            return {"expected": {"center": m["h_center"], "radius": m["h_radius"]}, "observed": [obs["hc"], obs["hr"]], "tags": {"model": "halfspace"}}
    return None


def gen_arc(rng, n):
    for _ in range(n):
        kind = rng.choice(["short", "r2l", "horo"])
        def d():
            c = rng.choice([0, 0, 1, -1, 2, -3, 5, -7])
            s = rng.choice([0, 1, -1, 2, -2, 4, -5])
            return (c, s) if (c, s) != (0, 0) else (1, 0)
        u, v, ref = d(), d(), d()
        if rng.random() < 0.15:
            v = (-u[0], -u[1])
        if rng.random() < 0.1:
            v = (2 * u[0], 2 * u[1])
        if kind == "r2l":
            # directions of equal length (points of one circle): use rational unit vectors
            a, b = Q.rrot(rng), Q.rrot(rng)
            yield {"kind": kind, "u": G.qv(a), "v": G.qv(b), "ref": None}
        else:
            yield {"kind": kind, "u": G.qv(u), "v": G.qv(v), "ref": G.qv(ref)}


def run_arc(inp):
    u, v = G.fv(inp["u"]), G.fv(inp["v"])
    th = np.array([math.atan2(u[1], u[0]), math.atan2(v[1], v[0])])
    if inp["kind"] == "short":
        out = utils.short_arc(th)
    elif inp["kind"] == "r2l":
        out = utils.right_to_left(th)
    else:
        r = G.fv(inp["ref"])
        out = np.flip(utils.arc_include(th, np.array(math.atan2(r[1], r[0]))), axis=-1)
    return {"th": np.array(out, dtype=float).tolist(), "in": th.tolist()}


def lean_arc(inp, obs):
    op = {"op": "c14.arc", "kind": inp["kind"], "u": inp["u"], "v": inp["v"]}
    if inp["ref"] is not None:
        op["ref"] = inp["ref"]
    return [op]


def judge_arc(inp, obs, lr):
    if "exc" in obs:
        return exc(obs, "angles")
    e = drv_err(lr, allow=())
    if e:
        return e
    dirs = Q.decf(lr[0]["ok"])
    th = np.array(obs["th"])
    for t, d in zip(th, dirs):
        if abs(math.cos(t) - d[0] / np.linalg.norm(d)) > 1e-9 or abs(math.sin(t) - d[1] / np.linalg.norm(d)) > 1e-9:
            u, v = G.fv(inp["u"]), G.fv(inp["v"])
            # ties (equal angles, difference exactly pi, reference on an endpoint) are decided by rounding: not compared
            cr = u[0] * v[1] - u[1] * v[0]
            if abs(cr) < 1e-12:
                return None
            if inp["kind"] == "horo":
                r = G.fv(inp["ref"])
                if abs(u[0] * r[1] - u[1] * r[0]) < 1e-12 and np.dot(u, r) > 0 or abs(v[0] * r[1] - v[1] * r[0]) < 1e-12 and np.dot(v, r) > 0:
                    return None
            if inp["kind"] == "r2l" and abs(u[0] - v[0]) < 1e-12:
                return None
            return {"expected": {"order": dirs.tolist()}, "observed": th.tolist(), "tags": {"kind": inp["kind"]}}
    return None


# ================================================================== oracles
def _d(a, b):
    """d(a, b), measured on copies: the measurement must not touch the objects under test (Point.distance may or may
    not rescale the stored coordinates of its arguments; nothing promises either)"""
    a = H.Point(np.array(a.proj_data, dtype=float).copy())
    b = H.Point(np.array(b.proj_data, dtype=float).copy())
    return float(np.asarray(a.distance(b)).reshape(-1)[0])


def gen_o_segment(rng, n):
    for i in range(n):
        dim = rng.choice([2, 2, 2, 3, 4])
        kind = rng.choice(["segment", "segment", "geodesic", "near_origin", "scaled", "through_origin", "ideal_segment", "ideal_segment"])
        if kind == "near_origin":
            # a segment whose line passes at Klein distance eps from the origin
            eps = 10 ** rng.uniform(-2.0, -0.7)
            d = np.array(G.fsphere(rng, dim))
            nrm = np.array(G.fsphere(rng, dim))
            nrm = nrm - np.dot(nrm, d) * d
            nrm /= np.linalg.norm(nrm)
            a, b = rng.uniform(-0.8, -0.1), rng.uniform(0.1, 0.8)
            k1, k2 = (eps * nrm + a * d).tolist(), (eps * nrm + b * d).tolist()
        elif kind == "through_origin":
            d = np.array(G.fsphere(rng, dim))
            k1, k2 = (rng.uniform(-0.8, -0.1) * d).tolist(), (rng.uniform(0.1, 0.8) * d).tolist()
        elif kind == "ideal_segment":
            # a Segment object one or both of whose endpoints are ideal (0, 1 and 2 ideal endpoints are all segments);
            # mostly in the plane, where the arc itself is reported
            if rng.random() < 0.7:
                dim = 2
            while True:
                e1, e2 = np.array(G.fsphere(rng, dim)), np.array(G.fsphere(rng, dim))
                if np.linalg.norm(e1 - e2) > 0.3 and np.linalg.norm(e1 + e2) > 0.3 and e1[0] < 0.8 and e2[0] < 0.8:
                    break
            t = rng.uniform(0.15, 0.85)
            k1, k2 = rng.choice([(e1, e2), (e1, e2), (e1, t * e1 + (1 - t) * e2), (t * e1 + (1 - t) * e2, e2)])
            k1, k2 = np.array(k1).tolist(), np.array(k2).tolist()
        elif kind == "geodesic":
            while True:
                k1, k2 = G.fsphere(rng, dim), G.fsphere(rng, dim)
                if np.linalg.norm(np.array(k1) - np.array(k2)) > 0.2 and np.linalg.norm(np.array(k1) + np.array(k2)) > 0.2 \
                        and k1[0] < 0.9 and k2[0] < 0.9:
                    break
        else:
            while True:
                k1, k2 = G.fball(rng, dim, 0.95), G.fball(rng, dim, 0.95)
                mid = (np.array(k1) + np.array(k2)) / 2
                if np.linalg.norm(np.array(k1) - np.array(k2)) > 0.05:
                    break
        yield {"dim": dim, "kind": kind, "k1": k1, "k2": k2, "model": rng.choice(["poincare", "halfspace"]),
               "s": [rng.choice([-1, 1]) * rng.uniform(0.3, 3) for _ in range(2)]}


def _ends_err(pts, e):
    """distance between the two ends of the sampled arc and the two endpoints, as unordered pairs"""
    p0, p1, e0, e1 = np.array(pts[0]), np.array(pts[-1]), np.array(e[0]), np.array(e[1])
    return float(min(max(np.abs(p0 - e0).max(), np.abs(p1 - e1).max()), max(np.abs(p0 - e1).max(), np.abs(p1 - e0).max())))


def _arc_points(c, r, th, cnt=7):
    t0, t1 = th
    while t1 < t0:
        t1 += 2 * math.pi
    ts = np.linspace(t0, t1, cnt)
    return np.stack([c[0] + r * np.cos(ts), c[1] + r * np.sin(ts)], axis=-1), t1 - t0


def run_o_segment(inp):
    dim, model = inp["dim"], inp["model"]
    k1, k2 = np.array(inp["k1"]), np.array(inp["k2"])
    P1, P2 = H.Point(k1, model="klein"), H.Point(k2, model="klein")
    if inp["kind"] == "scaled":
        P1, P2 = H.Point(P1.proj_data * inp["s"][0]), H.Point(P2.proj_data * inp["s"][1])
    if inp["kind"] == "geodesic":
        obj = H.Geodesic(H.IdealPoint(P1.proj_data.copy()), H.IdealPoint(P2.proj_data.copy()))
        ideal = np.array(obj.ideal_basis, dtype=float)
    else:
        obj = H.Segment(P1, P2)
        ideal = np.array(obj.ideal_basis, dtype=float)
    out = {"null": [float(abs(G.mink(a, a)) / np.dot(a, a)) for a in ideal]}
    # collinear in Klein: ideal endpoints' Klein coordinates on the line through k1, k2
    ik = np.array(obj.ideal_basis_coords("klein"), dtype=float)
    dvec = (k2 - k1) / np.linalg.norm(k2 - k1)
    out["collinear"] = [float(np.linalg.norm((x - k1) - np.dot(x - k1, dvec) * dvec)) for x in ik]
    out["ideal_norm"] = [float(abs(np.dot(x, x) - 1)) for x in ik]
    c, r = obj.sphere_parameters(model)
    c, r = np.array(c, dtype=float), float(r)
    if inp["kind"] == "through_origin" and model == "poincare":
        out["r"] = r
        return out
    e = np.array(obj.endpoint_coords(model), dtype=float)
    out["r"] = r
    out["cmax"] = float(np.max(np.abs(c)))
    out["pole"] = float(max(x[0] for x in ik))
    out["on_sphere"] = [float(abs(np.linalg.norm(x - c) - r)) for x in e]
    out["orth"] = float(abs(np.dot(c, c) - 1 - r * r) / (1 + r)) if model == "poincare" else float(abs(c[-1]))
    if dim == 2:
        cd, rd, thd = obj.circle_parameters(degrees=True, model=model)
        cr, rr, thr = obj.circle_parameters(degrees=False, model=model)
        thd, thr = np.array(thd, dtype=float), np.array(thr, dtype=float)
        out["deg_rad"] = float(np.max(np.abs(thd * math.pi / 180 - thr)))
        pts, extent = _arc_points(np.array(cr, dtype=float), float(rr), thr)
        out["extent"] = float(extent)
        out["arc_ends"] = _ends_err(pts, e)
        if model == "poincare":
            out["inside"] = float(max(np.linalg.norm(p) for p in pts) - 1)
        else:
            out["inside"] = float(-min(p[1] for p in pts))
        # the sampled arc on the Klein chord between the endpoints (for every kind; the only test of "the arc IS the segment"
        # when an endpoint is ideal and distances are infinite)
        worst = 0.0
        dv = k2 - k1
        for p in pts[1:-1]:
            kp = np.array(H.Point(p, model=model).coords("klein"), dtype=float)
            tpar = float(np.dot(kp - k1, dv) / np.dot(dv, dv))
            worst = max(worst, float(np.linalg.norm(kp - k1 - tpar * dv)), -tpar, tpar - 1)
        out["on_chord"] = worst
        if inp["kind"] not in ("geodesic", "ideal_segment"):
            tot = _d(P1, P2)
            worst = 0.0
            for p in pts[1:-1]:
                X = H.Point(p, model=model)
                worst = max(worst, abs(_d(P1, X) + _d(X, P2) - tot))
            out["on_segment"] = worst
            out["tot"] = tot
    return out


def judge_o_segment(inp, obs, lr):
    tags = {"kind": inp["kind"], "model": inp["model"], "dim": inp["dim"]}
    if "exc" in obs:
        return {"expected": "parameters", "observed": obs, "tags": dict(tags, exc=obs["exc"])}
    r = obs["r"]
    if inp["kind"] == "through_origin" and inp["model"] == "poincare":
        # a diameter of the Poincare ball: the straight-line limit, reported as an infinite / astronomically large circle
        if not (max(obs["null"]) <= 1e-9 and max(obs["collinear"]) <= 1e-7 and (not math.isfinite(r) or r > 1e6)):
            return {"expected": "straight-line limit: radius infinite or > 1e6", "observed": obs, "tags": dict(tags, what="straight")}
        return None
    if inp["model"] == "halfspace" and obs["pole"] > 0.8:
        return None     # an ideal endpoint close to the half-space point at infinity: outside the property's quantifier
    tol = LOOSE * (1 + r) * (1 + r if inp["kind"] == "near_origin" else 1) * (1 + obs["cmax"])
    if not max(obs["null"]) <= 1e-9:
        return {"expected": "ideal endpoints lightlike", "observed": obs["null"], "tags": dict(tags, what="null")}
    if not (max(obs["collinear"]) <= 1e-7 and max(obs["ideal_norm"]) <= 1e-7):
        return {"expected": "ideal endpoints on the Klein line through the endpoints, on the unit sphere", "observed": [obs["collinear"], obs["ideal_norm"]],
                "tags": dict(tags, what="collinear")}
    if not (math.isfinite(r) and max(obs["on_sphere"]) <= tol):
        return {"expected": "endpoints on the reported sphere", "observed": obs, "tags": dict(tags, what="through")}
    if not obs["orth"] <= tol:
        return {"expected": "sphere orthogonal to the boundary", "observed": obs["orth"], "tags": dict(tags, what="orthogonal")}
    if inp["dim"] == 2:
        if not obs["deg_rad"] <= 1e-9:
            return {"expected": "degrees = radians * 180/pi", "observed": obs["deg_rad"], "tags": dict(tags, what="degrees")}
        if not obs["arc_ends"] <= 10 * tol:
            return {"expected": "arc ends are the endpoints", "observed": obs["arc_ends"], "tags": dict(tags, what="arc_ends")}
        if not (obs["inside"] <= 10 * tol and obs["extent"] <= math.pi + 1e-6):
            return {"expected": "counter-clockwise arc between the angles lies inside the model", "observed": obs,
                    "tags": dict(tags, what="inside")}
        if inp["kind"] != "geodesic" and "on_chord" in obs and not obs["on_chord"] <= 1e-5 * (1 + r):
            return {"expected": "arc points on the Klein chord between the two endpoints", "observed": obs["on_chord"],
                    "tags": dict(tags, what="on_chord")}
        if "on_segment" in obs and not obs["on_segment"] <= 1e-5 * (1 + obs["tot"]) * (1 + r):
            return {"expected": "arc points on the hyperbolic segment (d(p,x)+d(x,q)=d(p,q))", "observed": obs["on_segment"],
                    "tags": dict(tags, what="on_segment")}
    return None


def gen_o_horo(rng, n):
    for _ in range(n):
        dim = rng.choice([2, 2, 3, 4])
        while True:
            k = G.fsphere(rng, dim)
            if k[0] < 0.9:
                break
        yield {"dim": dim, "ideal": k, "ref": G.fball(rng, dim, 0.95), "t": [rng.uniform(0, 2 * math.pi) for _ in range(2)],
               "s": [rng.choice([-1, 1]) * rng.uniform(0.3, 3) for _ in range(2)], "degrees": rng.random() < 0.5}


def run_o_horo(inp):
    dim = inp["dim"]
    k = np.array(inp["ideal"])
    c = H.IdealPoint(np.concatenate([[1.0], k]) * inp["s"][0])
    ref = H.Point(H.Point(np.array(inp["ref"]), model="klein").proj_data * inp["s"][1])
    hs = H.Horosphere(c, ref)
    out = {}
    for model in ("poincare", "halfspace"):
        ctr, rad = hs.sphere_parameters(model)
        ctr, rad = np.array(ctr, dtype=float), float(rad)
        rc = np.array(H.Point(ref.proj_data.copy()).coords(model), dtype=float)
        ic = np.array(H.Point(c.proj_data.copy()).coords(model), dtype=float)
        out[model] = {"rad": rad, "through": float(abs(np.linalg.norm(rc - ctr) - rad)),
                      "touch": float(abs(np.linalg.norm(ic - ctr) - rad)),
                      "tangent": float(abs(np.linalg.norm(ctr) + rad - 1)) if model == "poincare" else float(abs(ctr[-1] - rad))}
    if dim == 2:
        ctr, rad = hs.sphere_parameters("poincare")
        ctr, rad = np.array(ctr, dtype=float), float(rad)
        t0 = math.atan2(k[1], k[0])
        ps = [ctr + rad * np.array([math.cos(t0 + 0.6 + t * (2 * math.pi - 1.2) / (2 * math.pi)),
                                    math.sin(t0 + 0.6 + t * (2 * math.pi - 1.2) / (2 * math.pi))]) for t in inp["t"]]
        arc = H.HorosphereArc(H.IdealPoint(c.proj_data.copy()), H.Point(ps[0], model="poincare"), H.Point(ps[1], model="poincare"))
        for model in ("poincare", "halfspace"):
            ac, ar, th = arc.circle_parameters(model=model, degrees=inp["degrees"])
            th = np.array(th, dtype=float) * (math.pi / 180 if inp["degrees"] else 1.0)
            ac, ar = np.array(ac, dtype=float), float(ar)
            pts, extent = _arc_points(ac, ar, th, 9)
            e = np.array(arc.endpoint_coords(model), dtype=float)
            ic = np.array(H.Point(c.proj_data.copy()).coords(model), dtype=float)
            out["arc_" + model] = {"ends": _ends_err(pts, e),
                                   "min_to_ideal": float(min(np.linalg.norm(p - ic) for p in pts)),
                                   "end_to_ideal": float(min(np.linalg.norm(x - ic) for x in e)), "rad": ar}
    return out


def judge_o_horo(inp, obs, lr):
    if "exc" in obs:
        return {"expected": "parameters", "observed": obs, "tags": {"exc": obs["exc"]}}
    for model in ("poincare", "halfspace"):
        o = obs[model]
        tol = LOOSE * (1 + o["rad"]) ** 2
        if not (o["through"] <= tol and o["touch"] <= tol and o["tangent"] <= tol):
            return {"expected": "sphere through the reference point, tangent to the boundary at the centre", "observed": o, "tags": {"model": model}}
        a = obs.get("arc_" + model)
        if a is not None:
            if not a["ends"] <= 10 * tol:
                return {"expected": "arc ends are the endpoints", "observed": a, "tags": {"model": model, "what": "arc_ends"}}
            # the reported arc must be the one that avoids the ideal centre: no sample closer to it than the nearer endpoint
            if not a["min_to_ideal"] >= a["end_to_ideal"] - 10 * tol:
                return {"expected": "arc does not pass through the ideal centre", "observed": a, "tags": {"model": model, "what": "arc_side"}}
    return None


def gen_o_subspace(rng, n):
    for _ in range(n):
        dim = rng.choice([2, 3, 3, 4, 4])
        k = rng.randint(2, dim)
        shape = rng.choice([[], [], [2], [3]])
        cnt = int(np.prod(shape)) if shape else 1
        units = []
        for _ in range(cnt):
            while True:
                ks = [G.fsphere(rng, dim) for _ in range(k)]
                A = np.array(ks)
                T = A[1:] - A[0]
                if np.linalg.svd(T, compute_uv=False)[-1] > 0.3 and np.all(A[:, 0] < 0.9):
                    foot = A[0] - A[0] @ np.linalg.pinv(T) @ T
                    cc = foot / np.dot(foot, foot)
                    e0 = np.zeros(dim)
                    e0[0] = 1.0
                    if np.linalg.norm(foot) > 0.1 and abs(np.linalg.norm(e0 - cc) - math.sqrt(np.dot(cc, cc) - 1)) > 0.15:
                        break
            units.append(ks)
        yield {"dim": dim, "k": k, "shape": shape, "ks": units, "s": [rng.choice([-1, 1]) * rng.uniform(0.3, 3) for _ in range(k)]}


def run_o_subspace(inp):
    dim, k, shape = inp["dim"], inp["k"], tuple(inp["shape"])
    A = np.array(inp["ks"]).reshape(shape + (k, dim))
    s = np.array(inp["s"]).reshape((k, 1))
    # representatives on one sheet (positive multiples of (1,k)): the midpoint construction of _data_with_dual needs that
    data = np.concatenate([np.ones(shape + (k, 1)), A], axis=-1) * np.abs(s)
    S = H.Subspace(data)
    out = {}
    for model in ("poincare", "halfspace"):
        c, r = S.sphere_parameters(model)
        c, r = np.array(c, dtype=float), np.array(r, dtype=float)
        ib = np.array(S.ideal_basis_coords(model), dtype=float)
        if c.shape != shape + (dim,) or r.shape != shape:
            out[model] = {"shape": [list(c.shape), list(r.shape)]}
            continue
        res = np.abs(np.linalg.norm(ib - np.expand_dims(c, -2), axis=-1) - np.expand_dims(r, -1))
        orth = np.abs((c ** 2).sum(-1) - 1 - r ** 2) / (1 + r) if model == "poincare" else np.abs(c[..., -1])
        out[model] = {"res": float(np.max(res / (1 + np.expand_dims(r, -1)))), "orth": float(np.max(orth / (1 + r))), "rmax": float(np.max(r))}
    return out


def judge_o_subspace(inp, obs, lr):
    tags = {"call_site": "Subspace.sphere_parameters", "k_ge_3": inp["k"] >= 3, "k": inp["k"], "dim": inp["dim"]}
    if "exc" in obs:
        return {"expected": "parameters", "observed": obs, "tags": dict(tags, exc=obs["exc"])}
    for model in ("poincare", "halfspace"):
        o = obs[model]
        if "shape" in o:
            return {"expected": "one centre and radius per subspace", "observed": o, "tags": dict(tags, model=model, what="shape")}
        if not (o["res"] <= 1e-5 and o["orth"] <= 1e-5):
            return {"expected": "sphere contains the ideal points and is orthogonal to the boundary", "observed": o,
                    "tags": dict(tags, model=model)}
    return None


# ---- composite (array-valued) segments and geodesics: every unit of the array must satisfy the property ---------------
def gen_o_composite(rng, n):
    for _ in range(n):
        dim = rng.choice([2, 2, 2, 3, 4])
        kind = rng.choice(["segment", "geodesic", "geodesic"])
        shape = rng.choice([[2], [3], [5], [8], [2, 3]])
        cnt = int(np.prod(shape))
        # "wrap": most units have the arc crossing angle 0 as seen from the circle centre (centre on the negative
        # x-side, ideal endpoints around angle pi), the boundary case of the angle normalisation
        mode = rng.choice(["random", "wrap", "mixed"])
        units = []
        for j in range(cnt):
            wrap = mode == "wrap" or (mode == "mixed" and rng.random() < 0.5)
            while True:
                if wrap:
                    mid = math.pi + rng.uniform(-0.5, 0.5)
                    half = rng.uniform(0.3, 1.2)
                    e1 = [math.cos(mid - half), math.sin(mid - half)] + [0.0] * (dim - 2)
                    e2 = [math.cos(mid + half), math.sin(mid + half)] + [0.0] * (dim - 2)
                    if dim > 2:
                        jit = np.array([0.0, 0.0] + [rng.uniform(-0.3, 0.3) for _ in range(dim - 2)])
                        e1 = ((np.array(e1) + jit) / np.linalg.norm(np.array(e1) + jit)).tolist()
                        e2 = ((np.array(e2) - jit) / np.linalg.norm(np.array(e2) - jit)).tolist()
                else:
                    e1, e2 = G.fsphere(rng, dim), G.fsphere(rng, dim)
                a1, a2 = np.array(e1), np.array(e2)
                if np.linalg.norm(a1 - a2) < 0.3 or np.linalg.norm(a1 + a2) < 0.3 or a1[0] > 0.8 or a2[0] > 0.8:
                    continue
                break
            if kind == "segment":
                t1, t2 = sorted([rng.uniform(0.08, 0.92), rng.uniform(0.08, 0.92)])
                if t2 - t1 < 0.1:
                    t1, t2 = 0.2, 0.8
                if rng.random() < 0.5:
                    t1, t2 = t2, t1
                k1 = (t1 * a1 + (1 - t1) * a2).tolist()
                k2 = (t2 * a1 + (1 - t2) * a2).tolist()
            else:
                k1, k2 = e1, e2
                if rng.random() < 0.5:
                    k1, k2 = k2, k1
            units.append([k1, k2])
        yield {"dim": dim, "kind": kind, "shape": shape, "units": units, "degrees": rng.random() < 0.5, "mode": mode}


def run_o_composite(inp):
    dim, shape = inp["dim"], tuple(inp["shape"])
    U = np.array(inp["units"]).reshape(shape + (2, dim))
    P1 = H.Point(U[..., 0, :].copy(), model="klein")
    P2 = H.Point(U[..., 1, :].copy(), model="klein")
    if inp["kind"] == "geodesic":
        obj = H.Geodesic(H.IdealPoint(P1.proj_data.copy()), H.IdealPoint(P2.proj_data.copy()))
    else:
        obj = H.Segment(P1, P2)
    out = {"shape_ok": list(obj.shape) == list(shape), "units": []}
    flatU = U.reshape((-1, 2, dim))
    for model in ("poincare", "halfspace"):
        c, r = obj.sphere_parameters(model)
        c, r = np.array(c, dtype=float).reshape((-1, dim)), np.array(r, dtype=float).reshape(-1)
        e = np.array(obj.endpoint_coords(model), dtype=float).reshape((-1, 2, dim))
        th = None
        if dim == 2:
            _, _, th = obj.circle_parameters(degrees=inp["degrees"], model=model)
            th = np.array(th, dtype=float).reshape((-1, 2)) * (math.pi / 180 if inp["degrees"] else 1.0)
        for j in range(len(flatU)):
            rec = {"model": model, "j": j, "r": float(r[j]), "cmax": float(np.max(np.abs(c[j]))),
                   "on_sphere": float(max(abs(np.linalg.norm(x - c[j]) - r[j]) for x in e[j])),
                   "orth": float(abs(np.dot(c[j], c[j]) - 1 - r[j] ** 2) / (1 + r[j])) if model == "poincare" else float(abs(c[j][-1]))}
            # the same unit on its own must report the same circle (composite = array of its units)
            if dim == 2:
                pts, extent = _arc_points(c[j], float(r[j]), th[j])
                rec["extent"] = float(extent)
                rec["arc_ends"] = _ends_err(pts, e[j])
                rec["inside"] = float(max(np.linalg.norm(q) for q in pts) - 1) if model == "poincare" else float(-min(q[1] for q in pts))
                if inp["kind"] == "segment":
                    A, B = H.Point(flatU[j, 0].copy(), model="klein"), H.Point(flatU[j, 1].copy(), model="klein")
                    tot = _d(A, B)
                    rec["on_segment"] = float(max(abs(_d(A, H.Point(q, model=model)) + _d(H.Point(q, model=model), B) - tot) for q in pts[1:-1]))
                    rec["tot"] = tot
                # wraps: sorted angles in [0, 2pi) differ by more than pi
                t0, t1 = sorted([(x % (2 * math.pi)) for x in np.arctan2(e[j][:, 1] - c[j][1], e[j][:, 0] - c[j][0])])
                rec["wraps"] = bool(t1 - t0 > math.pi)
            out["units"].append(rec)
    return out


def judge_o_composite(inp, obs, lr):
    tags = {"kind": inp["kind"], "dim": inp["dim"], "composite": True, "count": int(np.prod(inp["shape"]))}
    if "exc" in obs:
        return {"expected": "parameters for every unit", "observed": obs, "tags": dict(tags, exc=obs["exc"])}
    if not obs["shape_ok"]:
        return {"expected": {"shape": inp["shape"]}, "observed": "other shape", "tags": dict(tags, what="shape")}
    nwrap = sum(1 for u in obs["units"] if u.get("wraps") and u["model"] == "poincare")
    for u in obs["units"]:
        t = dict(tags, model=u["model"], wrapping_units=nwrap)
        tol = LOOSE * (1 + u["r"]) * (1 + u["cmax"])
        if not (math.isfinite(u["r"]) and u["on_sphere"] <= tol and u["orth"] <= tol):
            return {"expected": "every unit: endpoints on its sphere, sphere orthogonal to the boundary", "observed": u, "tags": dict(t, what="sphere")}
        if "arc_ends" in u:
            if not (u["arc_ends"] <= 10 * tol and u["inside"] <= 10 * tol and u["extent"] <= math.pi + 1e-6):
                return {"expected": "every unit: its own angles bound the inside arc between its own endpoints", "observed": u, "tags": dict(t, what="arc")}
            if "on_segment" in u and not u["on_segment"] <= 1e-5 * (1 + u["tot"]) * (1 + u["r"]):
                return {"expected": "every unit: arc points on its hyperbolic segment", "observed": u, "tags": dict(t, what="on_segment")}
    return None


# ---- polygons: circle parameters of a polygon are those of its edge segments, and describe the edges ---------------
def gen_o_polygon(rng, n):
    for _ in range(n):
        nv = rng.randint(3, 7)
        shape = rng.choice([[], [], [2], [3]])
        cnt = int(np.prod(shape)) if shape else 1
        polys = []
        for _ in range(cnt):
            if rng.random() < 0.3:
                # regular polygon moved by an isometry
                polys.append({"regular": True, "angle": rng.uniform(0.1, 0.9) * (nv - 2) * math.pi / nv, "g": G.float_iso(rng, 2).tolist()})
            else:
                # star-shaped polygon: vertices at increasing angles around a centre
                ctr = np.array(G.fball(rng, 2, 0.4))
                angs = sorted(rng.uniform(0, 2 * math.pi) for _ in range(nv))
                while min(np.diff(angs + [angs[0] + 2 * math.pi])) < 0.25:
                    angs = sorted(rng.uniform(0, 2 * math.pi) for _ in range(nv))
                polys.append({"regular": False, "klein": [(ctr + rng.uniform(0.15, 0.5) * np.array([math.cos(a), math.sin(a)])).tolist() for a in angs]})
        yield {"nv": nv, "shape": shape, "polys": polys, "model": rng.choice(["poincare", "halfspace"]),
               "degrees": rng.random() < 0.5, "flatten": rng.random() < 0.4}


def run_o_polygon(inp):
    nv, shape = inp["nv"], tuple(inp["shape"])
    data = []
    for pdesc in inp["polys"]:
        if pdesc["regular"]:
            P = H.Polygon.regular_polygon(nv, angle=pdesc["angle"])
            data.append(np.array((H.Isometry(np.array(pdesc["g"])) @ P.get_vertices()).proj_data, dtype=float))
        else:
            data.append(np.array(H.Point(np.array(pdesc["klein"]), model="klein").proj_data, dtype=float))
    V = np.array(data).reshape(shape + (nv, 3))
    poly = H.Polygon(V.copy())
    model = inp["model"]
    c, r, th = poly.circle_parameters(degrees=inp["degrees"], model=model, flatten=inp["flatten"])
    ce, re_, the = H.Polygon(V.copy()).get_edges().circle_parameters(degrees=inp["degrees"], model=model)
    c, r, th = np.array(c, dtype=float), np.array(r, dtype=float), np.array(th, dtype=float)
    want_shape = ((int(np.prod(shape)) if shape else 1) * nv,) if inp["flatten"] else shape + (nv,)
    out = {"shape_ok": list(r.shape) == list(want_shape), "shapes": [list(c.shape), list(r.shape), list(th.shape)]}
    if not out["shape_ok"]:
        return out
    c, r, th = c.reshape((-1, 2)), r.reshape(-1), th.reshape((-1, 2)) * (math.pi / 180 if inp["degrees"] else 1.0)
    out["edges_same"] = float(max(np.abs(c - np.array(ce, dtype=float).reshape((-1, 2))).max(), np.abs(r - np.array(re_, dtype=float).reshape(-1)).max()))
    Vf = V.reshape((-1, nv, 3))
    worst = {"ends": 0.0, "inside": -1.0, "on_segment": 0.0, "rmax": float(np.max(r))}
    j = 0
    for poly_v in Vf:
        for i in range(nv):
            A, B = H.Point(poly_v[i].copy()), H.Point(poly_v[(i + 1) % nv].copy())
            e = np.array([np.array(A.coords(model), dtype=float), np.array(B.coords(model), dtype=float)])
            pts, extent = _arc_points(c[j], float(r[j]), th[j])
            scale = (1 + r[j]) * (1 + np.abs(c[j]).max())
            worst["ends"] = max(worst["ends"], _ends_err(pts, e) / scale)
            ins = (max(np.linalg.norm(q) for q in pts) - 1) if model == "poincare" else -min(q[1] for q in pts)
            worst["inside"] = max(worst["inside"], float(ins) / scale)
            tot = _d(A, B)
            worst["on_segment"] = max(worst["on_segment"], max(abs(_d(A, H.Point(q, model=model)) + _d(H.Point(q, model=model), B) - tot) for q in pts[1:-1]) / (scale * (1 + tot)))
            j += 1
    out.update(worst)
    return out


def judge_o_polygon(inp, obs, lr):
    tags = {"nv": inp["nv"], "model": inp["model"], "flatten": inp["flatten"], "composite": bool(inp["shape"]), "call_site": "Polygon.circle_parameters"}
    if "exc" in obs:
        return {"expected": "circle parameters of the edges", "observed": obs, "tags": dict(tags, exc=obs["exc"])}
    if not obs["shape_ok"]:
        return {"expected": "one circle per edge (flattened to one axis when flatten=True)", "observed": obs["shapes"], "tags": dict(tags, what="shape")}
    if inp["model"] == "halfspace" and obs["rmax"] > 50:
        return None      # an edge's geodesic passes close to the half-space point at infinity: outside the property's quantifier
    if not obs["edges_same"] <= 1e-9:
        return {"expected": "polygon circle parameters = those of its edge segments", "observed": obs["edges_same"], "tags": dict(tags, what="edges")}
    if not (obs["ends"] <= 1e-5 and obs["inside"] <= 1e-5 and obs["on_segment"] <= 1e-5):
        return {"expected": "every edge: arc between consecutive vertices, inside the model, on the hyperbolic segment", "observed": obs, "tags": dict(tags, what="arc")}
    return None


# ---- composite horospheres and horosphere arcs -------------------------------------------------------------------
def gen_o_horo_comp(rng, n):
    for _ in range(n):
        dim = rng.choice([2, 2, 3, 4])
        k = rng.choice([2, 3, dim, dim + 1, 5])
        units = []
        for _ in range(k):
            while True:
                c = G.fsphere(rng, dim)
                if c[0] < 0.8:
                    break
            units.append({"ideal": c, "ref": G.fball(rng, dim, 0.9), "t": [rng.uniform(0, 2 * math.pi) for _ in range(2)]})
        yield {"dim": dim, "units": units, "degrees": rng.random() < 0.5}


def run_o_horo_comp(inp):
    dim, k = inp["dim"], len(inp["units"])
    C = np.array([[1.0] + u["ideal"] for u in inp["units"]])
    Rf = np.array(H.Point(np.array([u["ref"] for u in inp["units"]]), model="klein").proj_data, dtype=float)
    hs = H.Horosphere(H.IdealPoint(C.copy()), H.Point(Rf.copy()))
    out = {"k": k, "models": {}}
    for model in ("poincare", "halfspace"):
        ctr, rad = hs.sphere_parameters(model)
        ctr, rad = np.array(ctr, dtype=float), np.array(rad, dtype=float)
        if list(ctr.shape) != [k, dim] or list(rad.shape) != [k]:
            out["models"][model] = {"shape": [list(ctr.shape), list(rad.shape)]}
            continue
        rc = np.array(H.Point(Rf.copy()).coords(model), dtype=float)
        ic = np.array(H.Point(C.copy()).coords(model), dtype=float)
        through = np.abs(np.linalg.norm(rc - ctr, axis=-1) - rad)
        touch = np.abs(np.linalg.norm(ic - ctr, axis=-1) - rad)
        tang = np.abs(np.linalg.norm(ctr, axis=-1) + rad - 1) if model == "poincare" else np.abs(ctr[:, -1] - rad)
        out["models"][model] = {"worst": float(np.max(np.maximum(np.maximum(through, touch), tang) / (1 + rad) ** 2))}
    if dim == 2:
        ctr, rad = hs.sphere_parameters("poincare")
        ctr, rad = np.array(ctr, dtype=float), np.array(rad, dtype=float)
        if list(ctr.shape) == [k, 2]:
            P1, P2 = [], []
            for j, u in enumerate(inp["units"]):
                t0 = math.atan2(u["ideal"][1], u["ideal"][0])
                a = [t0 + 0.6 + t * (2 * math.pi - 1.2) / (2 * math.pi) for t in u["t"]]
                P1.append(ctr[j] + rad[j] * np.array([math.cos(a[0]), math.sin(a[0])]))
                P2.append(ctr[j] + rad[j] * np.array([math.cos(a[1]), math.sin(a[1])]))
            arc = H.HorosphereArc(H.IdealPoint(C.copy()), H.Point(np.array(P1), model="poincare"), H.Point(np.array(P2), model="poincare"))
            for model in ("poincare", "halfspace"):
                ac, ar, th = arc.circle_parameters(model=model, degrees=inp["degrees"])
                ac, ar = np.array(ac, dtype=float), np.array(ar, dtype=float)
                th = np.array(th, dtype=float) * (math.pi / 180 if inp["degrees"] else 1.0)
                if list(th.shape) != [k, 2]:
                    out["models"]["arc_" + model] = {"shape": list(th.shape)}
                    continue
                e = np.array(arc.endpoint_coords(model), dtype=float)
                ic = np.array(H.Point(C.copy()).coords(model), dtype=float)
                worst_end, worst_side = 0.0, 0.0
                for j in range(k):
                    pts, _ = _arc_points(ac[j], float(ar[j]), th[j], 9)
                    sc = (1 + ar[j]) ** 2
                    worst_end = max(worst_end, _ends_err(pts, e[j]) / sc)
                    worst_side = max(worst_side, (min(np.linalg.norm(x - ic[j]) for x in e[j]) - min(np.linalg.norm(q - ic[j]) for q in pts)) / sc)
                out["models"]["arc_" + model] = {"ends": worst_end, "side": float(worst_side)}
    return out


def judge_o_horo_comp(inp, obs, lr):
    tags = {"dim": inp["dim"], "k": len(inp["units"]), "composite": True, "square": len(inp["units"]) == inp["dim"]}
    if "exc" in obs:
        return {"expected": "parameters for every horosphere", "observed": obs, "tags": dict(tags, exc=obs["exc"])}
    for name, o in obs["models"].items():
        if "shape" in o:
            return {"expected": "one centre / radius / angle pair per horosphere", "observed": o, "tags": dict(tags, model=name, what="shape")}
        if "worst" in o and not o["worst"] <= 1e-6:
            return {"expected": "every unit: sphere through its reference point, tangent to the boundary at its centre", "observed": o, "tags": dict(tags, model=name)}
        if "ends" in o and not (o["ends"] <= 1e-5 and o["side"] <= 1e-5):
            return {"expected": "every unit: arc between its endpoints avoiding its ideal centre", "observed": o, "tags": dict(tags, model=name, what="arc")}
    return None


# ---- histories: query, then move / overwrite the object, then query again -------------------------------------------
# Every answer must depend only on the object's CURRENT data: after each step the queries are compared with those of a
# fresh object built from a copy of the current data.
H_KINDS = ["segment", "geodesic", "hyperplane", "subspace", "horosphere"]
H_OPS = ["query", "query", "transform", "transform_apply", "setitem", "set", "flatten", "getitem", "copy", "copy", "setitem_copy"]
COPY_WAYS = ["ctor", "flatten", "index", "reshape", "deepcopy"]


def _h_unit(rng, kind, dim):
    if kind == "segment":
        while True:
            k1, k2 = G.fball(rng, dim, 0.9), G.fball(rng, dim, 0.9)
            if np.linalg.norm(np.array(k1) - np.array(k2)) > 0.2 and np.linalg.norm(np.cross(np.array(k1 + [0] * (3 - dim))[:3], np.array(k2 + [0] * (3 - dim))[:3])) > 0.03:
                return [[1.0] + k1, [1.0] + k2]
    if kind == "geodesic":
        while True:
            k1, k2 = G.fsphere(rng, dim), G.fsphere(rng, dim)
            if np.linalg.norm(np.array(k1) - np.array(k2)) > 0.4 and np.linalg.norm(np.array(k1) + np.array(k2)) > 0.4:
                return [[1.0] + k1, [1.0] + k2]
    if kind == "hyperplane":
        while True:
            d = np.array([rng.gauss(0, 0.4)] + [rng.gauss(0, 1) for _ in range(dim)])
            if G.mink(d, d) > 0.4 and abs(d[0]) > 0.05:
                return d.tolist()
    if kind == "subspace":
        while True:
            ks = np.array([G.fsphere(rng, dim) for _ in range(dim)])
            T = ks[1:] - ks[0]
            if np.linalg.svd(T, compute_uv=False)[-1] > 0.4:
                foot = ks[0] - ks[0] @ np.linalg.pinv(T) @ T
                if 0.2 < np.linalg.norm(foot) < 0.9:
                    return [[1.0] + k.tolist() for k in ks]
    if kind == "horosphere":
        return [[1.0] + G.fsphere(rng, dim), [1.0] + G.fball(rng, dim, 0.8)]


def gen_o_hist(rng, n):
    for _ in range(n):
        dim = rng.choice([2, 2, 3])
        kind = rng.choice(H_KINDS)
        cnt = rng.choice([0, 0, 2, 3])          # 0: a single object
        units = [_h_unit(rng, kind, dim) for _ in range(max(cnt, 1))]
        steps = [{"op": "query"}]
        for _ in range(rng.randint(3, 6)):
            op = rng.choice(H_OPS)
            st = {"op": op}
            if op in ("transform", "transform_apply"):
                st["g"] = G.float_iso(rng, dim, k=2, tmax=0.7).tolist()
            elif op in ("setitem", "set"):
                st["unit"] = _h_unit(rng, kind, dim)
                st["i"] = rng.randrange(max(cnt, 1))
            elif op == "getitem":
                st["i"] = rng.randrange(max(cnt, 1))
            elif op == "copy":
                st["way"] = rng.choice(COPY_WAYS)
            elif op == "setitem_copy":
                st["unit"] = _h_unit(rng, kind, dim)
                st["i"] = rng.randrange(max(cnt, 1))
                st["which"] = rng.randrange(4)
            steps.append(st)
        if cnt and rng.random() < 0.6:
            # (iii) a copy (constructor / flatten / index / reshape / deepcopy), then item assignment on the source and on the
            # copy, each followed by queries on both
            steps += [{"op": "copy", "way": rng.choice(COPY_WAYS)}, {"op": "setitem", "unit": _h_unit(rng, kind, dim), "i": rng.randrange(cnt)},
                      {"op": "query"}, {"op": "setitem_copy", "unit": _h_unit(rng, kind, dim), "i": rng.randrange(cnt), "which": 0}]
        steps.append({"op": "query"})
        # G3: calls on an unrelated object of the same class between the steps; extreme homogeneous scale of every unit; float32 data
        for st in steps:
            if rng.random() < 0.4:
                st["other"] = {"unit": _h_unit(rng, kind, dim), "g": G.float_iso(rng, dim, k=2, tmax=0.7).tolist(), "first": rng.random() < 0.5}
        ext = rng.random() < 0.3
        scales = [(rng.choice([-1, 1]) if kind in ("segment", "hyperplane") else 1) * 10 ** (rng.uniform(-12, 12) if ext else rng.uniform(-0.5, 0.5))
                  for _ in range(max(cnt, 1))]
        yield {"dim": dim, "kind": kind, "cnt": cnt, "units": units, "steps": steps, "degrees": rng.random() < 0.5,
               "scales": scales, "f32": (not ext) and rng.random() < 0.15}


def _h_build(kind, data):
    data = np.array(data, dtype=float)
    if kind == "segment":
        return H.Segment(data.copy())
    if kind == "geodesic":
        return H.Geodesic(data.copy())
    if kind == "hyperplane":
        return H.Hyperplane(data.copy())
    if kind == "subspace":
        return H.Subspace(data.copy())
    return H.Horosphere(data.copy())


def _h_fresh(kind, obj):
    """a new object of the same class from a copy of the current data (and nothing else)"""
    cls = {"segment": H.Segment, "geodesic": H.Geodesic, "hyperplane": H.Hyperplane, "subspace": H.Subspace, "horosphere": H.Horosphere}[kind]
    return cls(np.array(obj.proj_data, dtype=float).copy())


def _rows_sorted(a):
    """an ideal basis is an unordered set of points: sort the rows of every unit"""
    a = np.array(a, dtype=float)
    flat = a.reshape((-1,) + a.shape[-2:]).copy()
    for j in range(len(flat)):
        flat[j] = np.array(sorted(np.round(flat[j], 9).tolist()))
    return flat.reshape(a.shape)


def _spoil(*arrs):
    """G2: overwrite in place every array the API handed out"""
    for a in arrs:
        if isinstance(a, np.ndarray) and a.ndim > 0 and a.flags.writeable:
            a[...] = np.nan


def _h_query(kind, obj, dim, degrees, spoil=False, basis=True):
    out = []
    for model in ("poincare", "halfspace"):
        c, r = obj.sphere_parameters(model)
        out += [np.array(c, dtype=float), np.array(r, dtype=float)]
        if spoil:
            _spoil(c, r)
        if kind in ("segment", "geodesic") and dim == 2:
            c2, r2, th = obj.circle_parameters(degrees=degrees, model=model)
            tr = np.array(th, dtype=float) * (math.pi / 180 if degrees else 1.0)
            # angles are compared as directions (an angle of -180 and one of 180 degrees are the same)
            out += [np.array(c2, dtype=float), np.array(r2, dtype=float), np.cos(tr), np.sin(tr)]
            if spoil:
                _spoil(c2, r2, th)
        if kind != "horosphere" and basis:
            ib = obj.ideal_basis_coords(model)
            out.append(_rows_sorted(ib))
            if spoil:
                _spoil(ib)
        if kind == "segment":
            ec = obj.endpoint_coords(model)
            out.append(np.array(ec, dtype=float))
            if spoil:
                _spoil(ec)
    if kind == "segment":
        ie = obj.ideal_endpoint_coords("klein")
        out.append(_rows_sorted(ie))
        if spoil:
            _spoil(ie)
    return out


def _h_same(got, want, tol):
    # values beyond 50 only occur in the half-space model for objects passing close to its point at infinity (outside
    # the property's quantifier; conditioning grows like the square of the value): those arrays are not compared and
    # the other outputs of such an object only to 1e-3
    if len(got) != len(want) or any(a.shape != b.shape for a, b in zip(got, want)):
        return False
    big = any(np.max(np.abs(b)) > 50 or np.max(np.abs(a)) > 50 for a, b in zip(got, want) if a.size)
    if big and tol >= 1e-2:
        return True        # float32 data and close to the point at infinity: nothing reliable to compare
    t = max(tol, 1e-3) if big else tol
    return all(np.max(np.abs(b)) > 50 or np.max(np.abs(a)) > 50 or np.all(np.abs(a - b) <= t * (1 + np.max(np.abs(b))) ** 2)
               for a, b in zip(got, want) if a.size)


def run_o_hist(inp):
    dim, kind, cnt = inp["dim"], inp["kind"], inp["cnt"]
    scales = inp.get("scales") or [1.0] * max(cnt, 1)
    f32 = bool(inp.get("f32"))
    units = [(np.array(u, dtype=float) * sc) for u, sc in zip(inp["units"], scales)]
    data = np.array(units if cnt else units[0])
    if f32:
        data = data.astype(np.float32)
    tol = 5e-2 if f32 else 2e-5     # float32 ideal points are null only to 1e-7, and sqrt of that enters
    if kind == "hyperplane":
        obj = H.Hyperplane(data.copy(), normals_only=True)
    else:
        obj = _h_build(kind, data) if not f32 else {"segment": H.Segment, "geodesic": H.Geodesic, "subspace": H.Subspace, "horosphere": H.Horosphere}[kind](data.copy())
    log = []
    copies = []          # (object, copy of the data it must still have): copies must be independent of their source
    cls = {"segment": H.Segment, "geodesic": H.Geodesic, "hyperplane": H.Hyperplane, "subspace": H.Subspace, "horosphere": H.Horosphere}[kind]
    for k, st in enumerate(inp["steps"]):
        op = st["op"]
        oth = st.get("other")
        if oth is not None and oth["first"]:
            _h_other(kind, dim, oth, inp["degrees"], log, k)
        if op == "copy":
            import copy as _copy
            way = st["way"]
            if way == "ctor":
                c = cls(obj)
            elif way == "flatten":
                c = obj.flatten_to_unit()
            elif way == "index":
                c = obj[...]
            elif way == "reshape" and len(obj.shape) >= 1:
                c = obj.flatten_to_unit()
                c = cls(np.array(c.proj_data).reshape((1,) + np.array(c.proj_data).shape))
            else:
                c = _copy.deepcopy(obj)
            copies.append([c, np.array(c.proj_data).copy(), way])
        elif op == "setitem_copy" and copies:
            c = copies[st["which"] % len(copies)]
            if len(c[0].shape) >= 1:
                new = H.Hyperplane(np.array(st["unit"])) if kind == "hyperplane" else _h_build(kind, st["unit"])
                c[0][(0,) * (len(c[0].shape) - 1) + (st["i"] % c[0].shape[-1],)] = new
                c[1] = np.array(c[0].proj_data).copy()
        if op == "query" and copies:
            # every copy still has the data it had (or was given), and answers like a fresh object with that data
            for c, data0, way in copies:
                same = bool(np.array_equal(np.array(c.proj_data), data0))
                g1 = _h_query(kind, c, dim, inp["degrees"])
                w1 = _h_query(kind, cls(data0.copy()), dim, inp["degrees"])
                if not (same and _h_same(g1, w1, tol)):
                    log.append({"k": k, "op": "copy:" + way, "same_as_fresh": bool(_h_same(g1, w1, tol)), "data_unchanged": same,
                                "stable_after_output_mutation": True, "on_sphere": 0.0})
        if op == "query":
            got = _h_query(kind, obj, dim, inp["degrees"], spoil=True)        # G2: the returned arrays are overwritten ...
            again = _h_query(kind, obj, dim, inp["degrees"])                   # ... which must not change the next answer
            want = _h_query(kind, _h_fresh(kind, obj), dim, inp["degrees"])  # G1: same as a fresh object with the same data
            ok = _h_same(got, want, tol) and _h_same(again, got, 1e-12)
            # the answer also has to be right in itself: the defining points lie on the reported Poincare sphere
            c, r = got[0], got[1]
            if kind == "horosphere":
                pts = np.array(H.Point(np.array(obj.proj_data, dtype=float)[..., 1:, :].copy()).coords("poincare"), dtype=float)
            elif kind == "segment":
                pts = np.array(obj.endpoint_coords("poincare"), dtype=float)
            else:
                pts = np.array(obj.ideal_basis_coords("poincare"), dtype=float)
            res = float(np.max(np.abs(np.linalg.norm(pts - np.expand_dims(c, -2), axis=-1) - np.expand_dims(r, -1)) / (1 + np.expand_dims(r, -1))))
            log.append({"k": k, "op": op, "same_as_fresh": bool(_h_same(got, want, tol)), "stable_after_output_mutation": bool(_h_same(again, got, 1e-12)),
                        "on_sphere": res if not f32 else res / 100})
        elif op == "transform":
            obj = H.Isometry(np.array(st["g"])) @ obj
        elif op == "transform_apply":
            obj = H.Isometry(np.array(st["g"])).apply(obj)
        elif op == "flatten":
            obj = obj.flatten_to_unit()
        elif op == "getitem":
            if cnt and len(obj.shape) >= 1:
                obj = obj[st["i"] % obj.shape[0]:][:2]
        elif op == "setitem":
            if cnt and len(obj.shape) >= 1:
                new = H.Hyperplane(np.array(st["unit"])) if kind == "hyperplane" else _h_build(kind, st["unit"])
                obj[st["i"] % obj.shape[0]] = new
        elif op == "set":
            new = H.Hyperplane(np.array(st["unit"])) if kind == "hyperplane" else _h_build(kind, st["unit"])
            if len(obj.shape) == 0:
                obj.set(np.array(new.proj_data, dtype=float).copy())
        if oth is not None and not oth["first"]:
            _h_other(kind, dim, oth, inp["degrees"], log, k)
    return {"log": log}


def _h_other(kind, dim, oth, degrees, log, k):
    """G3: the same kinds of calls on an unrelated object of the same class (module-level state would leak here)"""
    o = H.Hyperplane(np.array(oth["unit"])) if kind == "hyperplane" else _h_build(kind, oth["unit"])
    g1 = _h_query(kind, o, dim, degrees)
    o2 = H.Isometry(np.array(oth["g"])) @ o
    g2 = _h_query(kind, o2, dim, degrees)
    w2 = _h_query(kind, _h_fresh(kind, o2), dim, degrees)
    if not _h_same(g2, w2, 2e-5):
        log.append({"k": k, "op": "other", "same_as_fresh": False, "stable_after_output_mutation": True, "on_sphere": 0.0})


def judge_o_hist(inp, obs, lr):
    ops = [st["op"] for st in inp["steps"]]
    tags = {"kind": inp["kind"], "dim": inp["dim"], "composite": bool(inp["cnt"])}
    if "exc" in obs:
        return {"expected": "history runs", "observed": obs, "tags": dict(tags, exc=obs["exc"], ops=ops[:7])}
    for e in obs["log"]:
        if not (e["same_as_fresh"] and e.get("data_unchanged", True) and e.get("stable_after_output_mutation", True) and e["on_sphere"] <= 1e-5):
            before = ops[:e["k"]]
            return {"expected": "queries depend only on the current data (same as a fresh object), defining points on the reported sphere", "observed": e,
                    "tags": dict(tags, after=[o for o in before if o != "query"][-2:], queried_before=before.count("query") > 0,
                                 extreme_scale=bool(inp.get("scales")) and max(abs(math.log10(abs(x))) for x in inp["scales"]) > 3, f32=bool(inp.get("f32")))}
    return None


# ---- integer / list-of-int / float32 packagings of every object's data (G4) -------------------------------------------
def _int_unit(rng, kind, dim):
    if kind in ("segment", "polygon"):
        while True:
            rows = [G.int_timelike(rng, dim) for _ in range(2 if kind == "segment" else 3)]
            ks = [np.array(r[1:]) / r[0] for r in rows]
            if all(np.linalg.norm(ks[i] - ks[j]) > 0.15 for i in range(len(ks)) for j in range(i)) and \
                    (kind == "segment" or abs((ks[1] - ks[0])[0] * (ks[2] - ks[0])[1] - (ks[1] - ks[0])[1] * (ks[2] - ks[0])[0]) > 0.05):
                return rows
    if kind == "geodesic":
        while True:
            a, b = G.int_lightlike(rng, dim), G.int_lightlike(rng, dim)
            ka, kb = np.array(a[1:]) / a[0], np.array(b[1:]) / b[0]
            if np.linalg.norm(ka - kb) > 0.4 and np.linalg.norm(ka + kb) > 0.4 and ka[0] < 0.85 and kb[0] < 0.85:
                return [a, b]
    if kind == "hyperplane":
        while True:
            d = G.int_spacelike(rng, dim)
            if d[0] != 0 and any(d[1:]):
                return d
    if kind == "horosphere":
        while True:
            c = G.int_lightlike(rng, dim)
            if c[1] / c[0] < 0.85:
                return [c, G.int_timelike(rng, dim)]


def gen_o_intdata(rng, n):
    for _ in range(n):
        kind = rng.choice(["segment", "segment", "geodesic", "hyperplane", "horosphere", "polygon"])
        dim = 2 if kind == "polygon" else rng.choice([2, 2, 3])
        cnt = rng.choice([0, 0, 2, 3])
        yield {"kind": kind, "dim": dim, "cnt": cnt, "units": [_int_unit(rng, kind, dim) for _ in range(max(cnt, 1))],
               "pack": rng.choice(["int64", "int64", "int32", "list", "float32"]), "via_points": rng.random() < 0.3, "degrees": rng.random() < 0.5}


def run_o_intdata(inp):
    kind, dim, cnt = inp["kind"], inp["dim"], inp["cnt"]
    data = np.array(inp["units"] if cnt else inp["units"][0], dtype=float)
    arg = G.pack_data(data, inp["pack"])

    def build(x, packed):
        if kind == "polygon":
            return H.Polygon(x)
        if kind == "hyperplane":
            return H.Hyperplane(x, normals_only=True)
        if kind == "segment" and packed and inp["via_points"]:
            xa = np.array(x)
            return H.Segment(H.Point(xa[..., 0, :]), H.Point(xa[..., 1, :]))
        return {"segment": H.Segment, "geodesic": H.Geodesic, "horosphere": H.Horosphere}[kind](x)
    # representatives whose difference is lightlike (a = <p1 - p2, p1 - p2> = 0, which integral coordinates hit exactly) are
    # the subject of finding C12-segment-a-zero, not of this clause: the pinned formula divides by a
    if kind in ("segment", "polygon"):
        for u in inp["units"][:max(cnt, 1)]:
            rows = [[int(x) for x in r] for r in u]
            pairs = list(zip(rows, rows[1:] + rows[:1])) if kind == "polygon" else [(rows[0], rows[1])]
            for r0, r1 in pairs:
                df = [x - y for x, y in zip(r0, r1)]
                if -df[0] * df[0] + sum(x * x for x in df[1:]) == 0:
                    return {"skip": True}
    # the float64 object is the reference; degenerate positions that integral coordinates hit exactly (a geodesic through
    # the origin of the Poincare ball, an ideal endpoint at the half-space point at infinity) are not the subject here
    try:
        ref = build(data.copy(), False)
        if kind == "polygon":
            chk = [np.array(a, dtype=float) for m in ("poincare", "halfspace") for a in ref.circle_parameters(degrees=False, model=m)[:2]]
        else:
            chk = _h_query(kind, ref, dim, False)
        if not all(np.all(np.isfinite(a)) and (a.size == 0 or np.max(np.abs(a)) < 50) for a in chk):
            return {"skip": True}
    except np.linalg.LinAlgError:
        return {"skip": True}
    obj = build(arg, True)
    if kind == "polygon":
        q = lambda o: [np.array(a, dtype=float) for m in ("poincare", "halfspace") for a in o.circle_parameters(degrees=inp["degrees"], model=m)[:2]] + \
            [_rows_sorted(np.array(o.get_edges().ideal_endpoint_coords("klein")))]
        got, want = q(obj), q(ref)
        ib = np.array(obj.get_edges().ideal_basis, dtype=float)
        null = float(np.max(np.abs(G.mink(ib, ib)) / np.sum(ib * ib, axis=-1)))
    else:
        # the ideal basis of a hyperplane built from its normal depends on an arbitrary choice of frame: only the sphere is compared
        nb = kind != "hyperplane"
        got, want = _h_query(kind, obj, dim, inp["degrees"], basis=nb), _h_query(kind, ref, dim, inp["degrees"], basis=nb)
        null = 0.0
        if kind == "segment":
            ib = np.array(obj.ideal_basis, dtype=float)
            null = float(np.max(np.abs(G.mink(ib, ib)) / np.sum(ib * ib, axis=-1)))
    tol = 5e-2 if inp["pack"] == "float32" else 1e-9
    return {"same_as_float64": bool(_h_same(got, want, tol)), "null": null, "dtype": str(np.array(obj.proj_data).dtype)}


def judge_o_intdata(inp, obs, lr):
    tags = {"kind": inp["kind"], "dim": inp["dim"], "pack": inp["pack"], "composite": bool(inp["cnt"]), "via_points": inp["via_points"]}
    if "exc" in obs:
        return {"expected": "object built from integral data", "observed": obs, "tags": dict(tags, exc=obs["exc"])}
    if obs.get("skip"):
        return None
    if not (obs["same_as_float64"] and obs["null"] <= (1e-5 if inp["pack"] == "float32" else 1e-9)):
        return {"expected": "same circle / sphere parameters and ideal endpoints as the same values stored as float64; ideal endpoints lightlike",
                "observed": obs, "tags": tags}
    return None

# ---- integer *model* coordinates (wave 6): points given by integral half-space / Klein-lattice coordinates ----------------
def gen_o_intcoords(rng, n):
    for _ in range(n):
        dim = rng.choice([2, 2, 3])
        def pt():
            return [rng.randint(-4, 4) for _ in range(dim - 1)] + [rng.randint(1, 5)]
        while True:
            a, b = pt(), pt()
            if a != b and a[:-1] != b[:-1]:      # (vertical geodesics pass through the half-space point at infinity: excluded)
                break
        yield {"dim": dim, "a": a, "b": b, "pack": rng.choice(["int64", "int32", "list", "pyint_point"]), "kind": rng.choice(["segment", "segment", "horosphere"]),
               "degrees": rng.random() < 0.5}


def run_o_intcoords(inp):
    dim, kind = inp["dim"], inp["kind"]
    def pack(x, packed):
        if not packed:
            return np.array(x, dtype=float)
        return {"int64": lambda: np.array(x, dtype=np.int64), "int32": lambda: np.array(x, dtype=np.int32),
                "list": lambda: [int(t) for t in x], "pyint_point": lambda: [int(t) for t in x]}[inp["pack"]]()
    def build(packed):
        pa, pb = H.Point(pack(inp["a"], packed), model="halfspace"), H.Point(pack(inp["b"], packed), model="halfspace")
        if kind == "segment":
            return H.Segment(pa, pb)
        # the horosphere centred at the ideal endpoint (beyond b) of the ray from a through b, passing through a
        cen = H.IdealPoint(np.array(H.Segment(H.Point(np.array(inp["a"], dtype=float), model="halfspace"),
                                              H.Point(np.array(inp["b"], dtype=float), model="halfspace")).ideal_basis, dtype=float)[..., 1, :])
        return H.Horosphere(cen, pa)
    ref = build(False)
    with np.errstate(all="ignore"):
        want = _h_query(kind, ref, dim, inp["degrees"])
    # degenerate positions that integral coordinates hit exactly (a geodesic through the centre of the Poincare ball has no
    # finite circle; thorough-tier false alarm) are not the subject here, exactly as in integer_data_oracle
    if not all(np.all(np.isfinite(a)) and (a.size == 0 or np.max(np.abs(a)) < 50) for a in want):
        return {"skip": True}
    obj = build(True)
    got = _h_query(kind, obj, dim, inp["degrees"])
    # the object passes through the points it was given: half-space coordinates of the endpoints / reference point
    through = 0.0
    if kind == "segment":
        ec = np.array(obj.endpoint_coords("halfspace"), dtype=float)
        through = float(np.max(np.abs(ec - np.array([inp["a"], inp["b"]], dtype=float))))
    return {"same_as_float64": bool(_h_same(got, want, 1e-9)), "through": through}


def judge_o_intcoords(inp, obs, lr):
    tags = {"kind": inp["kind"], "dim": inp["dim"], "pack": inp["pack"], "coords": "halfspace integers"}
    if "exc" in obs:
        return {"expected": "objects built from integral half-space coordinates", "observed": obs, "tags": dict(tags, exc=obs["exc"])}
    if obs.get("skip"):
        return None
    if not obs["same_as_float64"] or not obs["through"] <= 1e-9:
        return {"expected": "the same circle / sphere parameters, ideal endpoints and endpoint coordinates as for the float64 array of the same half-space coordinates; the segment ends at the points given",
                "observed": obs, "tags": tags}
    return None




# ---- G12: magnitudes - objects almost through the centre of the ball, endpoints far from the centre ---------------
def _unit(rng, dim):
    v = np.array([rng.gauss(0, 1) for _ in range(dim)])
    return v / np.linalg.norm(v)


def _near_origin_unit(rng, dim, h, segment):
    """Klein endpoints of a geodesic (or a segment on it) whose chord passes at Klein distance h from the centre"""
    u = _unit(rng, dim)
    w = _unit(rng, dim)
    w = w - (w @ u) * u
    w = w / np.linalg.norm(w)
    m, L = h * w, math.sqrt(1 - h * h)
    if segment:
        a, b = rng.uniform(-0.9, -0.1), rng.uniform(0.1, 0.9)
        return (m + a * L * u).tolist(), (m + b * L * u).tolist(), m.tolist()
    return (m + L * u).tolist(), (m - L * u).tolist(), m.tolist()


def gen_o_magnitude(rng, n):
    for _ in range(n):
        what = rng.choice(["near_origin", "near_origin", "far_endpoint"])
        if what == "near_origin":
            dim = rng.choice([2, 2, 3, 4])
            h = 10 ** rng.uniform(-7, -2)
            seg = rng.random() < 0.5
            k1, k2, m = _near_origin_unit(rng, dim, h, seg)
            yield {"what": what, "dim": dim, "h": h, "segment": seg, "k1": k1, "k2": k2, "m": m, "degrees": rng.random() < 0.5}
        else:
            # one endpoint at hyperbolic distance 10..16 from the centre (1 - |k|^2 between 8e-9 and 5e-14), given on the hyperboloid
            d1, d2 = rng.uniform(10, 16), rng.choice([rng.uniform(0.2, 2.5), rng.uniform(10, 16)])
            t1 = rng.uniform(0, 2 * math.pi)
            t2 = t1 + rng.choice([-1, 1]) * rng.uniform(0.5, 2.6)
            yield {"what": what, "dim": 2, "d": [d1, d2], "th": [t1, t2], "degrees": rng.random() < 0.5, "swap": rng.random() < 0.5}


def run_o_magnitude(inp):
    dim = inp["dim"]
    if inp["what"] == "near_origin":
        k1, k2 = np.array(inp["k1"]), np.array(inp["k2"])
        if inp["segment"]:
            obj = H.Segment(H.Point(k1, model="klein"), H.Point(k2, model="klein"))
        else:
            obj = H.Geodesic(H.IdealPoint(H.Point(k1, model="klein").proj_data.copy()), H.IdealPoint(H.Point(k2, model="klein").proj_data.copy()))
        c, r = obj.sphere_parameters("poincare")
        out = {"c": np.array(c, dtype=float).tolist(), "r": float(r)}
        ch, rh = obj.sphere_parameters("halfspace")
        eh = np.array(obj.endpoint_coords("halfspace"), dtype=float)
        out["half"] = [float(rh), float(max(abs(np.linalg.norm(x - np.array(ch, dtype=float)) - float(rh)) for x in eh)), float(np.abs(eh).max())]
        if dim == 2:
            c2, r2, th = obj.circle_parameters(degrees=inp["degrees"], model="poincare")
            th = np.array(th, dtype=float) * (math.pi / 180 if inp["degrees"] else 1.0)
            pts, ext = _arc_points(np.array(c2, dtype=float), float(r2), th, 2)
            kk = np.stack([k1, k2])
            pp = kk / (1 + np.sqrt(np.maximum(0.0, 1 - (kk ** 2).sum(-1))))[:, None] if inp["segment"] else kk
            out["arc_ends"] = _ends_err(pts, pp)
            out["extent"] = float(ext)
        return out
    d, th = inp["d"], inp["th"]
    X = np.array([[math.cosh(di), math.sinh(di) * math.cos(ti), math.sinh(di) * math.sin(ti)] for di, ti in zip(d, th)])
    if inp["swap"]:
        X = X[::-1]
    obj = H.Segment(H.Point(X.copy()))
    c, r, ang = obj.circle_parameters(degrees=inp["degrees"], model="poincare")
    ang = np.array(ang, dtype=float) * (math.pi / 180 if inp["degrees"] else 1.0)
    pts, ext = _arc_points(np.array(c, dtype=float), float(r), ang, 2)
    # reference in extended precision: the Poincare endpoints tanh(d/2) u and the circle through them orthogonal to the unit circle
    LD = np.longdouble
    P = np.array([[np.tanh(LD(di) / 2) * np.cos(LD(ti)), np.tanh(LD(di) / 2) * np.sin(LD(ti))] for di, ti in zip(d, th)], dtype=LD)
    b = np.array([1 + P[0] @ P[0], 1 + P[1] @ P[1]], dtype=LD)
    det = 4 * (P[0, 0] * P[1, 1] - P[0, 1] * P[1, 0])
    cref = np.array([(b[0] * 2 * P[1, 1] - b[1] * 2 * P[0, 1]) / det, (2 * P[0, 0] * b[1] - 2 * P[1, 0] * b[0]) / det], dtype=LD)
    rref = np.sqrt(cref @ cref - 1)
    return {"arc_ends": _ends_err(pts, P.astype(float)), "extent": float(ext), "c_err": float(np.abs(np.array(c, dtype=float) - cref.astype(float)).max()),
            "r_err": abs(float(r) - float(rref)), "rref": float(rref)}


def judge_o_magnitude(inp, obs, lr):
    tags = {"what": inp["what"], "dim": inp["dim"]}
    if "exc" in obs:
        return {"expected": "circle parameters", "observed": obs, "tags": dict(tags, exc=obs["exc"])}
    if inp["what"] == "near_origin":
        h = inp["h"]
        m = np.array(inp["m"])
        cref, rref = m / (h * h), math.sqrt(1 / (h * h) - 1)
        # the pinned tree is accurate to about 5e-16 / h relative (measured); 2e-13 / h is asked for
        rel = 2e-13 / h
        c = np.array(obs["c"])
        if not (np.all(np.isfinite(c)) and math.isfinite(obs["r"]) and abs(obs["r"] - rref) <= rel * rref and np.abs(c - cref).max() <= rel * np.linalg.norm(cref)):
            return {"expected": {"centre m/|m|^2, radius sqrt(1/|m|^2 - 1)": [cref.tolist(), rref]}, "observed": obs,
                    "tags": dict(tags, segment=inp["segment"], log10_h=round(math.log10(h)))}
        # ideal endpoints are routed through kleinian_to_poincare, which keeps half of the digits (1e-6 as everywhere in C14)
        if "arc_ends" in obs and not (obs["arc_ends"] <= (rel if inp["segment"] else 1e-6) and obs["extent"] <= math.pi + 1e-6):
            return {"expected": "arc between the endpoints (a nearly straight arc of a huge circle)", "observed": obs,
                    "tags": dict(tags, segment=inp["segment"], log10_h=round(math.log10(h)), what2="arc")}
        hf = obs["half"]
        if not (math.isfinite(hf[0]) and hf[1] <= 1e-7 * (1 + hf[0]) * (1 + hf[2])):
            return {"expected": "half-space sphere through the endpoints", "observed": hf, "tags": dict(tags, model="halfspace")}
        return None
    # the pinned tree places the far endpoint to about 1e-16 e^d / 4 (measured); 2e-15 e^d is asked for
    tol = 2e-15 * math.exp(max(inp["d"]))
    if not (obs["arc_ends"] <= tol and obs["extent"] <= math.pi + 1e-6 and obs["c_err"] <= 1e-9 * (1 + obs["rref"]) and obs["r_err"] <= 1e-9 * (1 + obs["rref"])):
        return {"expected": "arc ends at the Poincare images tanh(d/2) u of the endpoints, circle through them orthogonal to the unit circle",
                "observed": obs, "tags": dict(tags, d=[round(x) for x in inp["d"]])}
    return None


# ---- G16: composites of mixed kinds --------------------------------------------------------------------------------
def gen_o_mixed(rng, n):
    for _ in range(n):
        dim = rng.choice([2, 2, 3, 4])
        kind = rng.choice(["geodesic", "geodesic", "segment"])
        cnt = rng.choice([2, 3, 4, dim + 1, 6])
        units, kinds = [], []
        for j in range(cnt):
            kk = rng.choice(["ordinary", "ordinary", "infinity", "near_origin", "far"] if kind == "geodesic" else ["ordinary", "ordinary", "near_origin", "far"])
            if kk == "infinity":
                # an ideal endpoint exactly at the point at infinity of the half-space model (Klein (1, 0, .., 0))
                e = [1.0] + [0.0] * (dim - 1)
                while True:
                    f = G.fsphere(rng, dim)
                    if f[0] < 0.8:
                        break
                k1, k2 = (e, f) if rng.random() < 0.5 else (f, e)
            elif kk == "near_origin":
                k1, k2, _ = _near_origin_unit(rng, dim, 10 ** rng.uniform(-6, -3), kind == "segment")
                if max(k1[0], k2[0]) > 0.8:
                    kk = "ordinary"
            if kk in ("ordinary", "far"):
                while True:
                    e1, e2 = np.array(G.fsphere(rng, dim)), np.array(G.fsphere(rng, dim))
                    if np.linalg.norm(e1 - e2) > 0.3 and np.linalg.norm(e1 + e2) > 0.3 and e1[0] < 0.8 and e2[0] < 0.8:
                        break
                if kind == "segment":
                    t1, t2 = rng.uniform(0.1, 0.45), rng.uniform(0.55, 0.9)
                    if kk == "far":
                        t1 = 10 ** rng.uniform(-10, -7)          # an endpoint at distance about 8..12 from the centre
                    k1, k2 = (t1 * e2 + (1 - t1) * e1).tolist(), (t2 * e2 + (1 - t2) * e1).tolist()
                else:
                    k1, k2 = e1.tolist(), e2.tolist()
            units.append([k1, k2])
            kinds.append(kk)
        yield {"dim": dim, "kind": kind, "units": units, "kinds": kinds, "degrees": rng.random() < 0.5}


def _mixed_build(kind, U):
    P1 = H.Point(U[..., 0, :].copy(), model="klein")
    P2 = H.Point(U[..., 1, :].copy(), model="klein")
    if kind == "geodesic":
        return H.Geodesic(H.IdealPoint(P1.proj_data.copy()), H.IdealPoint(P2.proj_data.copy()))
    return H.Segment(P1, P2)


def _mixed_answers(obj, dim, degrees):
    out = []
    for model in ("poincare", "halfspace"):
        with np.errstate(all="ignore"):
            c, r = obj.sphere_parameters(model)
            out += [np.array(c, dtype=float), np.array(r, dtype=float)]
            if dim == 2:
                c2, r2, th = obj.circle_parameters(degrees=degrees, model=model)
                th = np.array(th, dtype=float) * (math.pi / 180 if degrees else 1.0)
                out += [np.array(c2, dtype=float), np.array(r2, dtype=float), np.cos(th), np.sin(th)]
    return out


def run_o_mixed(inp):
    dim = inp["dim"]
    U = np.array(inp["units"])
    comp = _mixed_answers(_mixed_build(inp["kind"], U), dim, inp["degrees"])
    worst, where = 0.0, None
    nan_ordinary = False
    for j in range(len(U)):
        single = _mixed_answers(_mixed_build(inp["kind"], U[j]), dim, inp["degrees"])
        for q, (a, b) in enumerate(zip(comp, single)):
            a = np.asarray(a[j], dtype=float)
            b = np.asarray(b, dtype=float)
            if a.shape != b.shape:
                return {"shape": [list(a.shape), list(b.shape)], "j": j}
            fa, fb = np.isfinite(a), np.isfinite(b)
            if not np.array_equal(fa, fb):
                return {"finite_mismatch": True, "j": j, "kind_j": inp["kinds"][j], "q": q, "composite": a.tolist(), "single": b.tolist()}
            if inp["kinds"][j] != "infinity" and not fb.all():
                nan_ordinary = True
            if fa.any():
                e = float(np.max(np.abs(a[fa] - b[fa]) / (1 + np.abs(b[fb]))))
                if e > worst:
                    worst, where = e, {"j": j, "kind_j": inp["kinds"][j], "q": q}
    return {"worst": worst, "where": where, "nan_ordinary": nan_ordinary}


def judge_o_mixed(inp, obs, lr):
    tags = {"dim": inp["dim"], "kind": inp["kind"], "count": len(inp["units"]), "kinds": sorted(set(inp["kinds"])),
            "square_table": len(inp["units"]) == inp["dim"] + 1}
    if "exc" in obs:
        return {"expected": "parameters for every member", "observed": obs, "tags": dict(tags, exc=obs["exc"])}
    if "shape" in obs or obs.get("finite_mismatch"):
        return {"expected": "member i of the composite answer = the answer for member i alone (finite where that is finite)", "observed": obs, "tags": tags}
    if obs["nan_ordinary"]:
        return {"expected": "finite parameters for a member that does not pass through the half-space point at infinity", "observed": obs, "tags": tags}
    if not obs["worst"] <= 1e-9:
        return {"expected": "member i of the composite answer = the answer for member i alone", "observed": obs, "tags": tags}
    return None


CLAUSES = [
    Clause("ideal_corr", "corr", gen_ideal, run_ideal, judge_ideal, lean=lean_ideal, site="hyperbolic.Segment._compute_aux_data",
           budget={"quick": 120, "thorough": 3000}, what="Segment ideal endpoints vs Lean segmentIdeal over Q (dims 2-4, Klein-normalised and rescaled representatives)"),
    Clause("circle_corr", "corr", gen_circle, run_circle, judge_circle, lean=lean_circle, site="hyperbolic.Segment.circle_parameters",
           budget={"quick": 100, "thorough": 3000}, what="Segment.circle_parameters (dim 2, both models, degrees/radians) vs the full Lean pipeline: centre, radius, ordered directions"),
    Clause("sphere_corr", "corr", gen_sphere, run_sphere, judge_sphere, lean=lean_sphere, site="hyperbolic.Subspace.sphere_parameters",
           budget={"quick": 100, "thorough": 3000}, what="Subspace/Geodesic.sphere_parameters both models, k = 2..n ideal points, vs Lean poincareSphereFoot / halfspaceSphere with the pinv contract checked exactly"),
    Clause("horo_corr", "corr", gen_horo, run_horo, judge_horo, lean=lean_horo, site="hyperbolic.Horosphere.sphere_parameters",
           budget={"quick": 100, "thorough": 3000}, what="Horosphere.sphere_parameters both models vs Lean horoPoincare / horoHalfspace"),
    Clause("arc_corr", "corr", gen_arc, run_arc, judge_arc, lean=lean_arc, site="utils.short_arc",
           budget={"quick": 200, "thorough": 5000}, what="short_arc / right_to_left / flipped arc_include on angle pairs vs the sign-test model on direction vectors"),
    Clause("segment_oracle", "oracle", gen_o_segment, run_o_segment, judge_o_segment, site="hyperbolic.Segment.circle_parameters",
           budget={"quick": 200, "thorough": 8000},
           what="segments/geodesics dims 2-4 both models: ideal endpoints null+collinear, sphere through endpoints, orthogonal; dim 2: degrees/radians, arc ends, arc inside, arc points on the segment; near-straight and rescaled"),
    Clause("composite_oracle", "oracle", gen_o_composite, run_o_composite, judge_o_composite, site="hyperbolic.Segment.circle_parameters",
           budget={"quick": 120, "thorough": 4000},
           what="array-valued segments and geodesics (2-8 units, shapes rank 1-2, dims 2-4, both models, degrees/radians), many units whose arc crosses "
                "angle 0 seen from the circle centre: every unit's sphere and angle pair must describe that unit"),
    Clause("history_oracle", "oracle", gen_o_hist, run_o_hist, judge_o_hist, site="hyperbolic.Subspace.ideal_basis_coords",
           budget={"quick": 150, "thorough": 5000},
           what="histories on Segment / Geodesic / Hyperplane / Subspace / Horosphere (single and composite): query, then iso @ obj, iso.apply, obj[i] = ..., "
                "set(...), flatten_to_unit, slicing, then query again; every query equals that of a fresh object with the same data and is right in itself"),
    Clause("magnitude_oracle", "oracle", gen_o_magnitude, run_o_magnitude, judge_o_magnitude, site="hyperbolic.Segment.circle_parameters",
           budget={"quick": 120, "thorough": 4000},
           what="G12: geodesics / segments whose chord passes at 1e-7..1e-2 from the centre (circle of radius up to 1e7: closed-form centre and radius, "
                "relative tolerance 2e-13/h), segments with an endpoint at distance 10..16 (arc ends at tanh(d/2)u, extended-precision reference, tolerance 2e-15 e^d)"),
    Clause("mixed_composite_oracle", "oracle", gen_o_mixed, run_o_mixed, judge_o_mixed, site="hyperbolic.Subspace.sphere_parameters",
           budget={"quick": 100, "thorough": 3000},
           what="G16: stacks of geodesics / segments of mixed kinds (ordinary, through the half-space point at infinity, almost through the centre, far endpoint; "
                "2-6 members incl. exactly dim+1): member i of sphere_parameters / circle_parameters in both models = the single object's answer"),
    Clause("integer_coords_oracle", "oracle", gen_o_intcoords, run_o_intcoords, judge_o_intcoords, site="hyperbolic.Point(model=halfspace) -> Segment / Horosphere parameters",
           budget={"quick": 60, "thorough": 1500},
           what="segments and horospheres through points given by INTEGRAL half-space coordinates (int64, int32, lists of Python ints): circle / sphere parameters in both models, ideal endpoints and endpoint coordinates equal those for the float64 array of the same coordinates, and the segment ends at the given points"),
    Clause("integer_data_oracle", "oracle", gen_o_intdata, run_o_intdata, judge_o_intdata, site="hyperbolic.Segment._compute_aux_data",
           budget={"quick": 120, "thorough": 3000},
           what="Segment / Geodesic / Hyperplane / Horosphere / Polygon built from integral data as int64, int32, nested lists of ints, float32, integer Points "
                "(single and composite): same parameters as the float64 object, ideal endpoints lightlike"),
    Clause("polygon_oracle", "oracle", gen_o_polygon, run_o_polygon, judge_o_polygon, site="hyperbolic.Polygon.circle_parameters",
           budget={"quick": 80, "thorough": 2500},
           what="Polygon.circle_parameters (single and composite polygons, 3-7 vertices, both models, degrees/radians, flatten on/off): same as the edge "
                "segments' parameters, and every edge's arc joins consecutive vertices inside the model along the hyperbolic segment"),
    Clause("horosphere_oracle", "oracle", gen_o_horo, run_o_horo, judge_o_horo, site="hyperbolic.Horosphere.sphere_parameters",
           budget={"quick": 150, "thorough": 5000}, what="horosphere sphere through the reference point, tangent at the centre (dims 2-4, both models); HorosphereArc angles (dim 2)"),
    Clause("horosphere_composite_oracle", "oracle", gen_o_horo_comp, run_o_horo_comp, judge_o_horo_comp, site="hyperbolic.Horosphere.sphere_parameters",
           budget={"quick": 80, "thorough": 2500}, what="arrays of 2-5 horospheres (including exactly dim of them) and, in dim 2, arrays of horosphere arcs: every unit's sphere and arc"),
    Clause("subspace_oracle", "oracle", gen_o_subspace, run_o_subspace, judge_o_subspace, site="hyperbolic.Subspace.sphere_parameters",
           budget={"quick": 150, "thorough": 5000}, what="subspace spheres contain the ideal points, orthogonal to the boundary: subspace dimension 1..n-1, n = 2..4, composite shapes"),
]
