"""Exact Gaussian rationals for the ℚ(i) correspondence of C16 / C17 (numbers travel as [re, im])."""
from fractions import Fraction as F
import numpy as np
from vlib import q as Q


class Z:
    """a + b i with rational a, b (just enough arithmetic to build exact inputs)."""
    __slots__ = ("re", "im")

    def __init__(self, re=0, im=0):
        self.re, self.im = F(re), F(im)

    @staticmethod
    def of(x):
        return x if isinstance(x, Z) else Z(x, 0)

    def __add__(self, o):
        o = Z.of(o)
        return Z(self.re + o.re, self.im + o.im)
    __radd__ = __add__

    def __neg__(self):
        return Z(-self.re, -self.im)

    def __sub__(self, o):
        return self + (-Z.of(o))

    def __rsub__(self, o):
        return Z.of(o) - self

    def __mul__(self, o):
        o = Z.of(o)
        return Z(self.re * o.re - self.im * o.im, self.re * o.im + self.im * o.re)
    __rmul__ = __mul__

    def conj(self):
        return Z(self.re, -self.im)

    def nsq(self):
        return self.re * self.re + self.im * self.im

    def inv(self):
        d = self.nsq()
        return Z(self.re / d, -self.im / d)

    def __truediv__(self, o):
        return self * Z.of(o).inv()

    def __rtruediv__(self, o):
        return Z.of(o) * self.inv()

    def __eq__(self, o):
        o = Z.of(o)
        return self.re == o.re and self.im == o.im

    def __hash__(self):
        return hash((self.re, self.im))

    def __complex__(self):
        return complex(float(self.re), float(self.im))

    def __repr__(self):
        return f"Z({self.re},{self.im})"


def zero(x):
    return (x.re == 0 and x.im == 0) if isinstance(x, Z) else x == 0


def enc(x, field):
    """exact number / nested list -> protocol value for the given field ('Q' or 'QI')."""
    if isinstance(x, (list, tuple)):
        return [enc(y, field) for y in x]
    if isinstance(x, np.ndarray):
        return enc(x.tolist(), field)
    if field == "Q":
        if isinstance(x, Z):
            assert x.im == 0
            x = x.re
        if isinstance(x, complex):
            assert x.imag == 0
            x = x.real
        return Q.qs(x)
    if isinstance(x, Z):
        return [Q.qs(x.re), Q.qs(x.im)]
    if isinstance(x, (complex, np.complexfloating)):
        return [Q.qs(float(x.real)), Q.qs(float(x.imag))]
    return [Q.qs(x), "0"]


def num(x, field):
    """exact number / nested list -> python float or complex (nested lists)."""
    if isinstance(x, (list, tuple)):
        return [num(y, field) for y in x]
    if isinstance(x, Z):
        return complex(x) if field == "QI" else float(x.re)
    return complex(float(x), 0.0) if field == "QI" else float(x)


def arr(x, field):
    return np.array(num(x, field), dtype=complex if field == "QI" else float)


def dec(j, field):
    """protocol value (nested) -> numpy array (float for Q, complex for QI)."""
    def go(v):
        if field == "QI":
            if isinstance(v, list) and len(v) == 2 and isinstance(v[0], str):
                return complex(float(F(v[0])), float(F(v[1])))
            return [go(y) for y in v]
        if isinstance(v, list):
            return [go(y) for y in v]
        return float(F(v))
    return np.array(go(j), dtype=complex if field == "QI" else float)


def rz(rng, field, num_=6, den=4, nonzero=False, kind=None):
    """random exact number of the field; kind in {None,'imag','real'} forces a purely imaginary / real value."""
    while True:
        if field == "Q":
            x = Z(Q.rq(rng, num_, den), 0)
        elif kind == "imag":
            x = Z(0, Q.rq(rng, num_, den))
        elif kind == "real":
            x = Z(Q.rq(rng, num_, den), 0)
        else:
            x = Z(Q.rq(rng, num_, den), Q.rq(rng, num_, den) if rng.random() < 0.8 else 0)
        if not nonzero or not zero(x):
            return x


def zmat_mul(A, B):
    return [[sum((A[i][k] * B[k][j] for k in range(len(B))), Z(0)) for j in range(len(B[0]))] for i in range(len(A))]


def zdet(M):
    M = [list(r) for r in M]
    n = len(M)
    d = Z(1)
    for c in range(n):
        p = next((r for r in range(c, n) if not zero(M[r][c])), None)
        if p is None:
            return Z(0)
        if p != c:
            M[c], M[p] = M[p], M[c]
            d = -d
        d = d * M[c][c]
        for r in range(c + 1, n):
            f = M[r][c] / M[c][c]
            for k in range(c, n):
                M[r][k] = M[r][k] - f * M[c][k]
    return d


def zrank(M):
    M = [list(r) for r in M]
    if not M:
        return 0
    rows, cols = len(M), len(M[0])
    rk = 0
    for c in range(cols):
        p = next((r for r in range(rk, rows) if not zero(M[r][c])), None)
        if p is None:
            continue
        M[rk], M[p] = M[p], M[rk]
        for r in range(rk + 1, rows):
            f = M[r][c] / M[rk][c]
            for k in range(c, cols):
                M[r][k] = M[r][k] - f * M[rk][k]
        rk += 1
        if rk == rows:
            break
    return rk


def zinv(M):
    n = len(M)
    A = [list(r) + [Z(1) if i == j else Z(0) for j in range(n)] for i, r in enumerate(M)]
    for c in range(n):
        p = next(r for r in range(c, n) if not zero(A[r][c]))
        A[c], A[p] = A[p], A[c]
        piv = A[c][c]
        A[c] = [x / piv for x in A[c]]
        for r in range(n):
            if r != c and not zero(A[r][c]):
                f = A[r][c]
                A[r] = [x - f * y for x, y in zip(A[r], A[c])]
    return [row[n:] for row in A]


def rzmat(rng, field, m, n, num_=4, den=3):
    return [[rz(rng, field, num_, den) for _ in range(n)] for _ in range(m)]


def rzinv(rng, field, n, num_=3, den=2, mindet=F(1, 4)):
    while True:
        M = rzmat(rng, field, n, n, num_, den)
        if zdet(M).nsq() >= mindet * mindet:
            return M


def rzsl2(rng, field, k=4, den=3):
    """random element of SL(2, field) as a product of elementary matrices and diagonals."""
    M = [[Z(1), Z(0)], [Z(0), Z(1)]]
    for _ in range(k):
        t = rz(rng, field, 3, den)
        c = rng.randrange(3)
        if c == 0:
            E = [[Z(1), t], [Z(0), Z(1)]]
        elif c == 1:
            E = [[Z(1), Z(0)], [t, Z(1)]]
        else:
            d = rz(rng, field, 3, 3, nonzero=True)
            E = [[d, Z(0)], [Z(0), d.inv()]]
        M = zmat_mul(M, E)
    return M
