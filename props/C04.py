"""C04 — a composite object behaves exactly like an array of its unit objects (DESIGN §4 C04)."""
import itertools, math
from fractions import Fraction as F
import numpy as np
from vlib.runner import Clause
from vlib.canon import close, proj_close, finite
from props import _nd as N
from props import _objs as O
from geometry_tools import utils, hyperbolic as H, projective as P

LEVEL = "proof"
EXPLANATION = (
    "Lean: ND = flat row-major arrays with numpy's primitives as index functions (bridge lemma get_ofFn); "
    "matrixProduct is the literal composition of those primitives as in utils.matrix_product; theorems for ALL outer "
    "ranks: result shape for the three broadcast modes, entry (i++j) = unit product of unit i of array1 with unit j of "
    "array2 for unit ranks (1,2),(2,2),(3,2), lifting of apply_bilinear / normalize-style last-axis formulas, and "
    "flatten/reshape/index/stack preserving units in row-major order.  Correspondence: every ND primitive against numpy "
    "itself (rank<=5), then utils.matrix_product / apply_bilinear entry by entry over all pairs of outer shapes of rank 0-3 "
    "with sizes {1,2,3} x 3 modes x 3 unit-rank pairs (exact small dyadic entries).  Oracle: every vectorised operation "
    "on composite objects equals a Python per-unit loop over the same function; structural operations preserve units and order.")
ASSUMPTIONS = [
    "numpy semantics of expand_dims/squeeze/.T/swapaxes/@/reshape/stack/concatenate/roll/indexing are as stated by GT.Model.ND "
    "(validated against numpy itself on every run, rank <= 5, sizes <= 3)",
    "float64 arithmetic on the generated small dyadic entries is exact (sums of <= 9 products of numbers k/4, |k| <= 12)",
    "per-unit comparisons of float geometry use 1e-9 relative tolerance on well-conditioned inputs (Klein radius <= 0.8)",
]

MODES = ["elementwise", "pairwise", "pairwise_reversed"]


# ------------------------------------------------------------------ primitive level: ND vs numpy
PRIMS = ["T", "expand_range", "squeeze", "swapaxes", "roll", "sub", "select", "slice", "set_sub", "reshape",
         "flatten_outer", "stack", "concat", "zip", "matmul", "expand_unit_axes", "squeeze_excess",
         "select_last", "slice_last", "delete_last", "set_last"]


def _rs(rng, maxrank=5, minrank=0):
    """random shape of rank <= maxrank, sizes 1..3, at most ~250 entries"""
    while True:
        s = [rng.choice([1, 1, 2, 3]) for _ in range(rng.randint(minrank, maxrank))]
        if int(np.prod(s)) <= 250:
            return s


def gen_prim(rng, n):
    for c in range(n):
        op = PRIMS[c % len(PRIMS)]
        inp = {"op": op}
        if op == "T":
            inp["a"] = N.enc(N.small(rng, _rs(rng)))
        elif op == "expand_range":
            s = _rs(rng, 4)
            inp.update(a=N.enc(N.small(rng, s)), lo=rng.randint(0, len(s)), cnt=rng.randint(0, 3))
        elif op == "squeeze":
            s = _rs(rng, 5)
            ones = [k for k, d in enumerate(s) if d == 1]
            axes = [k for k in ones if rng.random() < 0.6]
            rng.shuffle(axes)
            inp.update(a=N.enc(N.small(rng, s)), axes=axes)
        elif op == "swapaxes":
            s = _rs(rng, 5, 1)
            inp.update(a=N.enc(N.small(rng, s)), i=rng.randrange(len(s)), j=rng.randrange(len(s)))
        elif op == "roll":
            s = _rs(rng, 4, 1)
            k = rng.randrange(len(s))
            inp.update(a=N.enc(N.small(rng, s)), k=k, sh=rng.randint(0, 4))
        elif op == "sub":
            s = _rs(rng, 5)
            m = rng.randint(0, len(s))
            inp.update(a=N.enc(N.small(rng, s)), idx=[rng.randrange(d) for d in s[:m]])
        elif op == "select":
            s = _rs(rng, 5, 1)
            k = rng.randrange(len(s))
            inp.update(a=N.enc(N.small(rng, s)), k=k, i=rng.randrange(s[k]))
        elif op == "slice":
            s = _rs(rng, 5, 1)
            k = rng.randrange(len(s))
            lo = rng.randint(0, s[k])
            hi = rng.randint(lo, s[k])
            inp.update(a=N.enc(N.small(rng, s)), k=k, lo=lo, hi=hi)
        elif op == "set_sub":
            s = _rs(rng, 4)
            m = rng.randint(0, len(s))
            inp.update(a=N.enc(N.small(rng, s)), idx=[rng.randrange(d) for d in s[:m]], v=N.enc(N.small(rng, s[m:])))
        elif op == "reshape":
            s = _rs(rng, 4)
            tot = int(np.prod(s))
            # random factorisation of tot, padded with ones
            t, rest = [], tot
            for p in (2, 3, 2, 3, 2, 3):
                if rest % p == 0 and rng.random() < 0.7:
                    t.append(p)
                    rest //= p
            t.append(rest)
            t += [1] * rng.randint(0, 2)
            rng.shuffle(t)
            if rng.random() < 0.1:
                t = t + [2]     # wrong size: both sides must refuse
            inp.update(a=N.enc(N.small(rng, s)), shape=t)
        elif op == "flatten_outer":
            s = _rs(rng, 5)
            inp.update(a=N.enc(N.small(rng, s)), u=rng.randint(0, len(s)))
        elif op in ("stack", "concat"):
            s = _rs(rng, 4, 1 if op == "concat" else 0)
            cnt = rng.randint(1, 3)
            k = rng.randint(0, len(s)) if op == "stack" else rng.randrange(len(s))
            arrs = []
            for _ in range(cnt):
                t = list(s)
                if op == "concat":
                    t[k] = rng.randint(0, 3)
                arrs.append(N.enc(N.small(rng, t)))
            inp.update(k=k, **{"as": arrs})
        elif op == "zip":
            s = _rs(rng, 4)
            t = N.bcast_partner(rng, s) if rng.random() < 0.9 else _rs(rng, 4)
            if rng.random() < 0.5:
                s, t = t, s
            inp.update(a=N.enc(N.small(rng, s)), b=N.enc(N.small(rng, t)), f=rng.choice(["mul", "add", "sub"]))
        elif op == "matmul":
            b1 = _rs(rng, 3)
            b2 = N.bcast_partner(rng, b1) if rng.random() < 0.9 else _rs(rng, 3)
            if rng.random() < 0.5:
                b1, b2 = b2, b1
            p, nn, qq = rng.randint(1, 3), rng.randint(1, 3), rng.randint(1, 3)
            n2 = nn if rng.random() < 0.93 else nn + 1
            inp.update(a=N.enc(N.small(rng, b1 + [p, nn])), b=N.enc(N.small(rng, b2 + [n2, qq])))
        elif op == "expand_unit_axes":
            s = _rs(rng, 5)
            u = rng.randint(0, len(s))
            inp.update(a=N.enc(N.small(rng, s)), unit=u, new=rng.randint(0, 4))
        elif op == "squeeze_excess":
            s = _rs(rng, 5)
            u = rng.randint(0, 3)
            inp.update(a=N.enc(N.small(rng, s)), unit=u, other=rng.randint(0, 4))
        elif op == "select_last":
            s = _rs(rng, 4) + [rng.randint(1, 4)]
            inp.update(a=N.enc(N.small(rng, s)), j=rng.randrange(s[-1]))
        elif op == "slice_last":
            s = _rs(rng, 4) + [rng.randint(1, 4)]
            lo = rng.randint(0, s[-1])
            inp.update(a=N.enc(N.small(rng, s)), lo=lo, hi=rng.randint(lo, s[-1]))
        elif op == "delete_last":
            s = _rs(rng, 4) + [rng.randint(1, 4)]
            inp.update(a=N.enc(N.small(rng, s)), c=rng.randrange(s[-1]))
        elif op == "set_last":
            s = _rs(rng, 3) + [rng.randint(1, 4)]
            how = rng.choice(["const", "index", "slice", "idx"])
            inp.update(out=N.enc(N.small(rng, s)), how=how)
            if how == "const":
                inp.update(j=rng.randrange(s[-1]), x=str(rng.randint(-3, 3)))
            elif how == "index":
                inp.update(j=rng.randrange(s[-1]), v=N.enc(N.small(rng, s[:-1])))
            elif how == "slice":
                lo = rng.randint(0, s[-1])
                hi = rng.randint(lo, s[-1])
                inp.update(lo=lo, hi=hi, v=N.enc(N.small(rng, s[:-1] + [hi - lo])))
            else:
                idx = rng.sample(range(s[-1]), rng.randint(0, s[-1]))
                inp.update(idx=idx, v=N.enc(N.small(rng, s[:-1] + [len(idx)])))
        yield inp


def _np(j):
    return N.dec(j)


def run_prim(inp):
    op = inp["op"]
    a = _np(inp["a"]) if "a" in inp else None
    if op == "T":
        r = a.T
    elif op == "expand_range":
        r = np.expand_dims(a, axis=tuple(range(inp["lo"], inp["lo"] + inp["cnt"])))
    elif op == "squeeze":
        r = np.squeeze(a, axis=tuple(inp["axes"]))
    elif op == "swapaxes":
        r = a.swapaxes(inp["i"], inp["j"])
    elif op == "roll":
        r = np.roll(a, -inp["sh"], axis=inp["k"])
    elif op == "sub":
        r = a[tuple(inp["idx"])]
    elif op == "select":
        r = np.take(a, inp["i"], axis=inp["k"])
    elif op == "slice":
        sl = [slice(None)] * a.ndim
        sl[inp["k"]] = slice(inp["lo"], inp["hi"])
        r = a[tuple(sl)]
    elif op == "set_sub":
        r = a.copy()
        r[tuple(inp["idx"])] = _np(inp["v"])
    elif op == "reshape":
        r = a.reshape(tuple(inp["shape"]))
    elif op == "flatten_outer":
        u = inp["u"]
        r = a.reshape((-1,) + (a.shape[a.ndim - u:]))
    elif op == "stack":
        r = np.stack([_np(x) for x in inp["as"]], axis=inp["k"])
    elif op == "concat":
        r = np.concatenate([_np(x) for x in inp["as"]], axis=inp["k"])
    elif op == "zip":
        b = _np(inp["b"])
        r = {"mul": a * b, "add": a + b, "sub": a - b}[inp["f"]] if True else None
    elif op == "matmul":
        r = a @ _np(inp["b"])
    elif op == "expand_unit_axes":
        r = utils.expand_unit_axes(a, inp["unit"], inp["new"])
    elif op == "squeeze_excess":
        r = utils.squeeze_excess(a, inp["unit"], inp["other"])
    elif op == "select_last":
        r = a[..., inp["j"]]
    elif op == "slice_last":
        r = a[..., inp["lo"]:inp["hi"]]
    elif op == "delete_last":
        r = np.delete(a, inp["c"], axis=-1)
    elif op == "set_last":
        r = _np(inp["out"]).copy()
        how = inp["how"]
        if how == "const":
            r[..., inp["j"]] = float(inp["x"])
        elif how == "index":
            r[..., inp["j"]] = _np(inp["v"])
        elif how == "slice":
            r[..., inp["lo"]:inp["hi"]] = _np(inp["v"])
        else:
            r[..., np.array(inp["idx"], dtype=int)] = _np(inp["v"])
    return {"r": N.enc(r)}


def lean_prim(inp, obs):
    op = inp["op"]
    name = {"expand_unit_axes": "c04.expand_unit_axes", "squeeze_excess": "c04.squeeze_excess"}.get(op, "nd." + op)
    d = dict(inp)
    d["op"] = name
    return [d]


def judge_eq(inp, obs, lr, what="numpy"):
    res = lr[0]
    if "exc" in obs:
        if "err" in res:
            return None            # both refuse
        return {"expected": {"model": res}, "observed": obs, "tags": {"op": inp.get("op"), "impl_raises": obs["exc"]}}
    if "err" in res:
        return {"expected": {"model_err": res["err"]}, "observed": obs["r"]["shape"], "tags": {"op": inp.get("op"), "model_err": res["err"][:40]}}
    m = res["ok"]
    if m["shape"] != obs["r"]["shape"]:
        return {"expected": {"model_shape": m["shape"]}, "observed": {"impl_shape": obs["r"]["shape"]},
                "tags": {"op": inp.get("op"), "shape": True}}
    if [F(x) for x in m["data"]] != [F(x) for x in obs["r"]["data"]]:
        return {"expected": {"model": m}, "observed": obs["r"], "tags": {"op": inp.get("op"), "values": True}}
    return None


# ------------------------------------------------------------------ library level: utils.matrix_product
UNITS = [(1, 2), (2, 2), (3, 2)]


def _unit_shapes(rng, u1, u2):
    n = rng.choice([2, 3])
    m = rng.choice([n, n, rng.choice([1, 2, 3])])
    if (u1, u2) == (1, 2):
        return [n], [n, m]
    if (u1, u2) == (2, 2):
        return [rng.choice([1, 2, 3]), n], [n, m]
    return [rng.choice([1, 2, 3]), rng.choice([1, 2]), n], [n, m]


def _mp_case(rng, o1, o2, u, mode):
    s1, s2 = _unit_shapes(rng, *u)
    return {"a1": N.enc(N.small(rng, list(o1) + s1)), "a2": N.enc(N.small(rng, list(o2) + s2)), "u1": u[0], "u2": u[1],
            "mode": mode, "o1": list(o1), "o2": list(o2)}


def gen_mp(rng, n):
    shapes = N.all_shapes(3)
    if n >= len(shapes) ** 2 * 9:      # thorough: exhaustive over shape pairs x modes x unit pairs
        for o1 in shapes:
            for o2 in shapes:
                for u in UNITS:
                    for mode in MODES:
                        yield _mp_case(rng, o1, o2, u, mode)
        return
    for c in range(n):
        mode = MODES[c % 3]
        u = UNITS[(c // 3) % 3]
        o1 = rng.choice(shapes)
        if mode == "elementwise" and rng.random() < 0.9:
            o2 = N.bcast_partner(rng, o1)
            if rng.random() < 0.5:
                o1, o2 = o2, o1
        else:
            o2 = rng.choice(shapes)
        yield _mp_case(rng, o1, o2, u, mode)


def run_mp(inp):
    r = utils.matrix_product(N.dec(inp["a1"]), N.dec(inp["a2"]), inp["u1"], inp["u2"], broadcast=inp["mode"])
    return {"r": N.enc(r)}


def lean_mp(inp, obs):
    return [{"op": "c04.matrix_product", "a1": inp["a1"], "a2": inp["a2"], "u1": inp["u1"], "u2": inp["u2"], "mode": inp["mode"]}]


def judge_mp(inp, obs, lr):
    f = judge_eq(inp, obs, lr)
    if f:
        f["tags"].update(mode=inp["mode"], units=[inp["u1"], inp["u2"]])
        return f
    if "exc" in obs:
        return None
    # the shape law of the property, checked on the implementation's own output
    o1, o2 = inp["o1"], inp["o2"]
    got = obs["r"]["shape"]
    k = len(got) - {1: 1, 2: 2, 3: 3}[inp["u1"]]
    if inp["mode"] == "elementwise":
        exp = list(np.broadcast_shapes(tuple(o1), tuple(o2)))
    else:
        exp = o1 + o2 if inp["mode"] == "pairwise" else o2 + o1
    if got[:k] != exp:
        return {"expected": {"outer_shape": exp}, "observed": got, "tags": {"shape_law": inp["mode"]}, "property_failure": True}
    return None


# ------------------------------------------------------------------ library level: utils.apply_bilinear
def gen_bil(rng, n):
    shapes = N.all_shapes(3)
    for c in range(n):
        o1 = rng.choice(shapes)
        o2 = N.bcast_partner(rng, o1) if rng.random() < 0.7 else list(o1)
        d = rng.choice([1, 2, 3])
        form = None
        if rng.random() < 0.7:
            form = N.enc(N.small(rng, [d, d]))
        yield {"v1": N.enc(N.small(rng, o1 + [d])), "v2": N.enc(N.small(rng, o2 + [d])), "form": form}


def run_bil(inp):
    f = None if inp["form"] is None else N.dec(inp["form"])
    v1, v2 = N.dec(inp["v1"]), N.dec(inp["v2"])
    r = utils.apply_bilinear(v1, v2, f)
    # per-unit loop (the property): entry i = v1[i] . form . v2[i]
    b1, b2 = np.broadcast_arrays(v1[..., :, None], v2[..., :, None])
    ff = np.eye(v1.shape[-1]) if f is None else f
    loop = np.empty(b1.shape[:-2])
    for idx in np.ndindex(*loop.shape):
        loop[idx] = float(b1[idx][:, 0] @ ff @ b2[idx][:, 0])
    return {"r": N.enc(r), "loop_ok": bool(r.shape == loop.shape and np.array_equal(r, loop))}


def lean_bil(inp, obs):
    d = {"op": "c04.apply_bilinear", "v1": inp["v1"], "v2": inp["v2"]}
    if inp["form"] is not None:
        d["form"] = inp["form"]
    return [d]


def judge_bil(inp, obs, lr):
    f = judge_eq(inp, obs, lr)
    if f:
        return f
    if "exc" not in obs and not obs["loop_ok"]:
        return {"expected": "apply_bilinear = per-unit v1.F.v2", "observed": obs["r"], "tags": {"loop": True}, "property_failure": True}
    return None


# ------------------------------------------------------------------ library level: vectorised last-axis formulas
from vlib import q as Q


def gen_vec(rng, n):
    shapes = N.all_shapes(3)
    for c in range(n):
        op = ["p2k", "k2p", "normalize", "scale_last", "p2h", "h2p", "affine_coords", "projective_coords", "segment_aux"][c % 9]
        o = rng.choice(shapes)
        d = rng.choice([1, 2, 3])
        cnt = int(np.prod(o)) if o else 1
        if op == "segment_aux":
            from props import _hist as HI
            yield {"op": op, "e": HI._rcomp(rng, "segment", o, rng.choice([2, 3]))}
            continue
        if op == "scale_last":
            x = N.small(rng, o + [d])
            f = N.small(rng, o if o else [1])
            yield {"op": op, "x": N.enc(x), "f": N.enc(f)}
            continue
        if op in ("p2h", "h2p", "affine_coords", "projective_coords"):
            flat = []
            for _ in range(cnt):
                p = Q.rball(rng, d, F(9, 10), 6)
                if op == "p2h":
                    flat += p
                elif op == "h2p":
                    flat += [F(rng.randint(-6, 6), rng.randint(1, 4)) for _ in range(d - 1)] + [F(rng.randint(1, 8), rng.randint(1, 4))]
                elif op == "affine_coords":
                    flat += [F(rng.choice([-3, -2, -1, 1, 2, 3]), rng.randint(1, 3)) for _ in range(d + 1)]      # every chart coordinate non-zero
                else:
                    flat += [F(rng.randint(-4, 4), rng.randint(1, 3)) for _ in range(d)]
            w = d + 1 if op == "affine_coords" else d
            inp = {"op": op, "x": N.enc_q(o + [w], flat)}
            if op == "affine_coords":
                inp["c"] = rng.randrange(d + 1)
            if op == "projective_coords":
                inp["c"] = rng.randint(0, d)
            yield inp
            continue
        flat = []
        for _ in range(cnt):
            p = Q.rball(rng, d, F(9, 10), 6)
            a = sum(t * t for t in p)
            if op == "p2k":
                flat += p
            elif op == "k2p":
                flat += [2 * t / (1 + a) for t in p]          # Klein point of a rational Poincare point: sqrt|1-|k|^2| rational
            else:
                kind = rng.random()
                if kind < 0.15:
                    s = Q.rsphere(rng, d) if d > 1 else [F(1)]
                    flat += [F(2)] + [2 * t for t in s]          # null row: must be left alone
                else:
                    lam = F(rng.randint(1, 5), rng.randint(1, 3)) * rng.choice([1, -1])
                    flat += [lam * (1 + a)] + [lam * 2 * t for t in p]    # <x,x> = -lam^2 (1-a)^2
        if op == "normalize":
            J = np.diag([-1.0] + [1.0] * d)
            yield {"op": op, "v": N.enc_q(o + [d + 1], flat), "form": N.enc(J)}
        else:
            yield {"op": op, "x": N.enc_q(o + [d], flat)}


def run_vec(inp):
    op = inp["op"]
    if op == "scale_last":
        x, f = N.dec(inp["x"]), N.dec(inp["f"])
        r = (x.T * f.T).T
    elif op == "p2k":
        r = H.poincare_to_kleinian(N.dec(inp["x"]))
    elif op == "k2p":
        r = H.kleinian_to_poincare(N.dec(inp["x"]))
    elif op == "segment_aux":
        with np.errstate(all="ignore"):
            r = H.Segment(N.dec(inp["e"])).aux_data
    elif op == "p2h":
        r = H.poincare_to_halfspace(N.dec(inp["x"]))
    elif op == "h2p":
        r = H.halfspace_to_poincare(N.dec(inp["x"]))
    elif op == "affine_coords":
        r = P.affine_coords(N.dec(inp["x"]), chart_index=inp["c"])
    elif op == "projective_coords":
        r = P.projective_coords(N.dec(inp["x"]), chart_index=inp["c"])
    else:
        v = N.dec(inp["v"])
        utils.normalize(v, N.dec(inp["form"]))
        r = v                                    # the caller's array after the in-place write
    return {"r": np.asarray(r, dtype=float).tolist(), "shape": list(np.asarray(r).shape)}


def lean_vec(inp, obs):
    d = dict(inp)
    d["op"] = "c04." + inp["op"]
    return [d]


def judge_vec(inp, obs, lr):
    res = lr[0]
    if "exc" in obs:
        return None if "err" in res else {"expected": res, "observed": obs, "tags": {"op": inp["op"], "impl_raises": obs["exc"]}}
    if "err" in res:
        return {"expected": res, "observed": obs["shape"], "tags": {"op": inp["op"], "model_err": res["err"][:40]}}
    m = N.dec(res["ok"])
    if list(m.shape) != obs["shape"]:
        return {"expected": {"model_shape": list(m.shape)}, "observed": obs["shape"], "tags": {"op": inp["op"], "shape": True}}
    r = np.array(obs["r"])
    if inp["op"] == "normalize":
        # a row that is null in exact arithmetic is left alone by the model; in floats its norm may round to 1e-17 instead of 0 and the row is
        # then divided by a tiny positive number: still the same projective point with a positive factor, which is all the property asks
        from props._hist import rows_pos_eq
        sh, flat = N.dec_q(inp["v"])
        d = sh[-1]
        rows = [flat[k:k + d] for k in range(0, len(flat), d)]
        for k, row in enumerate(rows):
            nn = -row[0] * row[0] + sum(t * t for t in row[1:])
            a, b = r.reshape(-1, d)[k], m.reshape(-1, d)[k]
            ok = rows_pos_eq(a, b, 1e-7) if nn == 0 else O.allclose(a, b, 1e-11)
            if not ok:
                return {"expected": {"model_row": b.tolist()}, "observed": {"impl_row": a.tolist()}, "tags": {"op": "normalize", "null_row": nn == 0}}
        return None
    if inp["op"] == "segment_aux":
        # ideal endpoints are points of projective space: each row up to a non-zero scalar, the pair in either order
        if not O.aux_proj_eq("segment", r, m, 1e-8):
            return {"expected": {"model": m.tolist()}, "observed": obs["r"], "tags": {"op": inp["op"]}}
        return None
    if not O.allclose(r, m, 1e-11):
        return {"expected": {"model": m.tolist()}, "observed": obs["r"], "tags": {"op": inp["op"]}}
    return None


CLAUSES = [
    Clause("nd_primitives", "corr", gen_prim, run_prim, judge_eq, lean=lean_prim, site="numpy (statement of array semantics)",
           budget={"quick": 21 * 36, "thorough": 21 * 500},
           what="each ND primitive (T, expand_dims, squeeze, swapaxes, roll, a[idx], take, slice, a[idx]=v, reshape, flatten, stack, "
                "concatenate, broadcasting ufunc, batched @, expand_unit_axes, squeeze_excess) vs numpy on random shapes of rank <= 5: exact equality"),
    Clause("matrix_product_corr", "corr", gen_mp, run_mp, judge_mp, lean=lean_mp, site="utils.matrix_product",
           budget={"quick": 900, "thorough": 40 * 40 * 9},
           what="utils.matrix_product vs Lean matrixProduct entry by entry: unit ranks (1,2),(2,2),(3,2) x 3 broadcast modes x outer shapes of rank 0-3 "
                "over sizes {1,2,3} (all 1600 ordered pairs in thorough), including non-broadcastable pairs (both sides must refuse)"),
    Clause("apply_bilinear_corr", "corr", gen_bil, run_bil, judge_bil, lean=lean_bil, site="utils.apply_bilinear",
           budget={"quick": 200, "thorough": 3000},
           what="utils.apply_bilinear (with and without form, broadcasting outer shapes) vs Lean applyBilinear and vs a per-unit loop"),
]

CLAUSES += [
    Clause("vectorised_corr", "corr", gen_vec, run_vec, judge_vec, lean=lean_vec, site="hyperbolic.poincare_to_kleinian/kleinian_to_poincare, utils.normalize, (x.T*f.T).T",
           budget={"quick": 360, "thorough": 6000},
           what="the literal ND models of the vectorised last-axis formulas (poincare_to_kleinian, kleinian_to_poincare, poincare_to_halfspace, halfspace_to_poincare, affine_coords and "
                "projective_coords in every chart, Segment._compute_aux_data, in-place utils.normalize incl. null rows, the (x.T*f.T).T idiom) "
                "vs the numpy code on exact rational inputs of outer rank 0-3 (rank-0: the atleast_1d branch)"),
]
# ------------------------------------------------------------------ iteration over a composite object (model: iterItems)
def gen_iter(rng, n):
    for _ in range(n):
        unit = rng.choice(["point", "pair"])
        o = _rs(rng, 3, 1)                      # composite shape of rank 1-3 (iteration needs a sized object)
        d = rng.choice([2, 3, 4])
        s = o + ([d] if unit == "point" else [2, d])
        yield {"unit": unit, "a": N.enc(N.small(rng, s))}


def run_iter(inp):
    a = _np(inp["a"])
    obj = P.Point(a) if inp["unit"] == "point" else P.PointPair(a)
    items = [np.asarray(u.proj_data) for u in obj]           # python's __getitem__/__len__ iteration protocol
    return {"len": len(obj), "items": [N.enc(x) for x in items]}


def lean_iter(inp, obs):
    return [{"op": "c04.iter_items", "a": inp["a"]}]


def judge_iter(inp, obs, lr):
    tags0 = {"op": "iter", "unit": inp["unit"]}
    res = lr[0]
    if "exc" in obs:
        return {"expected": {"model": res}, "observed": obs, "tags": dict(tags0, impl_raises=obs["exc"])}
    if "err" in res:
        return {"expected": {"model_err": res["err"]}, "observed": obs["len"], "tags": dict(tags0, model_err=res["err"][:40])}
    m = res["ok"]
    if len(m) != len(obs["items"]) or len(m) != obs["len"]:
        return {"expected": {"model_items": len(m)}, "observed": {"items": len(obs["items"]), "len": obs["len"]}, "tags": dict(tags0, count=True)}
    for k, (x, y) in enumerate(zip(m, obs["items"])):
        if x["shape"] != y["shape"] or [F(t) for t in x["data"]] != [F(t) for t in y["data"]]:
            return {"expected": {"model_item": x}, "observed": y, "tags": dict(tags0, item=k)}
    return None


CLAUSES += [
    Clause("iter_corr", "corr", gen_iter, run_iter, judge_iter, lean=lean_iter, site="projective.ProjectiveObject.__getitem__/__len__ (iteration)",
           budget={"quick": 60, "thorough": 600},
           what="`for u in obj` over composite Point / PointPair objects of composite rank 1-3 vs Lean iterItems: number of items and every item's data, in order"),
]
CLAUSES += O.c04_oracles()
