"""C06 — automaton-driven enumeration returns exactly the accepted words and their images."""
import itertools, collections
from fractions import Fraction as F
import numpy as np
from vlib.runner import Clause
from vlib import q as Q
from props import _rephelp as H
from geometry_tools import representation as R
from geometry_tools.automata import fsa as FSA
from geometry_tools.utils import words as W

LEVEL = "proof"
EXPLANATION = (
    "Lean theorems about the literal model of _automaton_accepted (explicit memo threading, all options): every returned "
    "matrix is the image of the returned word at the same position; the returned words are, as a multiset, the label "
    "concatenations of the paths from the start state / from a start vertex to the end state (length = L or <= L), one per "
    "path; agreement with enumerate_words; memo soundness; the free automaton accepts exactly the freely reduced words, "
    "each once.  The model is executed over Q on the same automata, options and memo-reuse sequences as the real code and "
    "the (word, matrix) lists are compared as multisets; oracles compare the implementation with a reference path "
    "enumerator and re-evaluate every returned word.")
ASSUMPTIONS = [
    "the automaton's out_dict / in_dict views are coherent with its graph_dict (property C09)",
    "parse_simple representations (returned words are plain concatenations of labels)",
    "memo dictionaries are reused only with the same automaton and representation (the repaired code records the options "
    "in the dict and refuses a mismatch)",
]


# ------------------------------------------------------------------ automata
def aut_to_json(A):
    """label view with states numbered by position in A.vertices()"""
    verts = list(A.vertices())
    idx = {v: i for i, v in enumerate(verts)}
    graph = [[idx[v], [[lab, idx[w]] for lab, w in A.graph_dict[v].items()]] for v in A.graph_dict]
    return {"graph": graph, "starts": [idx[s] for s in A.start_vertices]}, verts


def aut_from_json(j):
    g = {v: {lab: w for lab, w in es} for v, es in j["graph"]}
    return FSA.FSA(g, start_vertices=list(j["starts"]))


def build_aut(inp):
    """the automaton of an input: built from the label view, then edited by the input's history (if any)"""
    A = aut_from_json(inp["aut"])
    if inp.get("shared"):
        # two automata built from ONE dictionary: the edit history is applied to the sibling (or by the caller to
        # the dictionary itself); the automaton that is enumerated must not notice
        g = {v: {lab: w for lab, w in es} for v, es in inp["aut"]["graph"]}
        A = FSA.FSA(g, start_vertices=list(inp["aut"]["starts"]))
        S = FSA.FSA(g, start_vertices=list(inp["aut"]["starts"]))
        for e in inp.get("edits", []):
            if inp["shared"] == "caller":
                if e[0] == "add":
                    g.setdefault(e[1], {})[e[3]] = e[2]
                elif e[0] == "del":
                    g.pop(e[1], None)
            elif e[0] == "add":
                S.add_edges([(e[1], e[2], e[3])])
            elif e[0] == "del" and e[1] in S.vertices():
                S.delete_vertex(e[1])
            elif e[0] == "rec":
                S.recurrent(inplace=True)
            elif e[0] == "ren":
                S.rename_generators(_full_map(S, e[1]), inplace=True)
        return A
    for e in inp.get("edits", []):
        if e[0] == "add":
            A.add_edges([(e[1], e[2], e[3])])
        elif e[0] == "del" and e[1] in A.vertices():
            A.delete_vertex(e[1])
        elif e[0] == "rec":
            A.recurrent(inplace=True)
        elif e[0] == "mult":           # the automaton of words whose length is a multiple of k (even_automaton for k = 2)
            A = A.even_automaton() if e[1] == 2 and e[2] else A.automaton_multiple(e[1])
        elif e[0] == "ren":            # rename_generators in place
            A.rename_generators(_full_map(A, e[1]), inplace=True)
        elif e[0] == "ren_copy":       # ... or returning a renamed copy
            A = A.rename_generators(_full_map(A, e[1]), inplace=False)
    return A


def _full_map(A, m):
    """rename_map must cover every label of the automaton: labels outside `m` map to themselves"""
    labs = {lab for v in A.graph_dict for lab in A.graph_dict[v]}
    return {lab: m.get(lab, lab) for lab in labs}


def edited_graph(inp):
    """reference (pure Python) label view after the input's edit history: {state: {label: state}}, and the start vertices"""
    g = {v: {lab: w for lab, w in es} for v, es in inp["aut"]["graph"]}
    for es in list(g.values()):
        for w in es.values():
            g.setdefault(w, {})
    for e in ([] if inp.get("shared") else inp.get("edits", [])):      # shared source: the edits happen elsewhere
        if e[0] == "add":
            g.setdefault(e[1], {})
            g.setdefault(e[2], {})
            g[e[1]][e[3]] = e[2]
        elif e[0] == "del" and e[1] in g:
            _drop(g, e[1])
        elif e[0] == "mult":
            # states reachable from the start vertices in steps of k edges; an edge per path of k edges, labelled by its word
            k, new, todo = e[1], {}, [v for v in inp["aut"]["starts"] if v in g]
            while todo:
                v = todo.pop(0)
                if v in new:
                    continue
                new[v] = {}
                for w, end in ref_paths(g, v, k):
                    new[v][w] = end
                    if end not in new:
                        todo.append(end)
            g = new
        elif e[0] in ("ren", "ren_copy"):
            for v in g:
                g[v] = {e[1].get(lab, lab): w for lab, w in g[v].items()}
        elif e[0] == "rec":
            while True:
                dead = [v for v in g if not g[v] or not any(v in es.values() for es in g.values())]
                if not dead:
                    break
                _drop(g, dead[0])
    return g, list(inp["aut"]["starts"])


def _drop(g, v):
    del g[v]
    for es in g.values():
        for lab in [l for l, w in es.items() if w == v]:
            del es[lab]


def final_json(A):
    """label view of the (edited) automaton, states as they are (ints)"""
    return {"graph": [[v, [[lab, w] for lab, w in A.graph_dict[v].items()]] for v in A.graph_dict],
            "starts": list(A.start_vertices)}


def rand_edits(rng, j):
    """a short history of add_edges (new edges, parallel edges between already connected states), delete_vertex and
    recurrent() on top of the constructed automaton (a deterministic automaton stays deterministic)"""
    k = nstates(j)
    labels = sorted(set(labels_of(j)) - {""}) or ["a"]
    used = {(v, l) for v, es in j["graph"] for l, _ in es}
    pairs = [(v, w) for v, es in j["graph"] for _, w in es]
    edits = []
    for _ in range(rng.randint(1, 4)):
        r = rng.random()
        if r < 0.2 and k > 1:
            v = rng.randrange(k)
            if v not in j["starts"]:
                edits.append(["del", v])
                used = {(t, l) for (t, l) in used if t != v}
                pairs = [(t, h) for (t, h) in pairs if t != v and h != v]
                continue
        if r < 0.3:
            edits.append(["rec"])
            continue
        if r < 0.42:
            cur = sorted({l for (_, l) in used})
            if cur:
                if rng.random() < 0.5:
                    perm = cur[:]
                    rng.shuffle(perm)
                    m = dict(zip(cur, perm))
                else:
                    m = {l: l.swapcase() for l in cur}
                    if len(set(m.values()) | set(cur)) != 2 * len(cur) and set(m.values()) != set(cur):
                        m = {l: l for l in cur}      # keep the relabelling injective
                edits.append([rng.choice(["ren", "ren", "ren_copy"]), m])
                used = {(t, m.get(l, l)) for (t, l) in used}
            continue
        if pairs and r < 0.65:
            t, h = rng.choice(pairs)            # a parallel edge
        else:
            t, h = rng.randrange(k + 1), rng.randrange(k + 1)
        l = rng.choice(labels + ["a", "b", "c"])
        if (t, l) not in used:
            used.add((t, l))
            pairs.append((t, h))
            edits.append(["add", t, h, l])
    mk = rng.choice([2, 2, 3])
    if rng.random() < 0.3 and all(len(l) == 1 for (_, l) in used) and (branching(j) + 1) ** mk * k <= 400:
        edits = [e for e in edits if e[0] != "rec" or rng.random() < 0.5]
        edits.append(["mult", mk, rng.random() < 0.5])
    return edits


def small_automata(k, labels):
    """all deterministic automata on states 0..k-1 (start 0) over `labels`: each (state, label) -> no edge or a state"""
    cells = [(v, l) for v in range(k) for l in labels]
    for choice in itertools.product(range(k + 1), repeat=len(cells)):
        yield {"graph": [[v, [[l, choice[i * len(labels) + j]] for j, l in enumerate(labels) if choice[i * len(labels) + j] < k]]
                         for i, v in enumerate(range(k))], "starts": [0]}


def random_automaton(rng, kmax=8, lmax=4):
    k = rng.randint(1, kmax)
    pool = rng.choice([["a", "b", "A", "B"], ["a", "b", "c", "d"], ["ab", "aB", "b", "A"], ["a", "bb", "aba", ""], ["a", "A"]])
    labels = pool[: rng.randint(1, min(lmax, len(pool)))]
    p = rng.choice([0.3, 0.5, 0.8])
    graph = []
    hidden = rng.random() < 0.2
    for v in range(k):
        if hidden and v == k - 1 and k > 1:
            continue       # last state appears only as a neighbour ("hidden vertex")
        graph.append([v, [[l, rng.randrange(k)] for l in labels if rng.random() < p]])
    # start vertices are states of the automaton (a start vertex outside the vertex set is not an automaton)
    verts = sorted({v for v, _ in graph} | {w for _, es in graph for _, w in es}) or [0]
    if not graph:
        graph = [[0, []]]
    r = rng.random()
    if r < 0.06:
        starts = []             # an automaton without start vertices: start_state= / end_state= must still work
    elif r < 0.8:
        starts = [verts[0]]
    else:
        starts = sorted(rng.sample(verts, rng.randint(1, min(3, len(verts)))))
    return {"graph": graph, "starts": starts}


_BUILTIN = None


def builtin_automata():
    global _BUILTIN
    if _BUILTIN is None:
        _BUILTIN = []
        for name in sorted(FSA.list_builtins()):
            try:
                A = FSA.load_builtin(name)
                j, _ = aut_to_json(A)
                _BUILTIN.append((name, j))
            except Exception:
                pass
    return _BUILTIN


def labels_of(j):
    return [l for _, es in j["graph"] for l, _ in es]


def letters_in(j):
    out = []
    for l in labels_of(j):
        for c in l:
            if c.lower() not in out:
                out.append(c.lower())
    return out or ["a"]


def rep_spec_for(rng, j, n=None, drop=False, ring="Q"):
    names = letters_in(j)
    if drop and len(names) > 1:
        names = names[:-1]       # a label letter without a matrix: KeyError on both sides
    n = n or rng.choice([1, 2, 2, 3])
    # generators assigned in random order with mixed dtypes (float then int, complex then real, ...)
    spec = H.rand_spec(rng, ring=ring, simple=True, n=n, names=names, reassign=rng.random() < 0.2,
                       kind=rng.choice(["uni", "orth", "diag", "dyadic"]), dtmix=rng.random() < 0.5)
    return H.no_int32(spec)


def branching(j):
    return max([len(es) for _, es in j["graph"]] + [1])


def pick_L(rng, j, cap=250):
    b = branching(j)
    L = rng.randint(0, 5)
    while L > 0 and b ** L * max(1, len(j["starts"])) > cap:
        L -= 1
    return L


def nstates(j):
    return max([v for v, _ in j["graph"]] + [w for _, es in j["graph"] for _, w in es] + list(j["starts"]) + [0]) + 1


# ------------------------------------------------------------------ calls
def rand_calls(rng, j, same_options=True, ncalls=None):
    k = nstates(j)
    opt = {"maxlen": rng.random() < 0.5, "with_words": rng.random() < 0.7, "edge_words": rng.random() < 0.8}
    direction = rng.choice(["default", "start", "end"] if j["starts"] else ["start", "end", "start", "end", "default"])
    calls = []
    for i in range(ncalls or rng.randint(1, 4)):
        if not same_options and i > 0:
            opt = {"maxlen": rng.random() < 0.5, "with_words": rng.random() < 0.7, "edge_words": rng.random() < 0.8}
            direction = rng.choice(["default", "start", "end"])
        c = dict(opt, L=pick_L(rng, j), keep=i > 0 and rng.random() < 0.8, start=None, end=None)
        if direction == "start":
            c["start"] = rng.randrange(k)
        elif direction == "end":
            c["end"] = rng.randrange(k)
        calls.append(c)
    return calls


def all_option_calls(j, L, state):
    out = []
    for maxlen, ww, ew in itertools.product([True, False], repeat=3):
        for d in ("default", "start", "end"):
            out.append({"maxlen": maxlen, "with_words": ww, "edge_words": ew, "L": L, "keep": False,
                        "start": state if d == "start" else None, "end": state if d == "end" else None})
    return out


def do_calls(rep, A, calls, verts=None):
    memo = {}
    outs = []
    for c in calls:
        if not c.get("keep"):
            memo = {}
        st = lambda x: None if x is None else (verts[x] if verts is not None else x)
        r = H.guard(lambda: rep.automaton_accepted(A, c["L"], maxlen=c["maxlen"], with_words=c["with_words"],
                                                   start_state=st(c["start"]), end_state=st(c["end"]),
                                                   precomputed=memo, edge_words=c["edge_words"]))
        if H.exc_name(r):
            outs.append(r)
        elif c["with_words"]:
            outs.append({"mats": np.asarray(r[0], dtype=float).tolist(), "words": list(r[1])})
        else:
            outs.append({"mats": np.asarray(r, dtype=float).tolist(), "words": None})
    return outs


def match_mats(impl, model, tol=1e-9):
    """multiset equality of two lists of matrices up to tolerance (greedy matching)"""
    if len(impl) != len(model):
        return False
    if not impl:
        return True
    a = np.asarray(impl, dtype=float).reshape(len(impl), -1)
    b = np.asarray(model, dtype=float).reshape(len(model), -1)
    if a.shape != b.shape:
        return False
    scale = 1.0 + np.max(np.abs(b), axis=1)
    used = np.zeros(len(b), dtype=bool)
    for row in a:
        d = np.max(np.abs(b - row), axis=1) <= tol * scale * 1e3
        d &= ~used
        k = np.argmax(d)
        if not d[k]:
            return False
        used[k] = True
    return True


def compare_result(obs, res, with_words):
    """obs: implementation {"mats","words"} or exc; res: driver {"ok": {...}} / {"err"}; multiset comparison"""
    e = H.exc_name(obs)
    if e or "err" in res:
        return None if res.get("err") == e else "error mismatch"
    m = res["ok"]
    mm = [Q.decf(x) for x in m["mats"]]
    if with_words:
        if sorted(obs["words"]) != sorted(m["words"]):
            return "words differ"
        if len(obs["mats"]) != len(obs["words"]):
            return "lists of different length"
        byw_i, byw_m = collections.defaultdict(list), collections.defaultdict(list)
        for w, x in zip(obs["words"], obs["mats"]):
            byw_i[w].append(x)
        for w, x in zip(m["words"], mm):
            byw_m[w].append(x)
        for w in byw_i:
            if not match_mats(byw_i[w], byw_m[w]):
                return "matrix of word %r differs" % w
        return None
    return None if match_mats(obs["mats"], mm) else "matrices differ"


# =====================================================================================
# corr: automaton_accepted with option combinations and memo reuse
# =====================================================================================
def gen_acc(rng, n):
    small2 = list(small_automata(2, ["a", "b"]))
    small1 = list(small_automata(1, ["a", "b"])) + list(small_automata(2, ["a"])) + list(small_automata(3, ["a"]))
    for i in range(n):
        r = rng.random()
        if r < 0.25:
            j = dict(rng.choice(small2 + small1))
        elif r < 0.4:
            # a random one of the 4096 three-state two-label automata
            labels = ["a", "b"]
            j = {"graph": [[v, [[l, w] for l in labels for w in [rng.randrange(4)] if w < 3]] for v in range(3)], "starts": [0]}
        elif r < 0.5 and builtin_automata():
            j = dict(rng.choice(builtin_automata())[1])
        elif r < 0.6:
            base = aut_from_json(random_automaton(rng, 5, 2))
            try:
                j, _ = aut_to_json(base.automaton_multiple(rng.choice([2, 3])))
            except Exception:
                j = random_automaton(rng)
        else:
            j = random_automaton(rng)
        if rng.random() < 0.12:
            # multi-character generator names (parse_simple=False): every label is one generator name
            names = list(rng.choice([["s0", "s1", "s2"], ["a1", "b"], ["x", "yy", "zzz"], ["gen"]]))
            labs = names + [H.swapcase(g) for g in names]
            k = rng.randint(1, 4)
            jm = {"graph": [[v, [[l, rng.randrange(k)] for l in labs if rng.random() < 0.5]] for v in range(k)],
                  "starts": [0] if rng.random() < 0.8 else sorted(rng.sample(range(k), min(2, k)))}
            specm = H.no_int32(H.rand_spec(rng, ring="Q", simple=False, n=rng.choice([1, 2, 3]), names=names, reassign=False))
            yield {"aut": jm, "spec": specm, "calls": rand_calls(rng, jm, same_options=rng.random() < 0.7), "multi": True}
            continue
        edits = rand_edits(rng, j) if rng.random() < 0.35 else []
        while edits and any(st not in edited_graph({"aut": j, "edits": edits})[0] for st in j["starts"]):
            edits.pop()          # an edit history must not delete a start vertex (recurrent() can)
        spec = rep_spec_for(rng, {"graph": j["graph"] + [[0, [[e[3], 0]]] for e in edits if e[0] == "add"], "starts": j["starts"]},
                            drop=rng.random() < 0.05)      # (renamings permute / case-swap labels: same letters)
        if edits and all(e[0] in ("add", "del", "rec") for e in edits) and rng.random() < 0.5:
            yield {"aut": j, "edits": edits, "spec": spec,
                   "calls": rand_calls(rng, j), "shared": rng.choice(["sibling", "sibling", "caller"])}
            continue
        if edits:
            calls = rand_calls(rng, j)
            mk = max([e[1] for e in edits if e[0] == "mult"] + [1])
            for c in calls:
                c["L"] = c["L"] // mk if mk > 1 else c["L"]
            yield {"aut": j, "edits": edits, "spec": spec, "calls": calls}
            continue
        if rng.random() < 0.3:
            k = nstates(j)
            calls = all_option_calls(j, pick_L(rng, j, 120), rng.randrange(k))
        else:
            calls = rand_calls(rng, j, same_options=rng.random() < 0.7)
        yield {"aut": j, "spec": spec, "calls": calls}


def gen_acc_thorough_prefix():
    """every deterministic automaton with <=3 states over <=2 labels (thorough tier)"""
    for k, labels in [(1, ["a"]), (1, ["a", "b"]), (2, ["a"]), (2, ["a", "b"]), (3, ["a"]), (3, ["a", "b"])]:
        for j in small_automata(k, labels):
            yield j


def gen_acc_t(rng, n):
    if n >= 2000:      # thorough: exhaustive family first
        for j in gen_acc_thorough_prefix():
            spec = rep_spec_for(rng, j, n=rng.choice([1, 2]))
            k = nstates(j)
            L = rng.randint(0, 4)
            st = rng.randrange(k)
            calls = [c for c in all_option_calls(j, L, st) if rng.random() < 0.2] or all_option_calls(j, L, st)[:2]
            yield {"aut": j, "spec": spec, "calls": calls}
        n -= 4000
    yield from gen_acc(rng, max(n, 50))


@H.limited(15)
def run_acc(inp):
    rep = H.build_rep(inp["spec"])
    A = build_aut(inp)
    outs = do_calls(rep, A, inp["calls"])
    enum = []
    for c in inp["calls"]:
        s = c["start"] if c["start"] is not None else (A.start_vertices[0] if A.start_vertices else None)
        enum.append(H.guard(lambda: [[w, v] for w, v in A.enumerate_words(c["L"], start_vertex=s, with_states=True)]))
    # labels without an image: whether (and when) looking one up raises is not part of the property
    labs = sorted({lab for v in A.graph_dict for lab in A.graph_dict[v]})
    uneval = {"True": [l for l in labs if H.exc_name(H.guard(lambda: rep[l]))],
              "False": [l for l in labs if l not in rep.generators]}
    return {"outs": outs, "enum": enum, "final": final_json(A), "uneval": uneval}


def lean_acc(inp, obs):
    spec = H.lean_spec(inp["spec"])
    aut = obs.get("final", inp["aut"]) if isinstance(obs, dict) else inp["aut"]    # the model sees the edited label view
    spec.update(op="c06.run", aut=aut, calls=inp["calls"])
    ops = [spec]
    for c in inp["calls"]:
        ops.append({"op": "c06.enum", "aut": aut, "start": c["start"], "L": c["L"]})
    ops.append(dict(spec, op="c06.spec"))      # the memo-free specification (Rep.topSpec) of every call
    return ops


def judge_acc(inp, obs, lr):
    if "exc" in obs or "err" in lr[0]:
        return {"expected": lr[0], "observed": obs, "tags": {"setup": True}}
    sp = lr[1 + len(inp["calls"])] if len(lr) > 1 + len(inp["calls"]) else {"err": "missing"}
    if "err" in sp or len(sp["ok"]) != len(lr[0]["ok"]):
        return {"expected": "c06.spec answer", "observed": sp, "tags": {"setup": True, "spec": True}}
    for i, (c, o, r) in enumerate(zip(inp["calls"], obs["outs"], lr[0]["ok"])):
        # whenever the model call returns a value, the specification prescribes that very value (same order); the value is then
        # compared with the implementation's below, so the specification is compared with the implementation too
        if "ok" in r and sp["ok"][i].get("ok") != r["ok"]:
            return {"expected": sp["ok"][i], "observed": r, "tags": {"spec": True, "why": "model value differs from Rep.topSpec"}, "call": i}
        why = compare_result(o, r, c["with_words"])
        if why == "error mismatch" and obs.get("uneval", {}).get(str(bool(c["edge_words"]))) and \
                "KeyError" in (H.exc_name(o), r.get("err")):
            # some label of the automaton has no image under this option: an implementation may or may not look it up
            # (e.g. on an edge that lies on no accepted path), so "raises KeyError" vs "returns" is not compared
            continue
        if why:
            tags = {"maxlen": c["maxlen"], "with_words": c["with_words"], "edge_words": c["edge_words"],
                    "dir": "end" if c["end"] is not None else "start", "memo_reused": bool(c.get("keep")), "why": why}
            return {"expected": r, "observed": o, "tags": tags, "call": i}
        # the reference path language of the call (model: startLangJ / endLangJ with the representation's word join, and
        # startLang / endLang by concatenation for a parse_simple representation) against what the implementation returned:
        # the words as a multiset, or (with_words=False) the number of matrices = number of paths
        if "ok" in r and not H.exc_name(o):
            for key in ("lang", "lang0"):
                lang = sp["ok"][i].get(key)
                if lang is None:
                    continue
                bad = (sorted(o["words"]) != sorted(lang)) if c["with_words"] else (len(o["mats"]) != len(lang))
                if bad:
                    return {"expected": sorted(lang), "observed": sorted(o["words"]) if c["with_words"] else len(o["mats"]),
                            "tags": {"spec": True, "why": "returned words differ from the path language (%s)" % key,
                                     "dir": "end" if c["end"] is not None else "start", "maxlen": c["maxlen"]}, "call": i}
        e, m = obs["enum"][i], lr[1 + i]
        ee = H.exc_name(e)
        if ee or "err" in m:
            if m.get("err") != ee and not (ee == "IndexError" and "err" in m):
                return {"expected": m, "observed": e, "tags": {"fn": "enumerate_words", "error": True}}
        elif sorted(map(tuple, e)) != sorted(map(tuple, m["ok"])):
            return {"expected": m["ok"], "observed": e, "tags": {"fn": "enumerate_words"}}
    return None


# =====================================================================================
# corr: free automaton, freely reduced elements, free_words_*
# =====================================================================================
LONG_NAME_SETS = [["x1", "x2"], ["ab", "c"], ["gen1", "gen2", "g"], ["s0", "s1", "s2"], ["word1"], ["aa", "a"], ["ab", "ba"]]


def gen_free(rng, n, long_names=True):
    for i in range(n):
        names = list(rng.choice(["a", "ab", "abc", "xy", "ba", "abcd"]))
        simple = True
        if long_names and rng.random() < 0.25:
            # multi-character generator names (parse_simple=False): the model's generators are strings, so the free automaton,
            # its language and the '*'-joined words are compared with the model for these too (wave 6)
            names, simple = list(rng.choice(LONG_NAME_SETS)), False
        if len(names) == 4:
            L = rng.randint(0, 2)
        else:
            L = rng.randint(0, {1: 6, 2: 4, 3: 3}[len(names)])
        spec = H.rand_spec(rng, ring="Q", simple=simple, n=rng.choice([1, 2, 3]), names=names, reassign=rng.random() < 0.3,
                           kind=rng.choice(["uni", "orth", "diag"]))
        yield {"spec": spec, "L": L, "maxlen": rng.random() < 0.6, "with_words": rng.random() < 0.8}


@H.limited(15)
def run_free(inp):
    rep = H.build_rep(inp["spec"])
    gens = list(rep.asym_gens())
    A = FSA.free_automaton(gens)
    r = rep.freely_reduced_elements(inp["L"], maxlen=inp["maxlen"], with_words=inp["with_words"])
    out = {"graph": [[v, [[l, w] for l, w in A.graph_dict[v].items()]] for v in A.graph_dict], "starts": list(A.start_vertices),
           "gens": gens,
           "fwl": list(rep.free_words_of_length(inp["L"])), "fwlt": list(rep.free_words_less_than(inp["L"]))}
    if inp["with_words"]:
        out["res"] = {"mats": np.asarray(r[0], dtype=float).tolist(), "words": list(r[1])}
    else:
        out["res"] = {"mats": np.asarray(r, dtype=float).tolist(), "words": None}
    return out


def lean_free(inp, obs):
    base = H.lean_spec(inp["spec"])
    return [{"op": "c06.free", "gens": obs.get("gens", [])},
            dict(base, op="c06.freered", L=inp["L"], maxlen=inp["maxlen"], with_words=inp["with_words"]),
            dict(base, op="c06.freewords", L=inp["L"], less_than=False),
            dict(base, op="c06.freewords", L=inp["L"], less_than=True)]


def judge_free(inp, obs, lr):
    if "exc" in obs or any("err" in r for r in lr):
        return {"expected": lr, "observed": obs, "tags": {"setup": True}}
    # (the states of free_automaton are an implementation detail: only its language is compared, through
    #  freely_reduced_elements below; the model's graph is not imposed on the implementation)
    why = compare_result(obs["res"], {"ok": lr[1]["ok"]}, inp["with_words"])
    if why:
        return {"expected": lr[1]["ok"], "observed": obs["res"], "tags": {"fn": "freely_reduced_elements", "why": why}}
    if sorted(obs["fwl"]) != sorted(lr[2]["ok"]) or sorted(obs["fwlt"]) != sorted(lr[3]["ok"]):
        return {"expected": [lr[2]["ok"], lr[3]["ok"]], "observed": [obs["fwl"], obs["fwlt"]], "tags": {"fn": "free_words"}}
    return None


# =====================================================================================
# oracle: accepted words = reference path enumeration; matrices = images of the words
# =====================================================================================
def ref_paths(graph, v, L, sep=""):
    """all (word, end) along paths of exactly L edges from v (graph: {state: {label: state}}); the labels are
    concatenated (parse_simple words) or joined with "*" (words in multi-character generator names)"""
    out = [("", v)]
    for _ in range(L):
        out = [(sep.join(x for x in (w, lab) if x), nxt) for (w, u) in out for lab, nxt in graph.get(u, {}).items()]
    return out


def ref_words(graph, starts, L, maxlen, start=None, end=None, sep=""):
    lens = range(L + 1) if maxlen else [L]
    if end is None:
        s = start if start is not None else starts[0]
        return [w for l in lens for w, _ in ref_paths(graph, s, l, sep)]
    return [w for l in lens for s in dict.fromkeys(starts) for w, e in ref_paths(graph, s, l, sep) if e == end]


def word_letters(w, simple):
    return list(w) if simple else [g for g in w.split("*") if g]


def gen_paths(rng, n):
    for inp in gen_acc(rng, n):
        k = nstates(inp["aut"])
        c = rng.choice(inp["calls"])
        c = dict(c, keep=False, edge_words=True, with_words=True)
        if rng.random() < 0.4:
            c["end"], c["start"] = rng.randrange(k), None
        inp["calls"] = [c]
        if inp.get("multi"):
            yield inp
            continue
        lab = {"graph": inp["aut"]["graph"] + [[0, [[e[3], 0]]] for e in inp.get("edits", []) if e[0] == "add"],
               "starts": inp["aut"]["starts"]}
        inp["spec"] = rep_spec_for(rng, lab, ring="C" if rng.random() < 0.25 else "Q")
        yield inp


@H.limited(15)
def run_paths(inp):
    rep = H.build_rep(inp["spec"])
    A = build_aut(inp)
    c = inp["calls"][0]
    mats, ws = rep.automaton_accepted(A, c["L"], maxlen=c["maxlen"], with_words=True, start_state=c["start"],
                                      end_state=c["end"], edge_words=True)
    mats = np.asarray(mats)
    graph, starts = edited_graph(inp)      # independent of the FSA class
    simple = inp["spec"]["simple"]
    want = ref_words(graph, starts, c["L"], c["maxlen"], c["start"], c["end"], "" if simple else "*")
    out = {"words": list(ws), "want": want, "count_ok": len(ws) == len(mats), "nomats": None}
    worst = 0.0
    for w, m in zip(ws, mats):
        worst = max(worst, float(np.max(np.abs(m - rep[w]))) / (1 + H.norm_bound(rep, word_letters(w, simple))))
    out["image_err"] = worst
    # without the word list the same matrices come back
    m2 = np.asarray(rep.automaton_accepted(A, c["L"], maxlen=c["maxlen"], with_words=False, start_state=c["start"],
                                           end_state=c["end"], edge_words=True))
    out["nomats"] = bool(m2.shape == mats.shape and match_mats_c(m2.tolist(), mats.tolist()))    # same multiset (no order is documented)
    if c["end"] is None and c["maxlen"]:
        s = c["start"] if c["start"] is not None else A.start_vertices[0]
        out["enum"] = sorted(A.enumerate_words(c["L"], start_vertex=s))       # (plain concatenation of the labels)
        if not simple:
            out["words_plain"] = sorted(w.replace("*", "") for w in ws)
    return out


def judge_paths(inp, obs, lr):
    c = inp["calls"][0]
    tags = {"maxlen": c["maxlen"], "dir": "end" if c["end"] is not None else "start"}
    if "exc" in obs:
        g, starts = edited_graph(inp)
        verts = set(g)
        s0 = c["start"] if c["start"] is not None else (starts or [None])[0]
        if obs["exc"] == "KeyError" and c["end"] is None and s0 not in verts:
            return None   # start state that is not a vertex of the automaton: out_dict[state] raises
        if obs["exc"] == "IndexError" and not inp["aut"]["starts"]:
            return None
        return {"expected": "enumeration", "observed": obs, "tags": dict(tags, exc=obs["exc"])}
    if sorted(obs["words"]) != sorted(obs["want"]):
        missing = sorted((collections.Counter(obs["want"]) - collections.Counter(obs["words"])).elements())[:5]
        extra = sorted((collections.Counter(obs["words"]) - collections.Counter(obs["want"])).elements())[:5]
        return {"expected": {"words_of_paths": sorted(obs["want"])[:30]}, "observed": {"missing": missing, "extra": extra},
                "tags": dict(tags, what="language", missing=bool(missing), extra=bool(extra))}
    if not obs["count_ok"] or not obs["image_err"] <= 1e-8:
        return {"expected": "matrix k is the image of word k", "observed": obs["image_err"], "tags": dict(tags, what="images")}
    if not obs["nomats"]:
        return {"expected": "with_words=False returns the same matrices", "observed": "different", "tags": dict(tags, what="with_words")}
    if "enum" in obs and obs["enum"] != obs.get("words_plain", sorted(obs["words"])):
        return {"expected": obs["enum"][:30], "observed": sorted(obs["words"])[:30], "tags": dict(tags, what="enumerate_words")}
    return None


# =====================================================================================
# oracle: edge_words=False reads labels as single generators
# =====================================================================================
def gen_single(rng, n):
    for i in range(n):
        k = rng.randint(1, 5)
        labels = ["a", "b", "A", "B"][: rng.randint(1, 4)]
        j = {"graph": [[v, [[l, rng.randrange(k)] for l in labels if rng.random() < 0.6]] for v in range(k)], "starts": [0]}
        yield {"aut": j, "spec": rep_spec_for(rng, j), "L": pick_L(rng, j), "maxlen": rng.random() < 0.5,
               "end": rng.randrange(k) if rng.random() < 0.4 else None}


@H.limited(15)
def run_single(inp):
    rep = H.build_rep(inp["spec"])
    A = aut_from_json(inp["aut"])
    r1 = rep.automaton_accepted(A, inp["L"], maxlen=inp["maxlen"], with_words=True, end_state=inp["end"], edge_words=False)
    r2 = rep.automaton_accepted(A, inp["L"], maxlen=inp["maxlen"], with_words=True, end_state=inp["end"], edge_words=True)
    same = _same({"mats": np.asarray(r1[0], dtype=complex).tolist(), "words": list(r1[1])},
                 {"mats": np.asarray(r2[0], dtype=complex).tolist(), "words": list(r2[1])})
    return {"same": same, "n": len(r1[1])}


def judge_single(inp, obs, lr):
    if "exc" in obs:
        return {"expected": "enumeration", "observed": obs, "tags": {"exc": obs["exc"]}}
    if not obs["same"]:
        return {"expected": "edge_words=False agrees with edge_words=True on one-letter labels", "observed": obs, "tags": {"edge_words": False}}
    return None


# =====================================================================================
# oracle: freely reduced words, each exactly once
# =====================================================================================
@H.limited(15)
def run_freeo(inp):
    rep = H.build_rep(inp["spec"])
    mats, ws = rep.freely_reduced_elements(inp["L"], maxlen=inp["maxlen"], with_words=True)
    alph = list(rep.generators)
    lens = range(inp["L"] + 1) if inp["maxlen"] else [inp["L"]]
    want = sorted("".join(w) for l in lens for w in itertools.product(alph, repeat=l)
                  if all(w[i + 1] != H.swapcase(w[i]) for i in range(l - 1)))
    err = max([float(np.max(np.abs(m - rep[w]))) / (1 + H.norm_bound(rep, list(w))) for w, m in zip(ws, mats)] + [0.0])
    # alternative entry points: the wrapped class and the explicit free automaton give the same enumeration
    from geometry_tools import projective
    pr = projective.ProjectiveRepresentation(rep)
    t, ws_p = pr.freely_reduced_elements(inp["L"], maxlen=inp["maxlen"], with_words=True)
    m_a, ws_a = rep.automaton_accepted(FSA.free_automaton(list(rep.asym_gens())), inp["L"], maxlen=inp["maxlen"], with_words=True)
    cplx = lambda a: np.asarray(a, dtype=complex).tolist()
    entry_ok = _same({"mats": cplx(np.swapaxes(np.asarray(t.matrix), -1, -2)), "words": list(ws_p)}, {"mats": cplx(mats), "words": list(ws)}) \
        and _same({"mats": cplx(m_a), "words": list(ws_a)}, {"mats": cplx(mats), "words": list(ws)})
    return {"words": sorted(ws), "want": want, "err": err, "reduced": all(W.simplify_word(w) == w for w in ws), "entry_ok": entry_ok,
            "fwl": sorted(rep.free_words_of_length(inp["L"])),
            "fwlt": sorted(rep.free_words_less_than(inp["L"])),
            "want_lt": sorted("".join(w) for l in range(inp["L"]) for w in itertools.product(alph, repeat=l)
                              if all(w[i + 1] != H.swapcase(w[i]) for i in range(l - 1))),
            "want_len": sorted("".join(w) for w in itertools.product(alph, repeat=inp["L"])
                               if all(w[i + 1] != H.swapcase(w[i]) for i in range(inp["L"] - 1)))}


def judge_freeo(inp, obs, lr):
    if "exc" in obs:
        return {"expected": "enumeration", "observed": obs, "tags": {"exc": obs["exc"]}}
    if obs["words"] != obs["want"] or not obs["reduced"]:
        return {"expected": obs["want"][:40], "observed": obs["words"][:40], "tags": {"what": "freely reduced words, each once", "maxlen": inp["maxlen"]}}
    if not obs["err"] <= 1e-8:
        return {"expected": "images of the words", "observed": obs["err"], "tags": {"what": "images"}}
    if not obs.get("entry_ok", True):
        return {"expected": "ProjectiveRepresentation(rep).freely_reduced_elements and automaton_accepted(free_automaton(...)) give the same enumeration",
                "observed": "different", "tags": {"what": "entry points"}}
    if obs["fwlt"] != obs["want_lt"]:
        # (the docstring says "inclusive", the name and the code say < length: either way each word at most once)
        return {"expected": obs["want_lt"][:40], "observed": obs["fwlt"][:40], "tags": {"what": "free_words_less_than: each freely reduced word of length < L once"}}
    if obs["fwl"] != obs["want_len"]:
        return {"expected": obs["want_len"][:40], "observed": obs["fwl"][:40], "tags": {"what": "free_words_of_length"}}
    return None

# =====================================================================================
# oracle: freely reduced enumeration for generators with multi-character names (parse_simple=False)
# (wave 6: free_automaton compared a generator with the *reversed, letter-wise* inverse of another one, which is the
#  inverse generator only for one-letter names)
# =====================================================================================


def gen_free_long(rng, n):
    for i in range(n):
        names = list(LONG_NAME_SETS[i % len(LONG_NAME_SETS)]) if i < 2 * len(LONG_NAME_SETS) else list(rng.choice(LONG_NAME_SETS))
        L = rng.randint(0, {1: 5, 2: 3, 3: 3}[len(names)])
        spec = H.rand_spec(rng, ring="Q", simple=False, n=rng.choice([1, 2, 3]), names=names, reassign=False,
                           kind=rng.choice(["uni", "orth", "diag"]), dtmix=False)
        yield {"spec": spec, "L": L, "maxlen": rng.random() < 0.6}


@H.limited(15)
def run_free_long(inp):
    rep = H.build_rep(inp["spec"])
    names = sorted({h["g"].lower() for h in inp["spec"]["hist"]})
    letters = [x for g in names for x in (g, g.upper())]
    inverse = {g: g.upper() for g in names}
    inverse.update({g.upper(): g for g in names})
    lens = range(inp["L"] + 1) if inp["maxlen"] else [inp["L"]]
    want = sorted("*".join(w) for l in lens for w in itertools.product(letters, repeat=l)
                  if all(inverse[w[i]] != w[i + 1] for i in range(l - 1)))
    mats, ws = rep.freely_reduced_elements(inp["L"], maxlen=inp["maxlen"], with_words=True)
    only = rep.freely_reduced_elements(inp["L"], maxlen=inp["maxlen"])
    err = 0.0
    for w, m in zip(ws, mats):
        P = np.identity(inp["spec"]["n"])
        for g in (w.split("*") if w else []):
            P = P @ np.asarray(rep.generators[g], dtype=float)
        err = max(err, float(np.max(np.abs(np.asarray(m, dtype=float) - P))) / (1 + float(np.max(np.abs(P)))))
    return {"words": sorted(ws), "want": want, "err": err, "n_only": int(len(only)), "n": int(len(mats))}


def judge_free_long(inp, obs, lr):
    if "exc" in obs:
        return {"expected": "enumeration", "observed": obs, "tags": {"exc": obs["exc"], "names": "multi-character"}}
    if obs["words"] != obs["want"]:
        extra = [w for w in obs["words"] if w not in set(obs["want"])]
        return {"expected": {"count": len(obs["want"]), "words": obs["want"][:30]},
                "observed": {"count": len(obs["words"]), "not freely reduced or repeated": extra[:10]},
                "tags": {"what": "freely reduced words, each once", "names": "multi-character"}}
    if not obs["err"] <= 1e-8 or obs["n_only"] != obs["n"]:
        return {"expected": "images of the words", "observed": [obs["err"], obs["n_only"], obs["n"]], "tags": {"what": "images", "names": "multi-character"}}
    return None



# =====================================================================================
# oracle: memo reuse
# =====================================================================================
def gen_memo(rng, n):
    for i in range(n):
        j = random_automaton(rng, 5, 3)
        same = rng.random() < 0.6
        yield {"aut": j, "spec": rep_spec_for(rng, j), "same": same,
               "calls": [dict(c, keep=True) for c in rand_calls(rng, j, same_options=same, ncalls=rng.randint(2, 4))]}


@H.limited(15)
def run_memo(inp):
    rep = H.build_rep(inp["spec"])
    A = aut_from_json(inp["aut"])
    shared = do_calls(rep, A, inp["calls"])
    fresh = do_calls(rep, A, [dict(c, keep=False) for c in inp["calls"]])
    bad = None
    recorded = None          # the options the shared dict was filled under
    for i, (s, f, c) in enumerate(zip(shared, fresh, inp["calls"])):
        if not c.get("keep"):
            recorded = None
        opts = (c["end"] is None, c["maxlen"], c["with_words"], c["edge_words"])
        es, ef = H.exc_name(s), H.exc_name(f)
        if recorded is not None and recorded != opts:
            # a dict filled under other options must not be used: the call has to refuse (ValueError)
            if es != "ValueError":
                bad = i
                break
            continue
        recorded = opts
        if es or ef:
            if es != ef:
                bad = i
                break
            continue
        if (s["words"] is None) != (f["words"] is None) or (s["words"] is not None and sorted(s["words"]) != sorted(f["words"])) \
                or not match_mats(s["mats"], f["mats"]):
            bad = i
            break
    return {"bad": bad}


def judge_memo(inp, obs, lr):
    if "exc" in obs:
        return {"expected": "calls evaluate", "observed": obs, "tags": {"exc": obs["exc"], "memo_reuse": "same_options" if inp["same"] else "different_options"}}
    if obs["bad"] is not None:
        c0 = inp["calls"][0]
        key = lambda c: (c["end"] is None, c["maxlen"], c["with_words"], c["edge_words"])
        differs = any(key(c) != key(c0) for c in inp["calls"][: obs["bad"] + 1])
        return {"expected": "a call with a reused precomputed dict returns what a call with a fresh dict returns, or refuses "
                            "(ValueError) a dict that was filled under different options",
                "observed": {"first_bad_call": obs["bad"]},
                "tags": {"memo_reuse": "different_options" if differs else "same_options"}}
    return None


# =====================================================================================
# oracle: histories on one representation object between enumerations (G1-G3)
# =====================================================================================
def gen_rhist(rng, n):
    for i in range(n):
        names = list(rng.choice(["a", "ab", "abc"]))
        dim = rng.choice([1, 2, 2, 3])
        A = H.no_int32(H.rand_spec(rng, ring=rng.choice(["Q", "Q", "C"]), simple=True, n=dim, names=names, reassign=False))
        B = H.no_int32(H.rand_spec(rng, ring="Q", simple=True, n=dim, names=names, reassign=False))   # an unrelated object
        j = random_automaton(rng, 4, 2)
        extra = [c for c in "abcd" if c not in names]
        steps = []
        for _ in range(rng.randint(3, 7)):
            who = rng.choice("AAB")
            r = rng.random()
            if r < 0.35:
                steps.append(["free", who, rng.randint(0, 3 if len(names) < 3 else 2), rng.random() < 0.6, rng.random() < 0.8])
            elif r < 0.55:
                steps.append(["acc", who, rng.randint(0, 3), rng.random() < 0.5, rng.random() < 0.8,
                              rng.choice(["start", "end"]), rng.randrange(nstates(j))])
            elif r < 0.65:
                steps.append(["elements", who, ["".join(H.rand_letters(rng, H.letters_of(names), k)) for k in (1, 2)]])
            else:
                g = rng.choice(names + extra[:1])      # a new generator or a re-assignment
                sp = A if who == "A" else B
                steps.append(["assign", who, g, {"g": g, "m": H.enc(H.gen_matrix(rng, dim, sp["ring"])), "inv": True}])
        yield {"A": A, "B": B, "aut": j, "steps": steps}


def _enum(rep, A, st):
    """one enumeration call -> {"mats", "words"} (or an exception observation)"""
    def call():
        if st[0] == "free":
            return rep.freely_reduced_elements(st[2], maxlen=st[3], with_words=st[4]), st[4]
        if st[0] == "acc":
            kw = {"start_state": st[6]} if st[5] == "start" else {"end_state": st[6]}
            return rep.automaton_accepted(A, st[2], maxlen=st[3], with_words=st[4], **kw), st[4]
        return rep.elements(st[2]), False
    try:
        r, ww = call()
    except H.ImplTimeout:
        raise
    except Exception as e:
        return {"exc": type(e).__name__}, None
    if ww:
        return {"mats": np.asarray(r[0], dtype=complex).tolist(), "words": list(r[1])}, r
    return {"mats": np.asarray(r, dtype=complex).tolist(), "words": None}, r


def _same(a, b):
    if "exc" in a or "exc" in b:
        return a.get("exc") == b.get("exc")
    if (a["words"] is None) != (b["words"] is None):
        return False
    if a["words"] is None:
        return match_mats_c(a["mats"], b["mats"])
    if sorted(a["words"]) != sorted(b["words"]) or len(a["mats"]) != len(a["words"]):
        return False
    da, db = collections.defaultdict(list), collections.defaultdict(list)
    for w, m in zip(a["words"], a["mats"]):
        da[w].append(m)
    for w, m in zip(b["words"], b["mats"]):
        db[w].append(m)
    return all(match_mats_c(da[w], db[w]) for w in da)


def match_mats_c(x, y):
    """match_mats for complex matrices (real and imaginary parts side by side)"""
    def split(l):
        a = np.asarray(l, dtype=complex)
        a = a.reshape(len(l), -1) if len(l) else a.reshape(0, 0)
        return np.concatenate([a.real, a.imag], axis=1).tolist()
    return match_mats(split(x), split(y))


@H.limited(20)
def run_rhist(inp):
    specs = {"A": dict(inp["A"], hist=list(inp["A"]["hist"])), "B": dict(inp["B"], hist=list(inp["B"]["hist"]))}
    reps = {k: H.build_rep(v) for k, v in specs.items()}
    aut = aut_from_json(inp["aut"])
    for i, st in enumerate(inp["steps"]):
        who = st[1]
        rep, spec = reps[who], specs[who]
        tag = "%d:%s" % (i, st[0])
        if st[0] == "assign":
            rep[st[3]["g"]] = H.tonp_h(st[3], spec["ring"])
            spec["hist"] = spec["hist"] + [st[3]]
            continue
        fresh = H.build_rep(spec)                       # (G1) same query on a fresh object with the current generators
        want, _ = _enum(fresh, aut_from_json(inp["aut"]), st)
        got, raw = _enum(rep, aut, st)
        if not _same(got, want):
            return {"bad": tag, "what": "differs from a fresh representation with the same generators", "who": who}
        if raw is not None:                             # (G2) the caller modifies what was returned, then asks again
            for part in (raw if isinstance(raw, tuple) else (raw,)):
                if isinstance(part, np.ndarray):
                    if part.flags.writeable and part.size:
                        part += 1
                elif isinstance(part, list):
                    part.append("zz")
            again, _ = _enum(rep, aut, st)
            if not _same(again, want):
                return {"bad": tag, "what": "result changed after the caller modified an earlier result", "who": who}
    return {"bad": None}


def judge_rhist(inp, obs, lr):
    if "exc" in obs:
        return {"expected": "history evaluates", "observed": obs, "tags": {"exc": obs["exc"]}}
    if obs["bad"] is not None:
        i = int(obs["bad"].split(":")[0])
        prior = sorted({st[0] for st in inp["steps"][:i]})
        return {"expected": "every enumeration on an object with a history equals the enumeration on a fresh object; results are not "
                            "affected by the caller modifying earlier results",
                "observed": obs, "tags": {"step": obs["bad"].split(":")[1], "what": obs["what"], "after_assign": "assign" in prior}}
    return None


# =====================================================================================
# oracle: representations and automata produced by the library itself (Coxeter groups, both generator styles)
# =====================================================================================
def gen_cox(rng, n):
    for i in range(n):
        r = rng.choice([2, 3, 3])
        M = [[1] * r for _ in range(r)]
        for a in range(r):
            for b in range(a + 1, r):
                M[a][b] = M[b][a] = rng.choice([2, 3, 3, 4, 5])
        yield {"matrix": M, "style": rng.choice(["alpha", "alphanum"]), "shortlex": rng.random() < 0.5,
               "L": rng.randint(0, 4 if r == 2 else 3), "maxlen": rng.random() < 0.6, "edge_words": rng.random() < 0.7,
               "end": rng.random() < 0.3}


@H.limited(20)
def run_cox(inp):
    from geometry_tools import coxeter
    G = coxeter.CoxeterGroup(matrix=inp["matrix"], generator_style=inp["style"])
    rep = G.canonical_representation()
    A = G.automaton(shortlex=inp["shortlex"])
    simple = inp["style"] == "alpha"
    verts = list(A.vertices())
    end = verts[-1] if inp["end"] else None
    mats, ws = rep.automaton_accepted(A, inp["L"], maxlen=inp["maxlen"], with_words=True, end_state=end,
                                      edge_words=inp["edge_words"])
    graph = {v: dict(A.graph_dict[v]) for v in A.graph_dict}
    want = ref_words(graph, list(A.start_vertices), inp["L"], inp["maxlen"], None, end, "" if simple else "*")
    err = max([float(np.max(np.abs(np.asarray(m) - np.asarray(rep[w])))) for w, m in zip(ws, np.asarray(mats))] + [0.0])
    # the Coxeter relations hold for the returned images: every generator is an involution
    inv = max(float(np.max(np.abs(np.asarray(rep[H.join_word([g, g], simple)]) - np.eye(len(inp["matrix"]))))) for g in G.ordered_gens)
    return {"words": sorted(ws), "want": sorted(want), "err": err, "inv": inv, "parse_simple": rep.parse_simple}


def judge_cox(inp, obs, lr):
    tags = {"style": inp["style"], "edge_words": inp["edge_words"], "dir": "end" if inp["end"] else "start"}
    if "exc" in obs:
        return {"expected": "the group's own representation evaluates the group's own automaton", "observed": obs, "tags": dict(tags, exc=obs["exc"])}
    if obs["words"] != obs["want"]:
        return {"expected": obs["want"][:30], "observed": obs["words"][:30], "tags": dict(tags, what="language")}
    if not obs["err"] <= 1e-7 or not obs["inv"] <= 1e-7:
        return {"expected": "matrix k is the image of word k", "observed": obs, "tags": dict(tags, what="images")}
    return None


CLAUSES = [
    Clause("accepted_corr", "corr", gen_acc_t, run_acc, judge_acc, lean=lean_acc, site="Representation.automaton_accepted",
           budget={"quick": 200, "thorough": 9000},
           what="automaton_accepted vs the Lean model over Q: small automata (all <=3 states/<=2 labels in thorough, sampled in quick), random <=8 states/4 labels, built-ins, k-multiples (multi-letter labels), hidden vertices, several start vertices, automata edited after construction (add_edges / delete_vertex); L=0..5; all option combinations x start/end state; memo-reuse sequences; (word, matrix) lists compared as multisets; enumerate_words vs model"),
    Clause("free_corr", "corr", gen_free, run_free, judge_free, lean=lean_free, site="fsa.free_automaton / freely_reduced_elements",
           budget={"quick": 60, "thorough": 2400},
           what="free_automaton graph, freely_reduced_elements, free_words_of_length/less_than vs model"),
    Clause("paths_oracle", "oracle", gen_paths, run_paths, judge_paths, site="Representation.automaton_accepted",
           budget={"quick": 500, "thorough": 18000},
           what="returned words = words of a 20-line reference path enumerator (start/end, =L/<=L) as multisets; matrix k = rep[word k]; with_words=False returns the same matrices; agreement with enumerate_words"),
    Clause("single_oracle", "oracle", gen_single, run_single, judge_single, site="Representation.automaton_accepted(edge_words=False)",
           budget={"quick": 150, "thorough": 6000}, what="edge_words=False agrees with edge_words=True on one-letter labels"),
    Clause("free_long_names_oracle", "oracle", gen_free_long, run_free_long, judge_free_long,
           site="Representation.freely_reduced_elements / fsa.free_automaton (multi-character generator names)",
           budget={"quick": 40, "thorough": 600},
           what="parse_simple=False representations whose generators have multi-character names (x1, gen2, ab/ba, aa/a): freely_reduced_elements returns every tuple of generators without a generator next to its own inverse exactly once ('*'-joined), with its image"),
    Clause("free_oracle", "oracle", lambda rng, n: gen_free(rng, n, long_names=False), run_freeo, judge_freeo, site="Representation.freely_reduced_elements",
           budget={"quick": 100, "thorough": 4500},
           what="freely_reduced_elements / free_words_of_length return each freely reduced word exactly once, with its image"),
    Clause("coxeter_oracle", "oracle", gen_cox, run_cox, judge_cox, site="CoxeterGroup.canonical_representation / automaton",
           budget={"quick": 40, "thorough": 800},
           what="Coxeter groups of rank 2-3 with generator_style alpha and alphanum (multi-character names, parse_simple=False): canonical_representation().automaton_accepted(group.automaton(), L) for every option vs the reference path enumerator; returned words re-evaluated"),
    Clause("history_oracle", "oracle", gen_rhist, run_rhist, judge_rhist, site="Representation (enumerations on an object with a history)",
           budget={"quick": 150, "thorough": 5000},
           what="two unrelated representations with the same generator names; interleaved freely_reduced_elements / automaton_accepted (start and end state) / elements calls and generator additions / re-assignments on the same objects; every enumeration is compared with a fresh object, every returned array / list is modified in place and the call repeated"),
    Clause("memo_oracle", "oracle", gen_memo, run_memo, judge_memo, site="Representation.automaton_accepted(precomputed=...)",
           budget={"quick": 200, "thorough": 9000},
           what="a caller-supplied precomputed dict reused across calls (different lengths/states; same and different options) gives the results of fresh calls"),
]
