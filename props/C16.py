"""C16 — affine charts, affine maps and subspace operations in projective space are exact (DESIGN §4 C16)."""
import math
from fractions import Fraction as F
import numpy as np
from vlib.runner import Clause
from vlib import q as Q
from vlib.canon import close, err, finite, mat_proj_close, proj_close
from props import _cx as C
from props._cx import Z
from geometry_tools import projective as P
from geometry_tools import utils as U
from geometry_tools.base import GeometryError

LEVEL = "proof"
EXPLANATION = ("Lean theorems over an arbitrary field (so ℝ and ℂ): 1 in the chart slot, affine/projective round trips after any "
               "non-zero rescaling, chart guard ⇔ chart coordinate = 0 (single and composite), block matrices of affine_linear_map "
               "(both layouts) and affine_translation act as the linear map / translation in the chart, hyperplane transform under the "
               "QR+inverse contract is orthogonal and sends exactly the hyperplane to chart-0 infinity, Subspace.intersect under the "
               "kernel contract lies in both spans, is complete, independent and has dimension k1+k2-n when transverse, eigenvector "
               "selection (first masked eigenvalue; composite first-match/zero fill) and diagonalize under the eig contract. "
               "Exact correspondence over ℚ and ℚ(i) of every one of these functions with the executed model; float/complex oracles "
               "evaluate the property itself on the implementation.")
ASSUMPTIONS = ["numpy.linalg.qr / svd / eig / inv are contracts: their observed outputs are fed to the model and their postconditions "
               "are checked as exact residuals on every case",
               "IEEE rounding within 1e-9 relative on the generated, well-conditioned inputs",
               "numpy broadcasting for composite shapes (validated unit by unit by the correspondence)"]

TOL = 1e-9


# ------------------------------------------------------------------------------------------------
# helpers
# ------------------------------------------------------------------------------------------------
def insert(c, a, one):
    a = list(a)
    return a[:c] + [one] + a[c:]


def rfield(rng):
    return "QI" if rng.random() < 0.5 else "Q"


def gerr(fn):
    try:
        return fn()
    except GeometryError:
        return "GeometryError"


def tolist(x):
    if isinstance(x, str):
        return x
    x = np.asarray(x)
    if np.iscomplexobj(x):
        return [[v.real, v.imag] for v in x.reshape(-1)]
    return x.reshape(-1).astype(float).tolist()


def asarr(flat, shape, cplx):
    if cplx:
        a = np.array([complex(v[0], v[1]) for v in flat], dtype=complex)
    else:
        a = np.array(flat, dtype=float)
    return a.reshape(shape)


def same(py, model, tol=TOL):
    py, model = np.asarray(py), np.asarray(model)
    if py.shape != model.shape:
        return False
    return close(py, model, tol)


# ------------------------------------------------------------------------------------------------
# 1. chart conversion: correspondence
# ------------------------------------------------------------------------------------------------
SHAPES = [[], [], [1], [2], [3], [2, 2], [1, 3]]


def gen_chart(rng, n):
    for _ in range(n):
        dim = rng.choice([1, 2, 2, 3, 3, 4, 5])
        c = rng.randrange(dim + 1)
        field = rfield(rng)
        shape = rng.choice(SHAPES)
        cnt = int(np.prod(shape)) if shape else 1
        mode = rng.choice(["in", "in", "in", "imag", "zero", "mixed"])
        affs, pts = [], []
        for k in range(cnt):
            a = [C.rz(rng, field, 8, 5) for _ in range(dim)]
            kind = "imag" if (mode == "imag" and field == "QI") else None
            s = C.rz(rng, field, 9, 4, nonzero=True, kind=kind)
            x = [s * v for v in insert(c, a, Z(1))]
            if mode == "zero" and (k == 0 or rng.random() < 0.3):
                x[c] = Z(0)
            if mode == "mixed":
                x = [C.rz(rng, field, 3, 2) if rng.random() < 0.7 else Z(0) for _ in range(dim + 1)]
            affs.append(a)
            pts.append(x)
        yield {"dim": dim, "c": c, "field": field, "shape": shape, "mode": mode,
               "affs": C.enc(affs, field), "pts": C.enc(pts, field)}


def _chart_arrays(inp):
    f = inp["field"]
    shape = tuple(inp["shape"])
    pts = C.dec(inp["pts"], f).reshape(shape + (inp["dim"] + 1,))
    affs = C.dec(inp["affs"], f).reshape(shape + (inp["dim"],))
    return pts, affs


def run_chart(inp):
    pts, affs = _chart_arrays(inp)
    c = inp["c"]
    out = {}
    out["affine_fn"] = tolist(gerr(lambda: P.affine_coords(pts.copy(), chart_index=c)))
    out["affine_method"] = tolist(gerr(lambda: P.Point(pts.copy()).affine_coords(chart_index=c)))
    out["in_chart"] = np.asarray(P.Point(pts.copy()).in_affine_chart(c)).reshape(-1).astype(bool).tolist()
    out["proj_fn"] = tolist(P.projective_coords(affs.copy(), chart_index=c))
    pt = P.Point(affs.copy(), chart_index=c)
    out["proj_ctor"] = tolist(pt.proj_data)
    out["ctor_shape_ok"] = list(pt.shape) == list(inp["shape"])
    out["ctor_roundtrip"] = tolist(gerr(lambda: pt.affine_coords(chart_index=c)))
    if len(inp["shape"]) >= 1:
        # column layout: the point index is the last axis
        A = np.moveaxis(affs, -1, -2) if affs.ndim >= 2 else affs
        Xc = P.projective_coords(A.copy(), chart_index=c, column_vectors=True)
        out["proj_cols"] = tolist(np.moveaxis(Xc, -1, -2))
        out["affine_cols"] = tolist(np.moveaxis(P.affine_coords(Xc, chart_index=c, column_vectors=True), -1, -2))
    return out


def lean_chart(inp, obs):
    f = inp["field"]
    return [{"op": "c16.affine", "field": f, "c": inp["c"], "xs": inp["pts"]},
            {"op": "c16.proj", "field": f, "c": inp["c"], "n": inp["dim"], "as": inp["affs"]}]


def judge_chart(inp, obs, lr):
    f, dim, c = inp["field"], inp["dim"], inp["c"]
    cplx = f == "QI"
    tags0 = {"field": f, "mode": inp["mode"]}
    if "exc" in obs:
        return {"expected": "chart conversions", "observed": obs, "tags": dict(tags0, exc=obs["exc"]), "property_failure": True}
    for r in lr:
        if "err" in r:
            return {"expected": "model answer", "observed": r, "tags": dict(tags0, driver_err=r["err"])}
    ma, mp = lr[0]["ok"], lr[1]["ok"]
    pts = C.dec(inp["pts"], f).reshape(-1, dim + 1)
    chart_vals = pts[:, c]
    imag_chart = bool(cplx and np.any((chart_vals.real == 0) & (chart_vals.imag != 0)))
    tags0["imag_chart"] = imag_chart
    m_in = ma["in_chart"]
    if obs["in_chart"] != m_in:
        return {"expected": {"in_chart": m_in}, "observed": obs["in_chart"], "tags": dict(tags0, site="Point.in_affine_chart"),
                "property_failure": True}
    for site in ("affine_fn", "affine_method"):
        o = obs[site]
        if "err" in ma:
            if o != "GeometryError":
                return {"expected": "GeometryError (a chart coordinate is exactly zero)", "observed": o,
                        "tags": dict(tags0, site=site, outside=True), "property_failure": True}
        else:
            if o == "GeometryError":
                return {"expected": "affine coordinates (every chart coordinate is non-zero)", "observed": o,
                        "tags": dict(tags0, site=site, rejected_valid=True), "property_failure": True}
            if not same(asarr(o, (-1, dim), cplx), C.dec(ma["affine"], f).reshape(-1, dim)):
                return {"expected": ma["affine"], "observed": o, "tags": dict(tags0, site=site)}
    mproj = C.dec(mp, f).reshape(-1, dim + 1)
    for site in ("proj_fn", "proj_ctor"):
        if not same(asarr(obs[site], (-1, dim + 1), cplx), mproj):
            return {"expected": mp, "observed": obs[site], "tags": dict(tags0, site=site)}
    if not obs["ctor_shape_ok"]:
        return {"expected": "composite shape " + str(inp["shape"]), "observed": "different", "tags": dict(tags0, site="shape")}
    affs = C.dec(inp["affs"], f).reshape(-1, dim)
    if obs["ctor_roundtrip"] == "GeometryError" or not same(asarr(obs["ctor_roundtrip"], (-1, dim), cplx), affs):
        return {"expected": "Point(a, chart_index=c).affine_coords(c) == a", "observed": obs["ctor_roundtrip"],
                "tags": dict(tags0, site="ctor_roundtrip"), "property_failure": True}
    if "proj_cols" in obs:
        if not same(asarr(obs["proj_cols"], (-1, dim + 1), cplx), mproj):
            return {"expected": mp, "observed": obs["proj_cols"], "tags": dict(tags0, site="proj_cols")}
        if not same(asarr(obs["affine_cols"], (-1, dim), cplx), affs):
            return {"expected": inp["affs"], "observed": obs["affine_cols"], "tags": dict(tags0, site="affine_cols")}
    return None


# ------------------------------------------------------------------------------------------------
# 1b. automatic chart choice (chart_index=None): correspondence
# ------------------------------------------------------------------------------------------------
def gen_auto(rng, n):
    for _ in range(n):
        dim = rng.choice([1, 2, 2, 3, 4, 5])
        field = rfield(rng)
        shape = rng.choice([[], [1], [2], [3], [2, 2]])
        cnt = int(np.prod(shape)) if shape else 1
        layout = rng.choice(["row", "col", "col"])
        if layout == "col":
            # the point index is the LAST axis, the coordinate index the second-to-last: shape (..., dim+1, m);
            # m is chosen equal to and different from dim+1 (square arrays hide axis mix-ups)
            shape = rng.choice([[dim + 1], [1], [2], [dim + 2], [2, dim + 1], [2, 3]])
            cnt = int(np.prod(shape))
        pz = rng.choice([0.0, 0.2, 0.45])
        pts = [[Z(0) if rng.random() < pz else C.rz(rng, field, 6, 3) for _ in range(dim + 1)] for _ in range(cnt)]
        if rng.random() < 0.2:           # no chart at all: every column has a zero somewhere
            for c in range(dim + 1):
                pts[rng.randrange(cnt)][c] = Z(0)
            if cnt >= dim + 1 and rng.random() < 0.5:      # the standard basis e_0..e_n, or a family with pts[i][i] == 0
                basis = rng.random() < 0.5
                for i in range(dim + 1):
                    pts[i] = [Z(1) if (j == i) == basis else (Z(0) if basis or j == i else C.rz(rng, field, 6, 3, nonzero=True))
                              for j in range(dim + 1)]
        yield {"dim": dim, "field": field, "shape": shape, "layout": layout, "pts": C.enc(pts, field)}


def run_auto(inp):
    f = inp["field"]
    pts = C.dec(inp["pts"], f).reshape(tuple(inp["shape"]) + (inp["dim"] + 1,))
    col = inp.get("layout") == "col"
    try:
        if col:
            aff, chart = P.affine_coords(np.moveaxis(pts, -1, -2).copy(), chart_index=None, column_vectors=True)
            aff = np.moveaxis(aff, -1, -2)
        else:
            aff, chart = P.affine_coords(pts.copy(), chart_index=None)
    except GeometryError:
        return {"aff": "GeometryError"}
    out = {"aff": tolist(aff), "chart": int(chart), "finite": bool(np.all(np.isfinite(np.asarray(aff))))}
    # the same call with the chosen chart given explicitly must agree (option combinations are consistent); kept OUTSIDE the
    # try above: what the explicit call does must not hide what the automatic call did
    try:
        if col:
            ex = np.moveaxis(P.affine_coords(np.moveaxis(pts, -1, -2).copy(), chart_index=int(chart), column_vectors=True), -1, -2)
        else:
            ex = P.affine_coords(pts.copy(), chart_index=int(chart))
        out["explicit_same"] = bool(np.asarray(ex).shape == np.asarray(aff).shape and np.all(np.asarray(ex) == np.asarray(aff)))
    except GeometryError:
        out["explicit_same"] = False
    return out


def lean_auto(inp, obs):
    return [{"op": "c16.auto", "field": inp["field"], "xs": inp["pts"]}]


def judge_auto(inp, obs, lr):
    f, dim = inp["field"], inp["dim"]
    cplx = f == "QI"
    tags0 = {"field": f, "site": "affine_coords(chart_index=None)", "layout": inp.get("layout", "row")}
    if "exc" in obs:
        return {"expected": "(affine, chart) or GeometryError", "observed": obs, "tags": dict(tags0, exc=obs["exc"]), "property_failure": True}
    r = lr[0]
    if "err" in r:
        return {"expected": "model answer", "observed": r, "tags": dict(tags0, driver_err=r["err"])}
    m = r["ok"]
    pts = C.dec(inp["pts"], f).reshape(-1, dim + 1)
    some_chart = bool(np.any(np.all(pts != 0, axis=0)))
    if obs["aff"] != "GeometryError" and not obs.get("finite", True):
        return {"expected": "finite coordinates or GeometryError", "observed": "inf/nan coordinates in chart %r" % obs.get("chart"),
                "tags": dict(tags0, nonfinite=True), "property_failure": True}
    if "err" in m:
        if obs["aff"] != "GeometryError":
            return {"expected": "GeometryError: no standard chart contains all the points", "observed": obs,
                    "tags": dict(tags0, missed=True), "property_failure": not some_chart}
        return None
    if obs["aff"] == "GeometryError":
        return {"expected": {"chart": m["chart"]}, "observed": "GeometryError", "tags": dict(tags0, rejected_valid=True),
                "property_failure": some_chart}
    if obs["chart"] != m["chart"]:
        # WHICH chart is chosen is not part of the contract ("determine the chart automatically"): any standard chart that
        # contains all the points is acceptable, with the coordinates of that chart
        cc = obs["chart"]
        if not (0 <= cc <= dim) or np.any(pts[:, cc] == 0):
            return {"expected": {"a chart containing all points, e.g.": m["chart"]}, "observed": obs["chart"], "tags": dict(tags0, chart=True),
                    "property_failure": True}
        ref = np.delete(pts / pts[:, cc:cc + 1], cc, axis=-1)
        if not same(asarr(obs["aff"], (-1, dim), cplx), ref):
            return {"expected": ref.tolist(), "observed": obs["aff"], "tags": dict(tags0, values=True), "property_failure": True}
    elif not same(asarr(obs["aff"], (-1, dim), cplx), C.dec(m["affine"], f).reshape(-1, dim)):
        return {"expected": m["affine"], "observed": obs["aff"], "tags": dict(tags0, values=True)}
    if not obs.get("explicit_same", True):
        return {"expected": "same coordinates as with the chosen chart passed explicitly", "observed": "different",
                "tags": dict(tags0, explicit=True)}
    return None


# ------------------------------------------------------------------------------------------------
# 2. affine_linear_map / affine_translation: correspondence
# ------------------------------------------------------------------------------------------------
def gen_maps(rng, n):
    for _ in range(n):
        dim = rng.choice([1, 2, 2, 3, 3, 4, 5])
        c = rng.randrange(dim + 1)
        field = rfield(rng)
        cv = rng.random() < 0.5
        L = C.rzinv(rng, field, dim)
        t = [C.rz(rng, field, 6, 3) for _ in range(dim)]
        if rng.random() < 0.2:
            t = [Z(0, v.re) for v in t] if field == "QI" else t
        npts = rng.choice([1, 1, 2, 3])
        pts = []
        for _ in range(npts):
            a = [C.rz(rng, field, 6, 4) for _ in range(dim)]
            s = C.rz(rng, field, 5, 3, nonzero=True)
            pts.append([s * v for v in insert(c, a, Z(1))])
        yield {"dim": dim, "c": c, "field": field, "cv": cv, "single": npts == 1 and rng.random() < 0.5,
               "L": C.enc(L, field), "t": C.enc(t, field), "pts": C.enc(pts, field)}


def run_maps(inp):
    f, dim, c = inp["field"], inp["dim"], inp["c"]
    L = C.dec(inp["L"], f)
    t = C.dec(inp["t"], f)
    pts = C.dec(inp["pts"], f)
    if inp["single"]:
        pts = pts[0]
    pt = P.Point(pts.copy())
    T = P.affine_linear_map(L.copy(), chart_index=c, column_vectors=inp["cv"])
    img = T @ pt
    S = P.affine_translation(t.copy(), chart_index=c)
    img2 = S @ pt
    return {"T": tolist(T.proj_data), "img": tolist(img.proj_data), "img_aff": tolist(gerr(lambda: img.affine_coords(chart_index=c))),
            "S": tolist(S.proj_data), "img2": tolist(img2.proj_data), "img2_aff": tolist(gerr(lambda: img2.affine_coords(chart_index=c))),
            "S_complex": bool(np.iscomplexobj(S.proj_data))}


def lean_maps(inp, obs):
    f = inp["field"]
    return [{"op": "c16.linmap", "field": f, "c": inp["c"], "n": inp["dim"], "cv": inp["cv"], "L": inp["L"], "ps": inp["pts"]},
            {"op": "c16.translation", "field": f, "c": inp["c"], "n": inp["dim"], "t": inp["t"], "ps": inp["pts"]},
            {"op": "c16.affine", "field": f, "c": inp["c"], "xs": inp["pts"]}]


def _mat(L, v):
    return L @ v


def judge_maps(inp, obs, lr):
    f, dim, c = inp["field"], inp["dim"], inp["c"]
    cplx = f == "QI"
    t = C.dec(inp["t"], f)
    tags0 = {"field": f, "cv": inp["cv"], "complex_translation": bool(cplx and np.any(t.imag != 0))}
    if "exc" in obs:
        return {"expected": "transformations", "observed": obs, "tags": dict(tags0, exc=obs["exc"]), "property_failure": True}
    for r in lr:
        if "err" in r:
            return {"expected": "model answer", "observed": r, "tags": dict(tags0, driver_err=r["err"])}
    m1, m2, ma = lr[0]["ok"], lr[1]["ok"], lr[2]["ok"]
    N = dim + 1
    # a projective transformation and the image of a projective point are defined up to a non-zero scalar
    if not mat_proj_close(asarr(obs["T"], (N, N), cplx).astype(complex), C.dec(m1["T"], f).astype(complex), 1e-9):
        return {"expected": m1["T"], "observed": obs["T"], "tags": dict(tags0, site="affine_linear_map.proj_data")}
    if not proj_close(asarr(obs["img"], (-1, N), cplx).astype(complex), C.dec(m1["images"], f).reshape(-1, N).astype(complex), 1e-9):
        return {"expected": m1["images"], "observed": obs["img"], "tags": dict(tags0, site="affine_linear_map@Point")}
    # the property on the implementation: acts as L in the chart
    a = C.dec(ma["affine"], f).reshape(-1, dim)
    L = C.dec(inp["L"], f)
    want = (a @ L.T) if inp["cv"] else (a @ L)
    if obs["img_aff"] == "GeometryError" or not same(asarr(obs["img_aff"], (-1, dim), cplx), want, 1e-8):
        return {"expected": want.tolist(), "observed": obs["img_aff"], "tags": dict(tags0, site="linear_map_acts"),
                "property_failure": True}
    Sm = C.dec(m2["T"], f)
    Spy = asarr(obs["S"], (N, N), obs["S_complex"])
    if not mat_proj_close(Spy.astype(complex), Sm.astype(complex), 1e-9):
        return {"expected": m2["T"], "observed": obs["S"], "tags": dict(tags0, site="affine_translation.proj_data"),
                "property_failure": True}
    if not proj_close(asarr(obs["img2"], (-1, N), cplx or obs["S_complex"]).astype(complex), C.dec(m2["images"], f).reshape(-1, N).astype(complex), 1e-9):
        return {"expected": m2["images"], "observed": obs["img2"], "tags": dict(tags0, site="affine_translation@Point")}
    want2 = a + t
    got2 = obs["img2_aff"]
    if got2 == "GeometryError" or not same(asarr(got2, (-1, dim), cplx or obs["S_complex"]).astype(complex), want2.astype(complex), 1e-8):
        return {"expected": want2.tolist(), "observed": got2, "tags": dict(tags0, site="translation_acts"), "property_failure": True}
    return None


# ------------------------------------------------------------------------------------------------
# 3. hyperplane_coordinate_transform: QR contract observed, model evaluated on it
# ------------------------------------------------------------------------------------------------
def gen_hyp(rng, n):
    for _ in range(n):
        m = rng.choice([2, 3, 3, 4, 5, 6])
        while True:
            nv = [Q.rq(rng, 9, 4) for _ in range(m)]
            if rng.random() < 0.25:
                k = rng.randrange(m)
                nv = [x if i == k else F(0) for i, x in enumerate(nv)]   # axis-parallel normals
            if any(x != 0 for x in nv):
                break
        if rng.random() < 0.4:
            sc = F(10) ** rng.randint(-9, 9)
            nv = [x * sc for x in nv]
        yield {"m": m, "normal": [Q.qs(x) for x in nv]}


def run_hyp(inp):
    nv = np.array([float(F(x)) for x in inp["normal"]])
    seen = {}
    orig = np.linalg.qr

    def spy(a, *args, **kw):
        q, r = orig(a, *args, **kw)
        seen["q"], seen["r"] = np.array(q), np.array(r)
        return q, r
    np.linalg.qr = spy
    try:
        T = P.hyperplane_coordinate_transform(nv.copy())
    finally:
        np.linalg.qr = orig
    if "q" not in seen:
        # the implementation no longer goes through numpy.linalg.qr: nothing to feed the contract model with;
        # the conclusions of hyperplaneTransform_spec are still judged on the returned matrix
        return {"no_qr": True, "Tf": np.asarray(T.proj_data, dtype=float).tolist()}
    return {"T": Q.enc(T.proj_data), "Q": Q.enc(seen["q"]), "r00": Q.qs(seen["r"][0, 0]),
            "Tf": np.asarray(T.proj_data, dtype=float).tolist()}


def lean_hyp(inp, obs):
    if "exc" in obs or obs.get("no_qr"):
        return []
    return [{"op": "c16.hyp", "m": inp["m"], "Q": obs["Q"], "T": obs["T"], "normal": inp["normal"], "r00": obs["r00"]}]


def judge_hyp(inp, obs, lr):
    if "exc" in obs:
        return {"expected": "a transformation", "observed": obs, "tags": {"exc": obs["exc"]}, "property_failure": True}
    T = np.array(obs["Tf"])
    nv = np.array([float(F(x)) for x in inp["normal"]])
    if obs.get("no_qr"):
        if float(np.max(np.abs(T.T @ T - np.eye(inp["m"])))) > 1e-9:
            return {"expected": "orthogonal T", "observed": T.tolist(), "tags": {"site": "orthogonal"}, "property_failure": True}
        col, nv = T[:, 0], nv / np.linalg.norm(nv)        # compared as unit vectors: relative to the size of the normal
        if not (close(col, nv, 1e-9) or close(-col, nv, 1e-9)):      # the orientation of the normal is not part of the property
            return {"expected": {"first column = ± unit normal": nv.tolist()}, "observed": col.tolist(), "tags": {"site": "first_column"},
                    "property_failure": True}
        return None
    if not lr or "err" in lr[0]:
        return {"expected": "model answer", "observed": lr, "tags": {"driver_err": True}}
    r = lr[0]["ok"]
    mx = lambda k: float(np.max(np.abs(Q.decf(r[k]))))
    scale = max(abs(float(F(x))) for x in inp["normal"])
    contract = {"qr_orth": mx("qr_orth"), "qr_col": mx("qr_col") / scale, "inv_resid": mx("inv_resid")}
    model_applies = max(contract.values()) <= 1e-9 and mx("T_minus_iso") <= 1e-9
    # if the observed factors do not satisfy the contract, or the result is not sign(r00)*Q, the implementation computes
    # the transformation some other way: only the public contract (orthogonal, first column parallel to the normal) is judged
    if mx("orth") > 1e-9:
        return {"expected": "orthogonal T", "observed": mx("orth"), "tags": {"site": "orthogonal"}, "property_failure": True}
    # conclusion of hyperplaneTransform_spec on the implementation's output: first column ∥ normal, positive
    col, nv = T[:, 0], nv / np.linalg.norm(nv)
    if not (close(col, nv, 1e-9) or close(-col, nv, 1e-9)):
        return {"expected": {"first column = ± unit normal": nv.tolist()}, "observed": col.tolist(), "tags": {"site": "first_column"},
                "property_failure": True}
    return None


# ------------------------------------------------------------------------------------------------
# 4. Subspace.intersect: kernel contract observed, model evaluated on it
# ------------------------------------------------------------------------------------------------
def rsub(rng, field, k, n):
    while True:
        M = C.rzmat(rng, field, k, n, 4, 2)
        if C.zrank(M) == k:
            return M


def gen_inter(rng, n):
    for _ in range(n):
        amb = rng.choice([2, 3, 3, 4, 4, 5, 6])
        k1 = rng.randint(1, amb)
        k2 = rng.randint(max(1, amb - k1 + (1 if rng.random() < 0.8 else 0)), amb)
        if k1 + k2 < amb:
            k2 = amb - k1
        field = rfield(rng)
        bc = rng.choice(["elementwise", "elementwise", "pairwise"])
        n1 = rng.choice([0, 0, 1, 2, 3])       # 0 = a single (non-composite) subspace
        n2 = n1 if bc == "elementwise" else rng.choice([0, 1, 2, 3])
        A, B = [], []
        for i in range(max(n1, 1)):
            A.append(rsub(rng, field, k1, amb))
        for j in range(max(n2, 1)):
            while True:
                b = rsub(rng, field, k2, amb)
                if all(C.zrank(a + b) == amb for a in (A if bc == "pairwise" else [A[j]])):
                    break
            B.append(b)
        yield {"amb": amb, "k1": k1, "k2": k2, "field": field, "broadcast": bc, "n1": n1, "n2": n2,
               "A": C.enc(A, field), "B": C.enc(B, field)}


def run_inter(inp):
    f = inp["field"]
    A, B = C.dec(inp["A"], f), C.dec(inp["B"], f)
    if inp["n1"] == 0:
        A = A[0]
    if inp["n2"] == 0:
        B = B[0]
    seen = {}
    orig = U.kernel

    calls = []

    def spy(mat, *a, **kw):
        k = orig(mat, *a, **kw)
        calls.append((np.asarray(mat).shape, np.array(k)))
        return k
    U.kernel = spy
    try:
        R = P.Subspace(A.copy()).intersect(P.Subspace(B.copy()), broadcast=inp["broadcast"])
    finally:
        U.kernel = orig
    res = np.asarray(R.proj_data)
    cplx = f == "QI"
    out = {"shape": list(res.shape), "res": tolist(res.astype(complex) if cplx else res)}
    # the kernel-contract model applies only when the implementation takes ONE kernel of the stacked spanning sets
    # (shape (..., n, k1+k2)); any other way of computing the intersection is judged on the public result alone
    k1, k2, amb = inp["k1"], inp["k2"], inp["amb"]
    if len(calls) == 1 and tuple(calls[0][0][-2:]) == (amb, k1 + k2) and calls[0][1].shape[-2] == k1 + k2:
        ker = calls[0][1]
        out.update(ker_shape=list(ker.shape), ker=tolist(ker.astype(complex) if cplx else ker))
    return out


def _pairs(inp):
    n1, n2 = max(inp["n1"], 1), max(inp["n2"], 1)
    if inp["broadcast"] == "pairwise":
        return [(i, j) for i in range(n1) for j in range(n2)]
    return [(i, i) for i in range(n1)]


def lean_inter(inp, obs):
    if "exc" in obs or "ker" not in obs:
        return []
    f = inp["field"]
    cplx = f == "QI"
    k1, k2, amb = inp["k1"], inp["k2"], inp["amb"]
    d = obs["ker_shape"][-1]
    if d == 0:
        return []          # trivial intersection: nothing to evaluate, the shape is judged
    ker = asarr(obs["ker"], (-1, k1 + k2, d), cplx)
    ops = []
    for u, (i, j) in enumerate(_pairs(inp)):
        if u >= ker.shape[0]:
            break
        ops.append({"op": "c16.intersect", "field": f, "n": amb, "k1": k1, "k2": k2, "d": d,
                    "p1": inp["A"][i], "p2": inp["B"][j],
                    "ker_top": C.enc(ker[u, :k1, :].tolist(), f), "ker_bot": C.enc(ker[u, k1:, :].tolist(), f)})
    return ops


def judge_inter(inp, obs, lr):
    f = inp["field"]
    cplx = f == "QI"
    k1, k2, amb = inp["k1"], inp["k2"], inp["amb"]
    tags0 = {"field": f, "broadcast": inp["broadcast"]}
    if "exc" in obs:
        return {"expected": "an intersection", "observed": obs, "tags": dict(tags0, exc=obs["exc"]), "property_failure": True}
    pairs = _pairs(inp)
    d = k1 + k2 - amb
    comp = ([max(inp["n1"], 1)] if inp["n1"] else []) + ([max(inp["n2"], 1)] if (inp["broadcast"] == "pairwise" and inp["n2"]) else [])
    if inp["broadcast"] == "pairwise" and inp["n1"] == 0 and inp["n2"]:
        comp = [inp["n2"]]
    want_shape = comp + [d, amb]
    if obs["shape"] != want_shape:
        return {"expected": {"shape": want_shape}, "observed": obs["shape"], "tags": dict(tags0, site="dimension"),
                "property_failure": True}
    if d == 0:
        return None
    res = asarr(obs["res"], (-1, d, amb), cplx)
    if len(res) != len(pairs):
        return {"expected": f"{len(pairs)} units", "observed": obs["shape"], "tags": dict(tags0, site="units"), "property_failure": True}
    # the public contract, on exact rational inputs: every unit has independent rows lying in both subspaces
    Aall, Ball = C.dec(inp["A"], f).astype(complex), C.dec(inp["B"], f).astype(complex)
    for u, (i, j) in enumerate(pairs):
        ok = (np.linalg.matrix_rank(res[u], tol=1e-9) == d and
              np.linalg.matrix_rank(np.vstack([Aall[i], res[u]]), tol=1e-9) == k1 and
              np.linalg.matrix_rank(np.vstack([Ball[j], res[u]]), tol=1e-9) == k2)
        if not ok:
            return {"expected": "independent rows lying in both subspaces (unit %d = self[%d] ∩ other[%d])" % (u, i, j),
                    "observed": res[u].tolist(), "tags": dict(tags0, site="Subspace.intersect", unit=u), "property_failure": True}
    if len(lr) != len(pairs):
        return None          # computed without the single stacked kernel: nothing more to compare
    for u, r in enumerate(lr):
        if "err" in r:
            return {"expected": "model answer", "observed": r, "tags": dict(tags0, driver_err=r["err"])}
        r = r["ok"]
        resid = float(np.max(np.abs(C.dec(r["resid"], f)))) if d else 0.0
        mres = C.dec(r["result"], f).reshape(d, amb)
        if not same(res[u], mres):
            # a different spanning set of the same subspace is what the property allows: compare the spans
            st = np.vstack([mres, res[u]])
            if not (np.linalg.matrix_rank(res[u], tol=1e-9) == d and np.linalg.matrix_rank(st, tol=1e-9) == d):
                return {"expected": r["result"], "observed": res[u].tolist(), "tags": dict(tags0, site="Subspace.intersect", unit=u)}
        if resid > 1e-9:
            # kernel contract violated by utils.kernel: then the rows do not lie in the second subspace
            via = C.dec(r["via_p2"], f).reshape(d, amb)
            return {"expected": "utils.kernel(spansᵀ) in the kernel (residual ≤ 1e-9): rows lie in both subspaces",
                    "observed": {"kernel_residual": resid, "in_second_subspace_error": err(via, mres)},
                    "tags": dict(tags0, site="kernel_contract"), "property_failure": True}
    return None


# ------------------------------------------------------------------------------------------------
# 4b. utils.broadcast_match (the pairing of units behind broadcast="pairwise"): model broadcastMatch
# ------------------------------------------------------------------------------------------------
def gen_bmatch(rng, n):
    for _ in range(n):
        n1, n2 = rng.choice([1, 1, 2, 3, 4]), rng.choice([1, 2, 2, 3, 4])
        u1 = [rng.randint(1, 3), rng.randint(1, 3)]
        u2 = [rng.randint(1, 3), rng.randint(1, 3)]
        a1 = [[[rng.randint(-9, 9) for _ in range(u1[1])] for _ in range(u1[0])] for _ in range(n1)]
        a2 = [[[rng.randint(-9, 9) for _ in range(u2[1])] for _ in range(u2[0])] for _ in range(n2)]
        yield {"n1": n1, "n2": n2, "u1": u1, "u2": u2, "a1": a1, "a2": a2}


def run_bmatch(inp):
    a1, a2 = np.array(inp["a1"], dtype=np.int64), np.array(inp["a2"], dtype=np.int64)
    t1, t2 = U.broadcast_match(a1, a2, 2)
    t1, t2 = np.asarray(t1), np.asarray(t2)
    return {"shape1": list(t1.shape), "shape2": list(t2.shape),
            "t1": t1.reshape((-1,) + tuple(inp["u1"])).tolist(), "t2": t2.reshape((-1,) + tuple(inp["u2"])).tolist()}


def lean_bmatch(inp, obs):
    return [{"op": "c16.broadcast_match", "a1": inp["a1"], "a2": inp["a2"]}]


def judge_bmatch(inp, obs, lr):
    tags0 = {"site": "utils.broadcast_match"}
    if "exc" in obs:
        return {"expected": "tiled arrays", "observed": obs, "tags": dict(tags0, exc=obs["exc"])}
    r = lr[0]
    if "err" in r:
        return {"expected": "model answer", "observed": r, "tags": dict(tags0, driver_err=r["err"])}
    want1, want2 = [inp["n1"], inp["n2"]] + inp["u1"], [inp["n1"], inp["n2"]] + inp["u2"]
    if obs["shape1"] != want1 or obs["shape2"] != want2:
        return {"expected": {"shapes": [want1, want2]}, "observed": [obs["shape1"], obs["shape2"]], "tags": dict(tags0, shape=True)}
    m1, m2 = r["ok"]
    if m1 != obs["t1"] or m2 != obs["t2"]:
        return {"expected": {"model": r["ok"]}, "observed": [obs["t1"], obs["t2"]], "tags": dict(tags0, values=True)}
    return None


# ------------------------------------------------------------------------------------------------
# 5. eigenvector / diagonalize: eig contract observed, selection executed in the model
# ------------------------------------------------------------------------------------------------
def gen_eig(rng, n):
    for _ in range(n):
        m = rng.choice([2, 2, 3, 3, 4, 5, 6])
        field = "QI" if rng.random() < 0.3 else "Q"
        ncomp = rng.choice([0, 0, 1, 2, 3])
        units, lams = [], []
        target = F(rng.randint(-6, 6), rng.choice([1, 2]))
        rot_re = None
        near = rng.random() < 0.3        # a second eigenvalue at relative distance 1e-4..1e-2 from the requested one
        for u in range(max(ncomp, 1)):
            kind = rng.choice(["diagble", "diagble", "diagble", "rotation"]) if field == "Q" else "diagble"
            if kind == "rotation" and m >= 2:
                # real matrix with a pair of non-real eigenvalues: block rotation + real eigenvalues
                c_, s_ = Q.rrot(rng)
                if s_ == 0:
                    c_, s_ = F(3, 5), F(4, 5)
                D = [[Z(0)] * m for _ in range(m)]
                D[0][0], D[0][1], D[1][0], D[1][1] = Z(c_), Z(-s_), Z(s_), Z(c_)
                rot_re = c_
                lam = []
                for i in range(2, m):
                    while True:
                        l = F(rng.randint(-6, 6), rng.choice([1, 2]))
                        if l != 0 and l not in lam:
                            break
                    lam.append(l)
                    D[i][i] = Z(l)
                lam_all = [None, None] + lam
            else:
                lam = []
                has_t = rng.random() < 0.7
                for i in range(m):
                    while True:
                        l = F(rng.randint(-6, 6), rng.choice([1, 2]))
                        if l != 0 and l not in lam and (l != target or (has_t and target not in lam)):
                            break
                    lam.append(l)
                if has_t and target != 0 and target not in lam:
                    lam[rng.randrange(m)] = target
                if near and target != 0 and target in lam and m >= 2:
                    j = next(i for i in range(m) if lam[i] != target)
                    lam[j] = target * (1 + F(rng.choice([-1, 1]) * rng.randint(2, 90), 10000))
                D = [[Z(lam[i]) if i == j else Z(0) for j in range(m)] for i in range(m)]
                lam_all = lam
            g = C.rzinv(rng, field, m, 2, 1, F(1))
            Pm = C.zmat_mul(C.zmat_mul(C.zinv(g), D), g)      # row matrix: rows of g are (left) eigenvectors
            units.append(Pm)
            lams.append([None if l is None else Q.qs(l) for l in lam_all])
        ev = rng.choice(["none", "target", "target", "absent"])
        evs = None if ev == "none" else (Q.qs(target) if ev == "target" else "1000")
        if rot_re is not None and rng.random() < 0.5:
            evs = Q.qs(rot_re)           # the real part of a non-real pair is NOT an eigenvalue
        yield {"m": m, "field": field, "ncomp": ncomp, "units": C.enc(units, field), "lams": lams, "eigenvalue": evs}


def _eig_obs(Pm):
    vals, V = np.linalg.eig(np.swapaxes(Pm, -1, -2))
    return vals, V


def run_eig(inp):
    f = inp["field"]
    Pm = C.dec(inp["units"], f)
    if inp["ncomp"] == 0:
        Pm = Pm[0]
    T = P.Transformation(Pm.copy())
    ev = None if inp["eigenvalue"] is None else float(F(inp["eigenvalue"]))
    out = {}
    vals, V = _eig_obs(np.asarray(T.proj_data))
    out["eig_complex"] = bool(np.iscomplexobj(V))
    out["vals"] = tolist(vals.astype(complex))
    out["V"] = tolist(V.astype(complex))
    try:
        pt = T.eigenvector(ev)
        v = np.asarray(pt.proj_data)
        out["vec"] = tolist(v.astype(complex))
        out["vec_shape"] = list(v.shape)
        # the property on the implementation: v P = λ v for some eigenvalue λ passing the mask
        w = np.einsum("...i,...ij->...j", v, np.asarray(T.proj_data))
        out["image"] = tolist(w.astype(complex))
    except GeometryError:
        out["vec"] = "GeometryError"
    M, Mi = T.diagonalize(return_inv=True)
    out["M"] = tolist(np.asarray(M.proj_data).astype(complex))
    out["Mi"] = tolist(np.asarray(Mi.proj_data).astype(complex))
    out["D"] = tolist(np.asarray((Mi @ T @ M).proj_data).astype(complex))
    return out


def lean_eig(inp, obs):
    if "exc" in obs:
        return []
    m = inp["m"]
    nu = max(inp["ncomp"], 1)
    vals = asarr(obs["vals"], (nu, m), True)
    V = asarr(obs["V"], (nu, m, m), True)
    f2 = "QI" if (obs["eig_complex"] or inp["field"] == "QI") else "Q"
    cast = (lambda a: a) if f2 == "QI" else (lambda a: a.real)
    units = [{"vals": C.enc(cast(vals[u]).tolist(), f2), "V": C.enc(cast(V[u]).tolist(), f2)} for u in range(nu)]
    ops = [{"op": "c16.eigvec", "field": f2, "m": m, "composite": inp["ncomp"] > 0, "units": units,
            "eigenvalue": inp["eigenvalue"]}]
    Pm = C.dec(inp["units"], inp["field"]).astype(complex)
    Mi = asarr(obs["Mi"], (nu, m, m), True)
    Mfr = asarr(obs["M"], (nu, m, m), True)
    for u in range(nu):
        # the diagonalising frame is not unique (order, scale of the eigenvectors): the model is evaluated on the frame the
        # implementation returned (stored as the transpose of the column frame) and on the inverse it returned
        ops.append({"op": "c16.diag", "field": "QI", "m": m, "V": C.enc(Mfr[u].T.tolist(), "QI"),
                    "W": C.enc(Mi[u].tolist(), "QI"), "P": C.enc(Pm[u].tolist(), "QI")})
    return ops


def judge_eig(inp, obs, lr):
    m = inp["m"]
    nu = max(inp["ncomp"], 1)
    tags0 = {"field": inp["field"], "composite": inp["ncomp"] > 0, "eigenvalue": "none" if inp["eigenvalue"] is None else "given"}
    if "exc" in obs:
        return {"expected": "eigenvector / diagonalize", "observed": obs, "tags": dict(tags0, exc=obs["exc"]), "property_failure": True}
    tags0["complex_eig"] = obs["eig_complex"]
    f2 = "QI" if (obs["eig_complex"] or inp["field"] == "QI") else "Q"
    r0 = lr[0]
    if "err" in r0 and r0["err"] != "GeometryError":
        return {"expected": "model answer", "observed": r0, "tags": dict(tags0, driver_err=r0["err"])}
    # Which eigenvector is reported (first match, scale, sign) is not part of the property, and neither is the way the
    # eigen-decomposition is obtained.  If the implementation's answer is the model's selection from the observed
    # np.linalg.eig output, fine; otherwise the answer is judged on the public contract with the EXACT spectrum of the
    # generated matrices: v·P = λ·v with λ the requested eigenvalue; zero vector / GeometryError exactly when no
    # eigenvalue passes the mask.
    ev = None if inp["eigenvalue"] is None else float(F(inp["eigenvalue"]))
    Pm = C.dec(inp["units"], inp["field"]).astype(complex)
    def has_match(u):
        if ev is None:
            return True
        return any(l is not None and abs(float(F(l)) - ev) <= 1e-8 + 1e-5 * abs(ev) for l in inp["lams"][u])
    agrees = False
    if "ok" in r0 and obs["vec"] != "GeometryError":
        mv = C.dec(r0["ok"], f2).astype(complex).reshape(-1, m)
        agrees = same(asarr(obs["vec"], (-1, m), True), mv, 1e-12)
    if "err" in r0 and obs["vec"] == "GeometryError":
        agrees = True
    if not agrees:
        if obs["vec"] == "GeometryError":
            if inp["ncomp"] > 0 or has_match(0):
                return {"expected": "an eigenvector (an eigenvalue passes the mask)" if has_match(0) else "zero vectors, no error, for composites",
                        "observed": "GeometryError", "tags": dict(tags0, site="eigenvector_error"), "property_failure": True}
        else:
            pv = asarr(obs["vec"], (-1, m), True)
            img = asarr(obs["image"], (-1, m), True)
            for u in range(nu):
                v, w = pv[u], img[u]
                if np.max(np.abs(v)) == 0:
                    if has_match(u) or inp["ncomp"] == 0:
                        return {"expected": "a non-zero eigenvector", "observed": obs["vec"], "tags": dict(tags0, site="zero_vector", unit=u),
                                "property_failure": True}
                    continue
                if not has_match(u):
                    return {"expected": "no eigenvector reported: no eigenvalue passes the mask", "observed": obs["vec"],
                            "tags": dict(tags0, site="eigenvector_error", unit=u), "property_failure": True}
                k = int(np.argmax(np.abs(v)))
                lam = w[k] / v[k]
                if np.max(np.abs(w - lam * v)) > 1e-7 * np.max(np.abs(v)) * (1 + np.max(np.abs(Pm[u]))):
                    return {"expected": "v·P = λ·v", "observed": obs["vec"], "tags": dict(tags0, site="eigenvector", not_an_eigenvector=True, unit=u),
                            "property_failure": True}
                if ev is not None and abs(lam - ev) > 1e-4 * (1 + abs(ev)):
                    return {"expected": "an eigenvector for the requested eigenvalue %r" % ev, "observed": {"eigenvalue": [lam.real, lam.imag]},
                            "tags": dict(tags0, site="eigenvector", wrong_eigenvalue=True, unit=u), "property_failure": True}
    Pm = C.dec(inp["units"], inp["field"]).astype(complex)
    Mpy = asarr(obs["M"], (nu, m, m), True)
    Dpy = asarr(obs["D"], (nu, m, m), True)
    for u in range(nu):
        r = lr[1 + u]
        if "err" in r:
            return {"expected": "model answer", "observed": r, "tags": dict(tags0, driver_err=r["err"])}
        r = r["ok"]
        scale = 1 + np.max(np.abs(Pm[u]))
        if not close(Dpy[u], C.dec(r["conj"], "QI"), 1e-8 * scale):
            return {"expected": r["conj"], "observed": Dpy[u].tolist(), "tags": dict(tags0, site="M.inv()@T@M")}
        D = Dpy[u]
        off = D - np.diag(np.diag(D))
        if np.max(np.abs(off)) > 1e-7 * scale:
            return {"expected": "diagonal matrix", "observed": D.tolist(), "tags": dict(tags0, site="diagonalize_spec"),
                    "property_failure": True}
    return None


# ------------------------------------------------------------------------------------------------
# oracles: the property itself on the implementation, float / complex inputs
# ------------------------------------------------------------------------------------------------
def fnum(rng, cplx, scale=2.0):
    return complex(rng.gauss(0, scale), rng.gauss(0, scale)) if cplx else rng.gauss(0, scale)


def fscale(rng, cplx):
    k = rng.choice(["pos", "neg", "any", "imag", "tiny", "huge"])
    mag = math.exp(rng.uniform(-2, 2))
    if k == "tiny":
        mag = 10.0 ** rng.uniform(-30, -6)
    if k == "huge":
        mag = 10.0 ** rng.uniform(6, 30)
    if not cplx:
        return -mag if k == "neg" or (k != "pos" and rng.random() < 0.5) else mag
    if k == "imag":
        return complex(0.0, mag * rng.choice([-1, 1]))
    ph = rng.uniform(0, 2 * math.pi)
    return complex(mag * math.cos(ph), mag * math.sin(ph))


def enc_c(a):
    a = np.asarray(a)
    if np.iscomplexobj(a):
        return {"cplx": True, "shape": list(a.shape), "v": [[z.real, z.imag] for z in a.reshape(-1)]}
    return {"cplx": False, "shape": list(a.shape), "v": a.reshape(-1).tolist()}


def dec_c(d):
    if d["cplx"]:
        return np.array([complex(x, y) for x, y in d["v"]], dtype=complex).reshape(d["shape"])
    return np.array(d["v"], dtype=float).reshape(d["shape"])


def gen_rt(rng, n):
    for _ in range(n):
        dim = rng.choice([1, 2, 3, 4, 5])
        c = rng.randrange(dim + 1)
        cplx = rng.random() < 0.5
        shape = rng.choice([[], [3], [2, 2], [1, 2], [2, 1, 2]])
        cnt = int(np.prod(shape)) if shape else 1
        a = np.array([[fnum(rng, cplx) for _ in range(dim)] for _ in range(cnt)]).reshape(tuple(shape) + (dim,))
        s = np.array([fscale(rng, cplx) for _ in range(cnt)]).reshape(tuple(shape) + (1,))
        outside = rng.random() < 0.25
        yield {"dim": dim, "c": c, "a": enc_c(a), "s": enc_c(s), "outside": outside, "which": rng.randrange(cnt)}


def run_rt(inp):
    a, s, c = dec_c(inp["a"]), dec_c(inp["s"]), inp["c"]
    pt = P.Point(a.copy(), chart_index=c)
    x = np.asarray(pt.proj_data)
    out = {"slot_err": float(np.max(np.abs(x[..., c] - 1))), "shape_ok": list(x.shape) == list(a.shape[:-1]) + [inp["dim"] + 1]}
    y = x * s
    if inp["outside"]:
        flat = y.reshape(-1, inp["dim"] + 1)
        flat[inp["which"], c] = 0
        y = flat.reshape(y.shape)
    q = P.Point(y.copy())
    out["in_chart"] = np.asarray(q.in_affine_chart(c)).reshape(-1).tolist()
    out["chart_nonzero"] = (y[..., c] != 0).reshape(-1).tolist()
    got = gerr(lambda: q.affine_coords(chart_index=c))
    out["fn"] = "GeometryError" if isinstance(gerr(lambda: P.affine_coords(y.copy(), chart_index=c)), str) else "ok"
    if isinstance(got, str):
        out["back"] = got
    else:
        out["back"] = "ok"
        out["err"] = err(np.asarray(got), a)
    return out


def judge_rt(inp, obs, lr):
    tags0 = {"cplx": inp["a"]["cplx"], "outside": inp["outside"]}
    if "exc" in obs:
        return {"expected": "round trip", "observed": obs, "tags": dict(tags0, exc=obs["exc"])}
    if obs["slot_err"] != 0 or not obs["shape_ok"]:
        return {"expected": "1 in the chart slot", "observed": obs, "tags": dict(tags0, site="chart_slot")}
    if obs["in_chart"] != obs["chart_nonzero"]:
        return {"expected": obs["chart_nonzero"], "observed": obs["in_chart"], "tags": dict(tags0, site="in_affine_chart")}
    should_fail = not all(obs["chart_nonzero"])
    for k in ("back", "fn"):
        if should_fail and obs[k] != "GeometryError":
            return {"expected": "GeometryError: a chart coordinate is exactly zero", "observed": obs[k], "tags": dict(tags0, site=k, missed=True)}
        if not should_fail and obs[k] == "GeometryError":
            return {"expected": "affine coordinates: every chart coordinate is non-zero", "observed": "GeometryError",
                    "tags": dict(tags0, site=k, rejected_valid=True)}
    if not should_fail and obs["err"] > 1e-9:
        return {"expected": "same affine coordinates after rescaling (rel 1e-9)", "observed": obs["err"], "tags": dict(tags0, site="roundtrip")}
    return None


def gen_maps_o(rng, n):
    for _ in range(n):
        dim = rng.choice([1, 2, 3, 4, 5])
        c = rng.randrange(dim + 1)
        cplx = rng.random() < 0.5
        shape = rng.choice([[], [3], [2, 2]])
        cnt = int(np.prod(shape)) if shape else 1
        a = np.array([[fnum(rng, cplx) for _ in range(dim)] for _ in range(cnt)]).reshape(tuple(shape) + (dim,))
        s = np.array([fscale(rng, cplx) if rng.random() < 0.5 else 1.0 for _ in range(cnt)]).reshape(tuple(shape) + (1,))
        s = np.clip(np.abs(s), 1e-3, 1e3) * (s / np.abs(s))
        while True:
            L = np.array([[fnum(rng, cplx, 1.0) for _ in range(dim)] for _ in range(dim)])
            if abs(np.linalg.det(L)) > 0.05 and np.linalg.cond(L) < 1e4:
                break
        t = np.array([fnum(rng, cplx) for _ in range(dim)])
        if rng.random() < 0.4:
            t = t * 10.0 ** rng.randint(-9, 9)
        if rng.random() < 0.3:
            L = L * 10.0 ** rng.randint(-9, 9)
        yield {"dim": dim, "c": c, "a": enc_c(a), "s": enc_c(s), "L": enc_c(L), "t": enc_c(t), "cv": rng.random() < 0.5}


def run_maps_o(inp):
    a, s, L, t, c = dec_c(inp["a"]), dec_c(inp["s"]), dec_c(inp["L"]), dec_c(inp["t"]), inp["c"]
    pt = P.Point(np.asarray(P.Point(a.copy(), chart_index=c).proj_data) * s)
    T = P.affine_linear_map(L.copy(), chart_index=c, column_vectors=inp["cv"])
    S = P.affine_translation(t.copy(), chart_index=c)
    g1 = (T @ pt).affine_coords(chart_index=c)
    g2 = (S @ pt).affine_coords(chart_index=c)
    g3 = (T @ (S @ pt)).affine_coords(chart_index=c)
    lin = (lambda v: v @ L.T) if inp["cv"] else (lambda v: v @ L)
    sc = 1 + np.max(np.abs(a)) + np.max(np.abs(t))
    return {"lin": err(g1, lin(a)), "tr": err(np.asarray(g2, dtype=complex), np.asarray(a + t, dtype=complex)),
            "both": float(np.max(np.abs(np.asarray(g3, dtype=complex) - lin(a + t))) / (sc * (1 + np.max(np.abs(L)))))}


def judge_maps_o(inp, obs, lr):
    tags0 = {"cplx": inp["a"]["cplx"], "cv": inp["cv"]}
    if "exc" in obs:
        return {"expected": "affine maps", "observed": obs, "tags": dict(tags0, exc=obs["exc"])}
    if obs["lin"] > 1e-8:
        return {"expected": "acts as the linear map in the chart", "observed": obs, "tags": dict(tags0, site="linear")}
    if obs["tr"] > 1e-8:
        return {"expected": "acts as the translation in the chart", "observed": obs,
                "tags": dict(tags0, site="translation", complex_translation=inp["t"]["cplx"])}
    if obs["both"] > 1e-8:
        return {"expected": "composition acts as L(a+t)", "observed": obs, "tags": dict(tags0, site="composition")}
    return None


def gen_hyp_o(rng, n):
    for _ in range(n):
        m = rng.choice([2, 3, 4, 5, 6])
        nv = [rng.gauss(0, 1) for _ in range(m)]
        if rng.random() < 0.2:
            k = rng.randrange(m)
            nv = [v if i == k else 0.0 for i, v in enumerate(nv)]
        sc = 10.0 ** rng.uniform(-9, 9) if rng.random() < 0.6 else math.exp(rng.uniform(-3, 3))
        if rng.random() < 0.15:
            nv = [float(x) for x in rng.choice([[3, 4, 12], [0, 3, 4], [1, 0, 0], [0, 0, 1], [2, -1, 2]])][:m] + [0.0] * max(0, m - 3)
            if not any(nv):
                nv[0] = 1.0
        nv = [v * sc for v in nv]
        pts = [[rng.gauss(0, 1) for _ in range(m)] for _ in range(4)]
        yield {"m": m, "normal": nv, "pts": pts}


def run_hyp_o(inp):
    nv = np.array(inp["normal"])
    T = P.hyperplane_coordinate_transform(nv.copy())
    M = np.asarray(T.proj_data)
    pts = np.array(inp["pts"])
    nn = nv / np.linalg.norm(nv)
    on = pts - np.outer(pts @ nn, nn)          # points of the hyperplane
    img_on = np.asarray((T @ P.Point(on)).proj_data)
    img_off = np.asarray((T @ P.Point(pts)).proj_data)
    img_n = np.asarray((T @ P.Point(nv)).proj_data)
    e0 = np.eye(inp["m"])[0]
    # the orientation (normal to +e0 or to -e0) is not part of the property: one global sign is allowed
    return {"orth": float(np.max(np.abs(M @ M.T - np.eye(inp["m"])))),
            "on": float(np.max(np.abs(img_on[:, 0]))),
            "off": float(min(np.max(np.abs(img_off[:, 0] - pts @ nn)), np.max(np.abs(img_off[:, 0] + pts @ nn)))),
            "normal_image": float(min(np.max(np.abs(img_n / np.linalg.norm(nv) - e0)), np.max(np.abs(img_n / np.linalg.norm(nv) + e0))))}


def judge_hyp_o(inp, obs, lr):
    if "exc" in obs:
        return {"expected": "hyperplane transform", "observed": obs, "tags": {"exc": obs["exc"]}}
    for k, what in (("orth", "orthogonal matrix"), ("on", "points of the hyperplane go to chart-0 infinity"),
                    ("off", "chart-0 coordinate = ± signed distance to the hyperplane"),
                    ("normal_image", "unit normal goes to ±e0")):
        if not (obs[k] <= 1e-9):
            return {"expected": what, "observed": obs, "tags": {"site": k}}
    return None


def gen_inter_o(rng, n):
    for _ in range(n):
        amb = rng.choice([2, 3, 4, 5, 6])
        k1 = rng.randint(1, amb)
        k2 = rng.randint(max(1, amb - k1), amb)
        cplx = rng.random() < 0.5
        bc = rng.choice(["elementwise", "pairwise"])
        s1 = rng.choice([[], [2], [3], [2, 2]])
        s2 = s1 if bc == "elementwise" else rng.choice([[], [2], [1, 3]])
        def mk(s, k):
            a = np.array([fnum(rng, cplx, 1.0) for _ in range(int(np.prod(s)) * k * amb if s else k * amb)]).reshape(tuple(s) + (k, amb))
            if rng.random() < 0.5:
                # spanning sets of very different magnitude, member by member (and vector by vector): the subspace is the same.
                # lower bound 1e-5: utils.kernel decides the rank with the ABSOLUTE threshold 1e-8 on singular values, so on the
                # clean tree spanning vectors below ~1e-7 are taken for zero (stated limit of this clause)
                sc = 10.0 ** np.array([rng.uniform(-4, 5) for _ in range(a.size // amb)]).reshape(a.shape[:-1] + (1,))
                if rng.random() < 0.5:
                    sc = sc[..., :1, :] * np.ones_like(sc)           # one scale per member
                a = a * sc
            return a
        yield {"amb": amb, "k1": k1, "k2": k2, "broadcast": bc, "A": enc_c(mk(s1, k1)), "B": enc_c(mk(s2, k2))}


def _span_dist(rows, basis):
    """largest distance of a unit row from the row span of basis (least squares)."""
    worst = 0.0
    for r in rows:
        nr = np.linalg.norm(r)
        if nr == 0:
            return float("inf")
        coef, *_ = np.linalg.lstsq(basis.T, r / nr, rcond=None)
        worst = max(worst, float(np.linalg.norm(basis.T @ coef - r / nr)))
    return worst


def run_inter_o(inp):
    A, B = dec_c(inp["A"]), dec_c(inp["B"])
    R = P.Subspace(A.copy()).intersect(P.Subspace(B.copy()), broadcast=inp["broadcast"])
    res = np.asarray(R.proj_data)
    k1, k2, amb = inp["k1"], inp["k2"], inp["amb"]
    d = k1 + k2 - amb
    sa, sb = list(A.shape[:-2]), list(B.shape[:-2])
    want = (sa + sb if inp["broadcast"] == "pairwise" else sa) + [d, amb]
    out = {"shape": list(res.shape), "want_shape": want}
    if out["shape"] != want:
        return out
    if d == 0:
        out.update(inA=0.0, inB=0.0, rank_ok=True, cond=1.0, single_ok=True)
        return out
    Af, Bf = A.reshape((-1, k1, amb)), B.reshape((-1, k2, amb))
    Rf = res.reshape((-1, d, amb))
    inA = inB = 0.0
    rank_ok = True
    cond = 0.0
    unit = lambda M: M / np.linalg.norm(M, axis=-1, keepdims=True)      # a subspace does not depend on the size of its spanning vectors
    single_ok = True
    ratio = 1.0
    for u in range(Rf.shape[0]):
        i, j = (divmod(u, Bf.shape[0]) if inp["broadcast"] == "pairwise" else (u, u))
        Au, Bu, Ru = unit(Af[i]), unit(Bf[j]), unit(Rf[u])
        cond = max(cond, float(np.linalg.cond(np.vstack([Au, Bu]))), float(np.linalg.cond(Au)), float(np.linalg.cond(Bu)))
        # the code takes an SVD of the stacked spanning sets as given: rows of very different size cost eps·(largest/smallest)
        # in accuracy on the clean tree; tolerances below are relative to that conditioning
        nrm = np.linalg.norm(np.vstack([Af[i], Bf[j]]), axis=-1)
        ratio = max(ratio, float(np.max(nrm) / np.min(nrm)))
        rtol = max(1e-8, 1e4 * 2.2e-16 * ratio)
        if d:
            inA = max(inA, _span_dist(Ru, Au))
            inB = max(inB, _span_dist(Ru, Bu))
            rank_ok = rank_ok and np.linalg.matrix_rank(Ru, tol=10 * rtol) == d
            # member u of the composite answer spans the same subspace as the single-object call on the same members
            Rs = unit(np.asarray(P.Subspace(Af[i].copy()).intersect(P.Subspace(Bf[j].copy())).proj_data))
            # compared row by row through least-squares distances to the other span (a numerical rank of the stacked rows is fragile when the
            # rows of a badly conditioned basis are themselves nearly parallel)
            single_ok = single_ok and Rs.shape == Ru.shape and max(_span_dist(Ru, Rs), _span_dist(Rs, Ru)) <= 100 * rtol * cond
    out.update(inA=inA, inB=inB, rank_ok=bool(rank_ok), cond=cond, single_ok=bool(single_ok), ratio=ratio)
    return out


def judge_inter_o(inp, obs, lr):
    tags0 = {"cplx": inp["A"]["cplx"], "broadcast": inp["broadcast"]}
    if "exc" in obs:
        return {"expected": "an intersection", "observed": obs, "tags": dict(tags0, exc=obs["exc"])}
    if obs["shape"] != obs["want_shape"]:
        return {"expected": obs["want_shape"], "observed": obs["shape"], "tags": dict(tags0, site="dimension")}
    if obs["cond"] > 1e5:
        return None       # nearly non-transverse sample: no claim
    tol = max(1e-8, 1e4 * 2.2e-16 * obs.get("ratio", 1.0)) * obs["cond"]
    if obs["inA"] > tol:
        return {"expected": "rows in the first subspace", "observed": obs, "tags": dict(tags0, site="in_first")}
    if obs["inB"] > tol:
        return {"expected": "rows in the second subspace", "observed": obs, "tags": dict(tags0, site="in_second")}
    if obs.get("ratio", 1.0) > 1e3:
        # badly scaled spanning vectors: the returned basis (combinations of the given vectors) is itself badly conditioned on the
        # clean tree, so numerical rank / span comparisons are not claimed; membership in both subspaces, the number of rows and
        # "valid input does not raise" are
        return None
    if not obs["rank_ok"]:
        return {"expected": "independent rows (dimension k1+k2-n)", "observed": obs, "tags": dict(tags0, site="rank")}
    if not obs.get("single_ok", True):
        return {"expected": "each member of the composite intersection spans what the single-object call gives", "observed": obs,
                "tags": dict(tags0, site="member_vs_single")}
    return None


def gen_eig_o(rng, n):
    for _ in range(n):
        m = rng.choice([2, 3, 4, 5, 6])
        cplx = rng.random() < 0.35
        shape = rng.choice([[], [], [2], [3], [2, 2]])
        cnt = int(np.prod(shape)) if shape else 1
        kind = rng.choice(["real_spectrum", "real_spectrum", "generic"])
        sparse = kind == "real_spectrum" and rng.random() < 0.3
        mats, lams = [], []
        for _ in range(cnt):
            while True:
                g = np.array([[fnum(rng, cplx, 1.0) for _ in range(m)] for _ in range(m)])
                if np.linalg.cond(g) < 50:
                    break
            if kind == "generic" and rng.random() < 0.6:
                # structured matrices: symmetric (real, and COMPLEX symmetric non-Hermitian), Hermitian, skew, normal, near-defective
                st = rng.choice(["sym", "csym", "csym_imag", "herm", "skew", "normal", "near_defective"])
                Cm = np.array([[complex(rng.gauss(0, 1), rng.gauss(0, 1)) for _ in range(m)] for _ in range(m)])
                Rm = Cm.real.copy()
                if st == "sym":
                    g = Rm + Rm.T
                elif st == "csym":
                    g = Cm + Cm.T
                elif st == "csym_imag":
                    g = 1j * (Rm + Rm.T) + np.diag(np.arange(m) * 0.7)
                elif st == "herm":
                    g = Cm + Cm.conj().T
                elif st == "skew":
                    g = Rm - Rm.T
                elif st == "normal":
                    Qm, _ = np.linalg.qr(Cm)
                    g = Qm @ np.diag([complex(rng.gauss(0, 1), rng.gauss(0, 1)) for _ in range(m)]) @ Qm.conj().T
                else:
                    Jd = np.diag(np.arange(1, m + 1) * 0.5)
                    Jd[0, 1] = 1.0
                    Jd[1, 1] = Jd[0, 0] + 1e-4
                    g = np.linalg.inv(Rm + 3 * np.eye(m)) @ Jd @ (Rm + 3 * np.eye(m))
            if kind == "real_spectrum" and sparse:
                # chart-preserving / block-triangular conjugators (wave 6): eigenvectors with EXACTLY zero coordinates (points at
                # infinity of an affine chart), all other coordinates of one sign
                g = np.triu(np.abs(g.real)) + np.eye(m) if rng.random() < 0.5 else np.tril(-np.abs(g.real)) - np.eye(m)
                if rng.random() < 0.5:
                    g = g[::-1, ::-1].copy()
            if kind == "real_spectrum":
                lam = np.array(sorted(rng.sample(range(-9, 10), m))) / 2.0 + 0.25
                if rng.random() < 0.3:
                    lam[1] = lam[0] * (1 + rng.choice([-1, 1]) * 10 ** rng.uniform(-3.7, -2.0))   # close, but distinct
                M = np.linalg.inv(g) @ np.diag(lam) @ g
                if sparse and m >= 3 and rng.random() < 0.7:
                    # dense affine block: [[lam0, 0], [t, A]] or its transpose, A = h^-1 diag(lam[1:]) h dense — the shape of
                    # projective.affine_linear_map / affine_translation outputs; eigenvectors at infinity have chart coordinate 0
                    while True:
                        h = np.array([[rng.gauss(0, 1) for _ in range(m - 1)] for _ in range(m - 1)])
                        if np.linalg.cond(h) < 50:
                            break
                    Ab = np.linalg.inv(h) @ np.diag(lam[1:]) @ h
                    M = np.zeros((m, m))
                    M[0, 0] = lam[0]
                    M[1:, 1:] = Ab
                    tvec = np.array([rng.gauss(0, 1) for _ in range(m - 1)]) * rng.choice([0.0, 1.0, 1.0])
                    if rng.random() < 0.5:
                        M[1:, 0] = tvec
                    else:
                        M[0, 1:] = tvec
            else:
                M = g
                lam = np.linalg.eigvals(M.T)
            mats.append(M)
            lams.append(lam)
        ev = rng.choice(["none", "first", "absent"]) if kind == "real_spectrum" else "none"
        evv = None if ev == "none" else (float(lams[0][rng.randrange(m)]) if ev == "first" else 77.0)
        if kind == "real_spectrum" and cnt > 1 and rng.random() < 0.4:
            # members of very different magnitude inside one stack (the eigenvalues scale along): only member 0 keeps the
            # requested eigenvalue, the others must come back as zero vectors, not as errors
            for u in range(1, cnt):
                mats[u] = mats[u] * 10.0 ** rng.randint(-6, 6)
            sc0 = 10.0 ** rng.randint(-6, 6)
            mats[0] = mats[0] * sc0
            if ev == "first":
                evv = evv * sc0
        yield {"m": m, "shape": shape, "kind": kind, "P": enc_c(np.array(mats).reshape(tuple(shape) + (m, m))), "eigenvalue": evv}


def run_eig_o(inp):
    Pm = dec_c(inp["P"])
    m = inp["m"]
    T = P.Transformation(Pm.copy())
    out = {}
    try:
        v = np.asarray(T.eigenvector(inp["eigenvalue"]).proj_data)
        vf = v.reshape(-1, m)
        Pf = np.asarray(T.proj_data).reshape(-1, m, m)
        worst, zero_units, lam_err = 0.0, 0, 0.0
        for u in range(vf.shape[0]):
            x = vf[u]
            if np.max(np.abs(x)) == 0:
                zero_units += 1
                continue
            w = x @ Pf[u]
            k = int(np.argmax(np.abs(x)))
            lam = w[k] / x[k]
            worst = max(worst, float(np.max(np.abs(w - lam * x)) / (np.max(np.abs(x)) * (1 + np.max(np.abs(Pf[u]))))))
            if inp["eigenvalue"] is not None:
                lam_err = max(lam_err, abs(lam - inp["eigenvalue"]))
        # member u of the composite answer is what the single-object call on member u reports (up to scale; GeometryError of a
        # single transformation corresponds to the zero vector of a composite)
        member_ok = True
        if inp["shape"]:
            for u in range(vf.shape[0]):
                try:
                    sv = np.asarray(P.Transformation(Pf[u].copy()).eigenvector(inp["eigenvalue"]).proj_data)
                    both = np.vstack([sv / max(np.max(np.abs(sv)), 1e-300), vf[u] / max(np.max(np.abs(vf[u])), 1e-300)])
                    member_ok = member_ok and np.max(np.abs(vf[u])) > 0 and np.linalg.matrix_rank(both, tol=1e-6) == 1
                except GeometryError:
                    member_ok = member_ok and np.max(np.abs(vf[u])) == 0
        out.update(kind="vec", resid=worst, zero_units=zero_units, lam_err=lam_err, units=int(vf.shape[0]),
                   shape_ok=list(v.shape) == inp["shape"] + [m], member_ok=bool(member_ok))
    except GeometryError:
        out["kind"] = "GeometryError"
    M, Mi = T.diagonalize(return_inv=True)
    D = np.asarray((Mi @ T @ M).proj_data).reshape(-1, m, m)
    off = 0.0
    for u in range(D.shape[0]):
        off = max(off, float(np.max(np.abs(D[u] - np.diag(np.diag(D[u])))) / (1 + np.max(np.abs(D[u])))))
    out["offdiag"] = off
    out["condV"] = float(np.max(np.linalg.cond(np.asarray(M.proj_data))))
    return out


def judge_eig_o(inp, obs, lr):
    composite = len(inp["shape"]) > 0
    tags0 = {"cplx": inp["P"]["cplx"], "composite": composite, "kind": inp["kind"],
             "eigenvalue": "none" if inp["eigenvalue"] is None else ("absent" if inp["eigenvalue"] == 77.0 else "present")}
    if "exc" in obs:
        return {"expected": "eigenvector / diagonalize", "observed": obs, "tags": dict(tags0, exc=obs["exc"])}
    if obs["kind"] == "GeometryError":
        if tags0["eigenvalue"] != "absent" or composite:
            return {"expected": "an eigenvector", "observed": "GeometryError", "tags": dict(tags0, site="eigenvector_error")}
    else:
        if tags0["eigenvalue"] == "absent" and not composite:
            return {"expected": "GeometryError (no such eigenvalue)", "observed": obs, "tags": dict(tags0, site="eigenvector_error")}
        if not obs["shape_ok"]:
            return {"expected": "one vector per unit", "observed": obs, "tags": dict(tags0, site="shape")}
        if not (obs["resid"] <= 1e-7 * max(1.0, obs["condV"])):          # (not <=: a NaN residual is a failure, not a pass)
            return {"expected": "v·P = λ·v for the reported eigenvector", "observed": obs, "tags": dict(tags0, site="eigenvector_residual")}
        if not obs.get("member_ok", True):
            return {"expected": "member i of the composite answer = the single-object answer for member i", "observed": obs,
                    "tags": dict(tags0, site="member_vs_single")}
        if obs["lam_err"] > 1e-4 * abs(inp["eigenvalue"] or 0) + (1e-4 if abs(inp["eigenvalue"] or 1) >= 1e-3 else 1e-7):
            return {"expected": f"eigenvalue {inp['eigenvalue']}", "observed": obs, "tags": dict(tags0, site="eigenvalue")}
        if tags0["eigenvalue"] == "none" and obs["zero_units"]:
            return {"expected": "an eigenvector for every unit", "observed": obs, "tags": dict(tags0, site="zero_vector")}
    if not (obs["offdiag"] <= 1e-7 * max(1.0, obs["condV"])):
        return {"expected": "M.inv() @ T @ M diagonal", "observed": obs, "tags": dict(tags0, site="diagonalize")}
    return None


# ------------------------------------------------------------------------------------------------
# generic defences G1-G4 on the projective API: histories of unrelated calls, each judged against an independent
# reference written here; inputs snapshotted; returned arrays mutated in place and the query repeated; objects with a
# history compared with fresh objects built from their current data; dtypes in every order
# ------------------------------------------------------------------------------------------------
ISO_KINDS = ["chart", "chart", "translation", "translation", "linmap", "hyp", "intersect", "eig", "apply"]
ISO_DTYPES = ["float64", "float64", "complex128", "int64", "float32"]


def gen_iso16(rng, n):
    for _ in range(n):
        steps = []
        dim = rng.choice([1, 2, 2, 3])          # one dimension per history: caches keyed on n are hit again and again
        for _ in range(rng.randint(4, 8)):
            kind = rng.choice(ISO_KINDS)
            dt = rng.choice(ISO_DTYPES)
            if kind in ("hyp", "intersect", "eig") and dt in ("int64", "float32"):
                dt = "float64"
            if kind == "hyp":
                dt = "float64"
            steps.append({"kind": kind, "dtype": dt, "c": rng.randrange(dim + 1), "seed": rng.randrange(10 ** 9),
                          "cv": rng.random() < 0.5, "mutate": rng.choice(["zero", "add"])})
        yield {"dim": dim, "steps": steps}


def _rnd(r, shape, dt):
    if dt == "int64":
        a = r.integers(-4, 5, size=shape).astype(np.int64)
        return a
    a = r.normal(size=shape)
    if dt == "complex128":
        a = a + 1j * r.normal(size=shape)
    return a.astype(dt)


def _mut(x, how):
    try:
        if how == "zero":
            x[...] = 0
        else:
            x += 1
    except (ValueError, TypeError):
        pass


def _ref_affine(x, c):
    x = np.asarray(x)
    return np.delete(x / x[..., c:c + 1], c, axis=-1)


def run_iso16(inp):
    dim = inp["dim"]
    bad = []
    def check(ok, idx, st, what):
        if not ok and len(bad) < 3:
            bad.append([idx, st["kind"], st["dtype"], what])
    for idx, st in enumerate(inp["steps"]):
        r = np.random.default_rng(st["seed"])
        c, dt, kind = st["c"], st["dtype"], st["kind"]
        tol = 1e-4 if dt == "float32" else 1e-9
        wide = lambda a: np.asarray(a).astype(complex if np.iscomplexobj(a) else float)
        if kind == "chart":
            a = _rnd(r, (3, dim), dt)
            snap = a.copy()
            pt = P.Point(a, chart_index=c)
            check(np.array_equal(a, snap), idx, st, "Point(a, chart_index) changed its argument")
            ref_proj = np.insert(wide(snap), c, 1, axis=-1)
            out = P.projective_coords(a, chart_index=c)
            check(np.array_equal(a, snap) and err(wide(out), ref_proj) <= tol, idx, st, "projective_coords value / argument")
            _mut(out, st["mutate"])
            check(err(wide(P.projective_coords(a, chart_index=c)), ref_proj) <= tol, idx, st, "projective_coords after mutating its result")
            q1 = pt.affine_coords(chart_index=c)
            check(err(wide(q1), wide(snap)) <= tol, idx, st, "Point.affine_coords")
            _mut(q1, st["mutate"])
            check(err(wide(pt.affine_coords(chart_index=c)), wide(snap)) <= tol, idx, st, "Point.affine_coords after mutating its result")
            x = np.asarray(pt.proj_data) * 3
            xs = x.copy()
            q2 = P.affine_coords(x, chart_index=c)
            check(np.array_equal(x, xs) and err(wide(q2), wide(snap)) <= tol, idx, st, "affine_coords value / argument")
            # packagings of the same data: nested list, nested tuple, a non-contiguous view, a one-shot iterator of rows
            big = np.zeros((2 * x.shape[0], x.shape[1] + 1), dtype=x.dtype)
            big[::2, 1:] = x
            for pk, val in (("list", x.tolist()), ("tuple", tuple(map(tuple, x.tolist()))), ("view", big[::2, 1:])):
                check(err(wide(P.affine_coords(val, chart_index=c)), wide(snap)) <= tol, idx, st, "affine_coords of a " + pk)
            abig = np.zeros((3, 2 * dim), dtype=a.dtype)
            abig[:, ::2] = snap
            for pk, val in (("list", snap.tolist()), ("tuple", tuple(map(tuple, snap.tolist()))), ("view", abig[:, ::2])):
                check(err(wide(P.projective_coords(val, chart_index=c)), ref_proj) <= tol, idx, st, "projective_coords of a " + pk)
            _mut(q2, st["mutate"])
            check(err(wide(P.affine_coords(x, chart_index=c)), wide(snap)) <= tol, idx, st, "affine_coords after mutating its result")
        elif kind == "translation":
            t = _rnd(r, (dim,), dt)
            snap = t.copy()
            T = P.affine_translation(t, chart_index=c)
            ref = np.eye(dim + 1, dtype=complex)
            ref[c] = np.insert(wide(snap).astype(complex), c, 1)
            M = np.asarray(T.proj_data)
            check(np.array_equal(t, snap) and M.dtype != object and mat_proj_close(M.astype(complex), ref, tol), idx, st, "affine_translation matrix / argument")
            _mut(M, st["mutate"])               # in-place change of one object's data must not leak into the next object
            t2 = _rnd(r, (dim,), dt)
            ref2 = np.eye(dim + 1, dtype=complex)
            ref2[c] = np.insert(wide(t2).astype(complex), c, 1)
            check(mat_proj_close(np.asarray(P.affine_translation(t2, chart_index=c).proj_data).astype(complex), ref2, tol), idx, st,
                  "affine_translation after mutating the previous object's matrix")
        elif kind == "linmap":
            L = _rnd(r, (dim, dim), dt)
            snap = L.copy()
            T = P.affine_linear_map(L, chart_index=c, column_vectors=st["cv"])
            blk = np.eye(dim + 1, dtype=complex)
            keep = [i for i in range(dim + 1) if i != c]
            blk[np.ix_(keep, keep)] = wide(snap)
            ref = blk.T if st["cv"] else blk
            M = np.asarray(T.proj_data)
            check(np.array_equal(L, snap) and mat_proj_close(M.astype(complex), ref, tol), idx, st, "affine_linear_map matrix / argument")
            _mut(M, st["mutate"])
            check(np.array_equal(L, snap), idx, st, "affine_linear_map argument aliased by the object")
            check(mat_proj_close(np.asarray(P.affine_linear_map(L, chart_index=c, column_vectors=st["cv"]).proj_data).astype(complex), ref, tol),
                  idx, st, "affine_linear_map after mutating the previous object's matrix")
        elif kind == "hyp":
            nv = r.normal(size=dim + 1) * 10.0 ** r.integers(-3, 4)
            if r.random() < 0.3:
                nv[r.integers(0, dim + 1)] = 0.0
                if not np.any(nv):
                    nv[0] = 1.0
            snap = nv.copy()
            for rep in range(2):
                M = np.asarray(P.hyperplane_coordinate_transform(nv).proj_data)
                col, un = M[:, 0], snap / np.linalg.norm(snap)
                ok = (np.max(np.abs(M.T @ M - np.eye(dim + 1))) <= 1e-9 and
                      (close(col, un, 1e-9) or close(-col, un, 1e-9)) and np.array_equal(nv, snap))
                check(ok, idx, st, "hyperplane_coordinate_transform" + (" after mutating its result" if rep else ""))
                _mut(M, st["mutate"])
        elif kind == "intersect":
            amb = dim + 2
            k1, k2 = amb - 1, 2
            A, B = _rnd(r, (k1, amb), dt), _rnd(r, (k2, amb), dt)
            sa, sb = A.copy(), B.copy()
            SA = P.Subspace(A)
            for rep in range(2):
                R = SA.intersect(B if rep == 0 else P.Subspace(B))
                res = np.asarray(R.proj_data)
                ok = (res.shape == (k1 + k2 - amb, amb) and np.array_equal(A, sa) and np.array_equal(B, sb) and
                      np.linalg.matrix_rank(np.vstack([sa, res]), tol=1e-8) == k1 and
                      np.linalg.matrix_rank(np.vstack([sb, res]), tol=1e-8) == k2 and np.linalg.matrix_rank(res, tol=1e-8) == 1)
                check(ok, idx, st, "Subspace.intersect" + (" after mutating its result" if rep else ""))
                _mut(res, st["mutate"])
        elif kind == "eig":
            m = dim + 1
            g = _rnd(r, (m, m), dt)
            while np.linalg.cond(g) > 30:
                g = _rnd(r, (m, m), dt)
            lam = np.arange(1, m + 1) * 0.5 + 0.25
            Pm = (np.linalg.inv(g) @ np.diag(lam) @ g)
            snap = Pm.copy()
            T = P.Transformation(Pm)
            target = float(lam[int(r.integers(0, m))])
            def resid(Tobj):
                v = np.asarray(Tobj.eigenvector(target).proj_data)
                w = v @ snap
                return float(np.max(np.abs(w - target * v)) / (np.max(np.abs(v)) * (1 + np.max(np.abs(snap))))), v
            e1, v1 = resid(T)
            _mut(v1, st["mutate"])
            Ti = T.inv()
            Dg = T.diagonalize()
            img = T @ P.Point(np.ones(m))
            _mut(np.asarray(Ti.proj_data), st["mutate"])
            _mut(np.asarray(Dg.proj_data), st["mutate"])
            e2, _ = resid(T)                                   # the object WITH a history
            e3, _ = resid(P.Transformation(snap.copy()))       # a fresh object from the same data
            check(max(e1, e2, e3) <= 1e-7 and np.array_equal(np.asarray(T.proj_data), snap), idx, st,
                  "eigenvector on an object with a history (inv, diagonalize, apply; results mutated) vs fresh object")
        else:  # apply
            a = _rnd(r, (2, dim), dt)
            L = _rnd(r, (dim, dim), "complex128" if dt == "complex128" else "float64")
            pt = P.Point(a.copy(), chart_index=c)
            before = np.asarray(pt.proj_data).copy()
            q0 = pt.affine_coords(chart_index=c)
            T = P.affine_translation(_rnd(r, (dim,), "float64"), chart_index=c)
            Tm = np.asarray(T.proj_data).copy()
            img = T @ pt
            ref_img = before @ Tm
            check(np.array_equal(np.asarray(pt.proj_data), before) and np.array_equal(np.asarray(T.proj_data), Tm), idx, st,
                  "apply changed the point or the transformation")
            check(err(wide(np.asarray(img.proj_data)), wide(ref_img)) <= tol, idx, st, "image of a point with a history")
            fresh = P.Point(np.asarray(img.proj_data).copy())
            ok = True
            try:
                qa, qb = img.affine_coords(chart_index=c), fresh.affine_coords(chart_index=c)
                ok = err(wide(qa), wide(qb)) <= tol and err(wide(qa), _ref_affine(wide(ref_img), c)) <= 10 * tol
            except GeometryError:
                ok = bool(np.any(ref_img[..., c] == 0))
            check(ok, idx, st, "query on the image vs fresh object / reference")
            _mut(np.asarray(img.proj_data), st["mutate"])
            check(np.array_equal(np.asarray(pt.proj_data), before), idx, st, "image shares memory with the original point")
    return {"bad": bad}


def judge_iso16(inp, obs, lr):
    if "exc" in obs:
        return {"expected": "every call of the history succeeds", "observed": obs, "tags": {"history": True, "exc": obs["exc"]}}
    if obs["bad"]:
        return {"expected": "each call equals its independent reference, inputs untouched, results not aliased, objects with a history "
                            "behave like fresh ones", "observed": obs["bad"], "tags": {"history": True, "site": obs["bad"][0][3]}}
    return None


# ------------------------------------------------------------------------------------------------
# objects with a HISTORY: Transformation and Point objects that answered queries and were then changed through every
# mutating API (item assignment in all key forms, set(), the setter forms of affine_coords / projective_coords with
# dtype promotions), copied, inverted or multiplied — after every step each query of the property must equal the same
# query on a FRESH object built from the object's current data, and the data must be what the harness tracked
# ------------------------------------------------------------------------------------------------
from copy import copy as _shallow


def _diagble(r, m, cplx=False):
    while True:
        g = r.normal(size=(m, m)) + (1j * r.normal(size=(m, m)) if cplx else 0)
        if np.linalg.cond(g) < 20:
            break
    lam = r.permutation(np.arange(1, m + 1)) * 0.5 + 0.25
    return np.linalg.inv(g) @ np.diag(lam) @ g, lam


def gen_hist(rng, n):
    for _ in range(n):
        yield {"obj": rng.choice(["transformation", "transformation", "point"]), "m": rng.choice([2, 3, 4]),
               "stack": rng.choice([0, 0, 3, 4]), "seed": rng.randrange(10 ** 9), "nsteps": rng.randint(3, 7),
               "dtype": rng.choice(["float64", "float64", "complex128", "int64", "float32"])}


def _eig_queries(T, target):
    out = []
    for ev in (target, None):
        try:
            out.append(np.asarray(T.eigenvector(ev).proj_data).astype(complex))
        except GeometryError:
            out.append("GeometryError")
    M = T.diagonalize()
    out.append(np.asarray(M.proj_data).astype(complex))
    return out


def _same_q(a, b):
    if isinstance(a, str) or isinstance(b, str):
        return isinstance(a, str) and isinstance(b, str)
    return a.shape == b.shape and bool(np.all(np.abs(a - b) <= 1e-12 * (1 + np.abs(b))))


def _hist_transformation(inp, bad):
    r = np.random.default_rng(inp["seed"])
    m, k = inp["m"], inp["stack"]
    cplx = inp["dtype"] == "complex128"
    def fresh_mats(cnt):
        return np.array([_diagble(r, m, cplx)[0] for _ in range(cnt)])
    cur = fresh_mats(k) if k else fresh_mats(1)[0]
    T = P.Transformation(cur.copy())
    copies = []          # (object, data it must still have) for copies that must be independent of rebinding operations
    target = 0.75
    def differential(obj, data, what, projective=False):
        d = np.asarray(obj.proj_data)
        if projective:      # inverses and products of projective transformations are defined up to a scalar per unit
            okd = d.shape == data.shape and mat_proj_close(d.astype(complex), data.astype(complex), 1e-10)
        else:
            okd = d.shape == data.shape and bool(np.all(np.abs(d - data) <= 1e-12 * (1 + np.abs(data))))
        if not okd:
            bad.append([what, "object data differs from the tracked data"])
            return
        qa, qb = _eig_queries(obj, target), _eig_queries(P.Transformation(np.array(d, copy=True)), target)
        if not all(_same_q(x, y) for x, y in zip(qa, qb)):
            bad.append([what, "eigenvector / diagonalize differ from a fresh object with the same matrix"])
    _eig_queries(T, target)           # the object answers queries first (warms whatever it may cache)
    for step in range(inp["nsteps"]):
        op = r.choice(["setitem", "setitem", "set", "copy_then_set", "inv", "product", "query"])
        what = "step %d: %s" % (step, op)
        if op == "setitem":
            if cur.ndim == 2:
                form = r.choice(["ellipsis", "slice_all"])
                M = fresh_mats(1)[0]
                if form == "ellipsis":
                    T[...] = M
                else:
                    T[:] = M
                cur = M.copy()
            else:
                form = r.choice(["int", "neg_int", "slice", "list", "mask", "ellipsis"])
                cnt = cur.shape[0]
                if form == "int":
                    i = int(r.integers(0, cnt)); M = fresh_mats(1)[0]; T[i] = M; cur[i] = M
                elif form == "neg_int":
                    M = fresh_mats(1)[0]; T[-1] = M; cur[-1] = M
                elif form == "slice":
                    M = fresh_mats(2); T[:2] = M; cur[:2] = M
                elif form == "list":
                    M = fresh_mats(2); T[[0, cnt - 1]] = M; cur[[0, cnt - 1]] = M
                elif form == "mask":
                    mask = np.zeros(cnt, dtype=bool); mask[[0, cnt - 1]] = True
                    M = fresh_mats(2); T[mask] = M; cur[mask] = M
                else:
                    M = fresh_mats(cnt); T[...] = M; cur = M.copy()
            what += " (%s)" % form
        elif op == "set":
            cur = fresh_mats(cur.shape[0]) if cur.ndim == 3 else fresh_mats(1)[0]
            T.set(cur.copy())
        elif op == "copy_then_set":
            old = np.array(np.asarray(T.proj_data), copy=True)
            copies.append((_shallow(T), old, "shallow copy taken before set()"))
            copies.append((P.Transformation(T), old, "constructor copy taken before set()"))
            cur = fresh_mats(cur.shape[0]) if cur.ndim == 3 else fresh_mats(1)[0]
            T.set(cur.copy())
        elif op == "inv":
            Ti = T.inv()
            differential(Ti, np.linalg.inv(cur), what + " -> inverse object", projective=True)
        elif op == "product":
            other = P.Transformation(fresh_mats(1)[0])
            _eig_queries(other, target)
            img = T @ other                 # apply: copy(other) + set
            differential(img, np.asarray(other.proj_data) @ cur, what + " -> T @ other", projective=True)
            img2 = other @ T
            differential(img2, cur @ np.asarray(other.proj_data), what + " -> other @ T", projective=True)
        differential(T, cur, what)
        if len(bad) >= 3:
            return
    for obj, data, label in copies:
        d = np.asarray(obj.proj_data)
        if d.shape != data.shape or not np.array_equal(d, data):
            bad.append([label, "copy changed when the original was re-set"])
        else:
            qa, qb = _eig_queries(obj, target), _eig_queries(P.Transformation(data.copy()), target)
            if not all(_same_q(x, y) for x, y in zip(qa, qb)):
                bad.append([label, "queries on the copy differ from a fresh object"])


def _hist_point(inp, bad):
    r = np.random.default_rng(inp["seed"])
    dim = inp["m"] - 1
    cnt = inp["stack"] or 1
    dt0 = inp["dtype"]
    a = _rnd(r, (cnt, dim), dt0)
    c = int(r.integers(0, dim + 1))
    pt = P.Point(a.copy(), chart_index=c)
    wide = lambda x: np.asarray(x).astype(complex)
    cur = np.insert(wide(a), c, 1, axis=-1)           # tracked projective data, widest dtype
    copies = []
    def differential(what):
        d = np.asarray(pt.proj_data)
        if d.dtype == object:
            bad.append([what, "object dtype"]); return
        tol = 1e-5 if d.dtype in (np.float32, np.complex64) else 1e-12
        if d.shape != cur.shape or not np.all(np.abs(wide(d) - cur) <= tol * (1 + np.abs(cur))):
            bad.append([what, "stored coordinates differ from what was set (dtype %s)" % d.dtype]); return
        fr = P.Point(np.array(d, copy=True))
        for cc in range(dim + 1):
            ok_chart = bool(np.all(cur[..., cc] != 0))
            qa, qb = gerr(lambda: pt.affine_coords(chart_index=cc)), gerr(lambda: fr.affine_coords(chart_index=cc))
            if isinstance(qa, str) or isinstance(qb, str):
                if not (isinstance(qa, str) and isinstance(qb, str) and not ok_chart):
                    bad.append([what, "GeometryError mismatch in chart %d" % cc])
                continue
            ref = np.delete(cur / cur[..., cc:cc + 1], cc, axis=-1)
            if not (_same_q(wide(qa), wide(qb)) and np.all(np.abs(wide(qa) - ref) <= 100 * tol * (1 + np.abs(ref)))):
                bad.append([what, "affine_coords(chart %d) differs from fresh object / tracked data" % cc])
            if np.asarray(pt.in_affine_chart(cc)).tolist() != (cur[..., cc] != 0).tolist():
                bad.append([what, "in_affine_chart(%d)" % cc])
    pt.affine_coords(chart_index=c)
    for step in range(inp["nsteps"]):
        op = r.choice(["set_affine", "set_affine", "set_proj", "set", "copy_then_setter", "apply", "query"])
        dt1 = r.choice(["float64", "complex128", "int64", "float32"])     # dtype of the NEW data, independent of the object's
        what = "step %d: %s <- %s (object built from %s)" % (step, op, dt1, dt0)
        if op in ("set_affine", "copy_then_setter"):
            if op == "copy_then_setter":
                old = np.array(np.asarray(pt.proj_data), copy=True)
                copies.append((_shallow(pt), old, "shallow copy taken before the affine_coords setter"))
                copies.append((P.Point(pt), old, "constructor copy taken before the affine_coords setter"))
            cc = int(r.integers(0, dim + 1))
            new = _rnd(r, (cnt, dim), dt1)
            snap = new.copy()
            got = pt.affine_coords(new, chart_index=cc)
            if not np.array_equal(new, snap):
                bad.append([what, "setter changed its argument"])
            cur = np.insert(wide(snap), cc, 1, axis=-1)
            if not np.all(np.abs(wide(got) - wide(snap)) <= 1e-5 * (1 + np.abs(wide(snap)))):
                bad.append([what, "value returned by the setter call"])
        elif op == "set_proj":
            new = _rnd(r, (cnt, dim + 1), dt1)
            pt.projective_coords(new.copy())
            cur = wide(new)
        elif op == "set":
            new = _rnd(r, (cnt, dim + 1), dt1)
            pt.set(new.copy())
            cur = wide(new)
        elif op == "apply":
            t = r.normal(size=dim)
            cc = int(r.integers(0, dim + 1))
            Tt = P.affine_translation(t, chart_index=cc)
            before = np.array(np.asarray(pt.proj_data), copy=True)
            pt = Tt @ pt
            cur = cur @ np.asarray(Tt.proj_data)
        differential(what)
        if len(bad) >= 3:
            return
    for obj, data, label in copies:
        if not np.array_equal(np.asarray(obj.proj_data), data):
            bad.append([label, "copy changed when the original's coordinates were set"])


def run_hist(inp):
    bad = []
    (_hist_transformation if inp["obj"] == "transformation" else _hist_point)(inp, bad)
    return {"bad": bad[:3]}


def judge_hist(inp, obs, lr):
    tags0 = {"history": True, "object": inp["obj"]}
    if "exc" in obs:
        return {"expected": "every step of the history succeeds", "observed": obs, "tags": dict(tags0, exc=obs["exc"])}
    if obs["bad"]:
        return {"expected": "after every step the object answers like a fresh object built from its current data, and holds the data it was given",
                "observed": obs["bad"], "tags": dict(tags0, site=obs["bad"][0][1])}
    return None


# ------------------------------------------------------------------------------------------------
# every optional argument of the chart / affine-map functions (enumerated from the signatures), supplied explicitly in
# every integer / boolean packaging, positionally and by keyword, independently of the data's dtype
# ------------------------------------------------------------------------------------------------
import inspect as _inspect

KW16 = {"affine_coords": P.affine_coords, "projective_coords": P.projective_coords, "affine_linear_map": P.affine_linear_map,
        "affine_translation": P.affine_translation, "Point": P.Point.__init__, "Point.affine_coords": P.Point.affine_coords,
        "Point.in_affine_chart": P.Point.in_affine_chart}
INT_PACK = {"int": int, "np.int64": np.int64, "np.int32": np.int32, "np.uint8": np.uint8, "np.intp": np.intp}
BOOL_PACK = {"bool": bool, "np.bool_": np.bool_, "int01": int}


def gen_kw16(rng, n):
    sigs = {f: [p.name for p in _inspect.signature(fn).parameters.values()
                if p.name in ("chart_index", "column_vectors", "index")] for f, fn in KW16.items()}
    for _ in range(n):
        f = rng.choice(list(KW16))
        yield {"fn": f, "params": sigs[f], "dim": rng.choice([1, 2, 3]), "ipack": rng.choice(list(INT_PACK)),
               "bpack": rng.choice(list(BOOL_PACK)), "cv": rng.random() < 0.5, "by_keyword": rng.random() < 0.5,
               "dtype": rng.choice(["float64", "complex128", "int64", "float32"]), "seed": rng.randrange(10 ** 9)}


def run_kw16(inp):
    r = np.random.default_rng(inp["seed"])
    dim, f, dt = inp["dim"], inp["fn"], inp["dtype"]
    c0 = int(r.integers(0, dim + 1))
    c = INT_PACK[inp["ipack"]](c0)
    cv = BOOL_PACK[inp["bpack"]](inp["cv"])
    wide = lambda x: np.asarray(x).astype(complex)
    tol = 1e-5 if dt == "float32" else 1e-10
    a = _rnd(r, (3, dim), dt)
    x = np.insert(wide(a), c0, 1, axis=-1) * (2.0 if dt != "int64" else 2)
    if dt == "int64":
        x = x.real.astype(np.int64)
    elif dt != "complex128":
        x = x.real.astype(dt)
    if f == "affine_coords":
        arg = np.swapaxes(x, -1, -2) if inp["cv"] else x
        got = P.affine_coords(arg, chart_index=c, column_vectors=cv) if inp["by_keyword"] else P.affine_coords(arg, c, cv)
        got = np.swapaxes(got, -1, -2) if inp["cv"] else got
        ref = wide(a)
    elif f == "projective_coords":
        arg = np.swapaxes(a, -1, -2) if inp["cv"] else a
        got = P.projective_coords(arg, chart_index=c, column_vectors=cv) if inp["by_keyword"] else P.projective_coords(arg, c, cv)
        got = np.swapaxes(got, -1, -2) if inp["cv"] else got
        ref = np.insert(wide(a), c0, 1, axis=-1)
    elif f == "affine_linear_map":
        L = _rnd(r, (dim, dim), dt)
        T = P.affine_linear_map(L, chart_index=c, column_vectors=cv) if inp["by_keyword"] else P.affine_linear_map(L, c, cv)
        blk = np.eye(dim + 1, dtype=complex)
        keep = [i for i in range(dim + 1) if i != c0]
        blk[np.ix_(keep, keep)] = wide(L)
        got, ref = np.asarray(T.proj_data), (blk.T if inp["cv"] else blk)
    elif f == "affine_translation":
        t = _rnd(r, (dim,), dt)
        T = P.affine_translation(t, chart_index=c) if inp["by_keyword"] else P.affine_translation(t, c)
        ref = np.eye(dim + 1, dtype=complex)
        ref[c0] = np.insert(wide(t), c0, 1)
        got = np.asarray(T.proj_data)
    elif f == "Point":
        pt = P.Point(a, chart_index=c) if inp["by_keyword"] else P.Point(a, c)
        got, ref = np.asarray(pt.proj_data), np.insert(wide(a), c0, 1, axis=-1)
    elif f == "Point.affine_coords":
        pt = P.Point(x)
        got = pt.affine_coords(chart_index=c) if inp["by_keyword"] else pt.affine_coords(None, c)
        ref = wide(a)
    else:
        pt = P.Point(x)
        got = np.asarray(pt.in_affine_chart(index=c) if inp["by_keyword"] else pt.in_affine_chart(c)).astype(float)
        ref = np.ones(3)
    got = np.asarray(got)
    if got.dtype == object:
        return {"object_dtype": True}
    if f in ("affine_linear_map", "affine_translation") and got.shape == ref.shape and got[c0, c0] != 0:
        got = got / got[c0, c0]            # a projective transformation is defined up to a non-zero scalar
    return {"err": float("inf") if got.shape != ref.shape else float(np.max(np.abs(wide(got) - ref) / (1 + np.abs(ref)))) * (1e-10 / tol)}


def judge_kw16(inp, obs, lr):
    tags0 = {"fn": inp["fn"], "int_packaging": inp["ipack"], "bool_packaging": inp["bpack"], "by_keyword": inp["by_keyword"], "dtype": inp["dtype"]}
    if "exc" in obs:
        return {"expected": "a value", "observed": obs, "tags": dict(tags0, exc=obs["exc"])}
    if obs.get("object_dtype"):
        return {"expected": "numeric array", "observed": "object dtype", "tags": dict(tags0, object_dtype=True)}
    if not obs["err"] <= 1e-10:
        return {"expected": "the reference value for every packaging of chart_index / column_vectors", "observed": obs, "tags": dict(tags0, site="value")}
    return None


CLAUSES = [
    Clause("chart_corr", "corr", gen_chart, run_chart, judge_chart, lean=lean_chart,
           site="projective.affine_coords/projective_coords/Point.in_affine_chart", budget={"quick": 160, "thorough": 4000},
           what="affine_coords / projective_coords (function, Point method, Point constructor, column layout) and in_affine_chart vs the "
                "model over ℚ and ℚ(i): dims 1-5, every chart, composite shapes, rescaled representatives incl. purely imaginary and zero chart coordinates"),
    Clause("autochart_corr", "corr", gen_auto, run_auto, judge_auto, lean=lean_auto, site="projective.affine_coords(chart_index=None)",
           budget={"quick": 150, "thorough": 3500},
           what="automatic chart choice (argmax over charts of the smallest |coordinate|): chosen chart, coordinates, and GeometryError "
                "exactly when no standard chart contains all points; ℚ and ℚ(i), row AND column layouts (square and non-square), "
                "composite shapes, many exactly-zero coordinates"),
    Clause("maps_corr", "corr", gen_maps, run_maps, judge_maps, lean=lean_maps,
           site="projective.affine_linear_map/affine_translation", budget={"quick": 120, "thorough": 3000},
           what="proj_data and images of points for affine_linear_map (both layouts) and affine_translation vs the model's block matrices, ℚ and ℚ(i)"),
    Clause("hyperplane_corr", "corr", gen_hyp, run_hyp, judge_hyp, lean=lean_hyp,
           site="projective.hyperplane_coordinate_transform", budget={"quick": 60, "thorough": 1500},
           what="observed QR factors -> model sign(r00)*Q vs returned matrix; exact residuals of the QR/inverse contracts and of orthogonality"),
    Clause("broadcast_match_corr", "corr", gen_bmatch, run_bmatch, judge_bmatch, lean=lean_bmatch,
           site="utils.broadcast_match", budget={"quick": 60, "thorough": 600},
           what="utils.broadcast_match(a1, a2, 2) on flat composites of integer units vs Lean broadcastMatch: tiled shapes and every unit of both tiled arrays, in row-major order (first index slowest)"),
    Clause("intersect_corr", "corr", gen_inter, run_inter, judge_inter, lean=lean_inter,
           site="projective.Subspace.intersect", budget={"quick": 80, "thorough": 2000},
           what="observed kernel -> model intersect vs returned spanning set, per unit, elementwise and pairwise order, ℚ and ℚ(i); exact kernel-contract residual"),
    Clause("eig_corr", "corr", gen_eig, run_eig, judge_eig, lean=lean_eig,
           site="projective.Transformation.eigenvector/diagonalize", budget={"quick": 80, "thorough": 2000},
           what="observed eig output -> model selection (first masked eigenvalue, composite first-match / zero fill, GeometryError) vs returned point; diagonalize data and M.inv()@T@M"),
    Clause("object_history_oracle", "oracle", gen_hist, run_hist, judge_hist, site="projective.Transformation / Point (histories)",
           budget={"quick": 200, "thorough": 4000},
           what="Transformation and Point objects (single and stacks; float64/complex128/int64/float32) that answered queries and are then "
                "changed by item assignment (ellipsis, int, negative int, slice, index list, boolean mask), set(), the setter forms of "
                "affine_coords / projective_coords with new data of an independent dtype (int <- float, real <- complex), copied (copy(), "
                "constructor) before a re-set, inverted, multiplied on either side: after every step eigenvector / diagonalize / "
                "affine_coords in every chart / in_affine_chart equal those of a fresh object and the tracked data"),
    Clause("kwargs_oracle", "oracle", gen_kw16, run_kw16, judge_kw16, site="projective.* optional arguments",
           budget={"quick": 250, "thorough": 5000},
           what="chart_index / column_vectors / index of affine_coords, projective_coords, affine_linear_map, affine_translation, Point(...), "
                "Point.affine_coords, Point.in_affine_chart supplied as int / np.int64 / np.int32 / np.uint8 / np.intp and bool / np.bool_ / 0-1, "
                "positionally and by keyword, for float64 / complex128 / int64 / float32 data, against independent references"),
    Clause("isolation_oracle", "oracle", gen_iso16, run_iso16, judge_iso16, site="projective.* (histories)",
           budget={"quick": 150, "thorough": 3000},
           what="generic defences G1-G4: histories of 4-8 unrelated calls in one dimension (charts, translations, linear maps, hyperplane "
                "transforms, intersections, eigenvectors, apply) with dtypes float64/complex128/int64/float32 in random order; each result "
                "against an independent reference; inputs snapshotted; returned arrays and object data mutated in place and the call "
                "repeated; objects with a history (inv, diagonalize, apply) vs fresh objects"),
    Clause("roundtrip_oracle", "oracle", gen_rt, run_rt, judge_rt, site="projective.Point.affine_coords",
           budget={"quick": 300, "thorough": 8000},
           what="float/complex: Point(a, chart_index=c) has 1 in slot c; after any non-zero rescaling (negative, purely imaginary, 1e±30) "
                "affine_coords(c) returns a; GeometryError exactly when a chart coordinate is exactly zero"),
    Clause("maps_oracle", "oracle", gen_maps_o, run_maps_o, judge_maps_o, site="projective.affine_linear_map/affine_translation",
           budget={"quick": 250, "thorough": 6000},
           what="(T @ P).affine_coords(c) = L·a (column) / a·L (row) / a + t, real and complex, composite points"),
    Clause("hyperplane_oracle", "oracle", gen_hyp_o, run_hyp_o, judge_hyp_o, site="projective.hyperplane_coordinate_transform",
           budget={"quick": 200, "thorough": 5000},
           what="orthogonality; points of the hyperplane get chart-0 coordinate 0; unit normal goes to +e0; dims 1-5"),
    Clause("intersect_oracle", "oracle", gen_inter_o, run_inter_o, judge_inter_o, site="projective.Subspace.intersect",
           budget={"quick": 200, "thorough": 5000},
           what="result rows lie in both subspaces, have rank k1+k2-n, shapes for elementwise and pairwise composites, real and complex"),
    Clause("eig_oracle", "oracle", gen_eig_o, run_eig_o, judge_eig_o, site="projective.Transformation.eigenvector/diagonalize",
           budget={"quick": 200, "thorough": 5000},
           what="reported eigenvector v satisfies v·P = λ·v (λ the requested eigenvalue when given), single and composite, real spectrum / "
                "generic real (complex pairs) / complex matrices; M.inv() @ T @ M is diagonal"),
]
