"""Shared helpers for C07/C08: Coxeter-matrix generators, group construction by both routes,
cosine tables, exact conversions."""
import itertools, math
from fractions import Fraction as F
import numpy as np
from vlib import q as Q

INF = [0, -1, -3]           # every non-positive label means "infinite order"
EXACT_COS = {F(1): F(-1), F(2): F(0), F(3): F(1, 2), F(1, 2): F(1)}   # x -> cos(pi/x), rational cases


def cos_key(m):
    return F(1, 2) if m <= 0 else F(m)


def cos_table(M):
    """x -> cos(pi/x) for every key bilinear_form will use: exact where rational, else the double
    numpy computes (np.cos(np.pi / m)), converted exactly to a Fraction."""
    tab = {}
    for row in M:
        for m in row:
            k = cos_key(m)
            if k in tab:
                continue
            tab[k] = EXACT_COS[k] if k in EXACT_COS else F(float(np.cos(np.pi / float(m))))
    return tab


def table_json(tab):
    return [[Q.qs(k), Q.qs(v)] for k, v in sorted(tab.items())]


def exact_form(M):
    """the cosine matrix as Fractions, with the same table (harness-side reference for filters only)"""
    tab = cos_table(M)
    return [[-tab[cos_key(m)] for m in row] for row in M]


def sym_matrix(n, labels):
    """labels: list of the n(n-1)/2 upper-triangular entries, row-major"""
    M = [[1] * n for _ in range(n)]
    it = iter(labels)
    for i in range(n):
        for j in range(i + 1, n):
            v = next(it)
            M[i][j] = M[j][i] = v
    return M


def rand_matrix(rng, n, finite=(2, 12), p_inf=0.15, p_two=0.3):
    labs = []
    for _ in range(n * (n - 1) // 2):
        r = rng.random()
        if r < p_inf:
            labs.append(rng.choice(INF))
        elif r < p_inf + p_two:
            labs.append(2)
        else:
            labs.append(rng.randint(max(3, finite[0]), finite[1]))
    return sym_matrix(n, labs)


def all_matrices_up_to_relabelling(n, alphabet):
    """all symmetric matrices with off-diagonal entries in `alphabet`, one per orbit of S_n"""
    pairs = [(i, j) for i in range(n) for j in range(i + 1, n)]
    seen, out = set(), []
    for labs in itertools.product(alphabet, repeat=len(pairs)):
        M = sym_matrix(n, labs)
        key = min(tuple(M[p[i]][p[j]] for (i, j) in pairs) for p in itertools.permutations(range(n)))
        if key in seen:
            continue
        seen.add(key)
        out.append(M)
    return out


def signature(M, tol=1e-9):
    B = np.array([[float(x) for x in r] for r in exact_form(M)])
    ev = np.linalg.eigvalsh(B)
    return int((ev > tol).sum()), int((ev < -tol).sum()), int((np.abs(ev) <= tol).sum()), float(np.min(np.abs(ev)))


NAME_POOLS = ["abcdefghijklmnopqrstuvwxyz"]


def diagram_for(rng, M, multichar=False):
    """A complete diagram (every pair listed, as from_diagram requires) for M with shuffled edge order and
    orientation and arbitrary generator names; returns (edges, names_by_index, expected_order)
    where expected_order lists indices of M in the order from_diagram will number them."""
    n = len(M)
    if multichar:
        names = rng.sample(["s0", "s1", "s2", "r7", "gen", "t12", "x9", "u"], n)
    else:
        names = rng.sample("abcdefghijklmnopqrstuvwxyz", n)
    pairs = [(i, j) for i in range(n) for j in range(i + 1, n)]
    rng.shuffle(pairs)
    edges, order = [], []
    for (i, j) in pairs:
        if rng.random() < 0.5:
            i, j = j, i
        edges.append([names[i], names[j], M[i][j]])
        for k in (i, j):
            if k not in order:
                order.append(k)
    return edges, names, order


def build_group(spec):
    """spec: {"route": "matrix", "M":…, "style":…} or {"route": "diagram", "edges":…}"""
    from geometry_tools import coxeter
    if spec["route"] == "matrix":
        return coxeter.CoxeterGroup(matrix=np.array(spec["M"]), generator_style=spec["style"])
    if spec["route"] == "triangle":
        return coxeter.TriangleGroup(tuple(spec["pqr"]))
    return coxeter.CoxeterGroup(diagram=[tuple(e) for e in spec["edges"]])


def expected_matrix_and_names(spec):
    """what the constructor must produce: (Coxeter matrix in the group's generator order, generator names)"""
    if spec["route"] == "matrix":
        n = len(spec["M"])
        names = ["abcdefghijklmnopqrstuvwxyz"[i] if spec["style"] == "alpha" else "s%d" % i for i in range(n)]
        return spec["M"], names
    if spec["route"] == "triangle":
        p, q, r = spec["pqr"]
        return [[1, p, r], [p, 1, q], [r, q, 1]], ["a", "b", "c"]
    order = spec["order"]
    M = spec["M"]
    return [[M[i][j] for j in order] for i in order], [spec["names"][i] for i in order]


def rand_spec(rng, M, allow_multichar=True):
    r = rng.random()
    if r < 0.5 or len(M) < 2:        # a diagram needs at least one pair of generators
        return {"route": "matrix", "M": M, "style": rng.choice(["alpha", "alphanum"])}
    edges, names, order = diagram_for(rng, M, multichar=allow_multichar and rng.random() < 0.4)
    return {"route": "diagram", "M": M, "edges": edges, "names": names, "order": order}


def word_str(names, w):
    """word (list of generator indices) as the string the Representation API expects; returns (string, simple)"""
    if all(len(x) == 1 for x in names):
        return "".join(names[k] for k in w), True
    return "*".join(names[k] for k in w), False


def rep_word(rep, names, w):
    s, simple = word_str(names, w)
    if simple:
        return rep[s]
    # the documented way: rep[word], multi-character generator names separated by "*"
    return rep[s]


def mat_json(A):
    return [[Q.qs(float(x)) for x in row] for row in np.asarray(A, dtype=float)]


def hyperbolic_triples(maxlab=12):
    labs = list(range(2, maxlab + 1)) + [0]
    out = []
    for p, q, r in itertools.product(labs, repeat=3):
        s = sum(0 if x <= 0 else 1.0 / x for x in (p, q, r))
        if s < 1 - 1e-12:
            out.append((p, q, r))
    return out


class Slow(Exception):
    pass


def limited(seconds, fn):
    """run fn() with a CPU-time limit (SIGVTALRM; the runner's own watchdog uses SIGALRM); returns (done, value)"""
    import signal

    def h(sig, frm):
        raise Slow()
    old = signal.signal(signal.SIGVTALRM, h)
    signal.setitimer(signal.ITIMER_VIRTUAL, seconds)
    try:
        return True, fn()
    except Slow:
        return False, None
    finally:
        signal.setitimer(signal.ITIMER_VIRTUAL, 0)
        signal.signal(signal.SIGVTALRM, old)


# ---- constructor variants for the generic defences (G2 input isolation, G4 dtypes) --------------------------------
CTORS = ["buffer", "view", "fortran", "list", "tuple", "float", "int32", "float32", "int8", "object", "listfloat", "fresh",
         "diagram_list", "diagram_tuple", "diagram_gen", "diagram_zip", "diagram_iter"]


def construct(mem, rank, work, keep):
    from geometry_tools import coxeter
    M, c = mem["M"], mem["ctor"]
    nm = "abcdefgh"[:rank]
    mnames = ["abcdefgh"[i] if mem["style"] == "alpha" else "s%d" % i for i in range(rank)]
    pairs = [(i, j) for i in range(rank) for j in range(i + 1, rank)]
    if c == "buffer":
        work[...] = np.array(M)
        return coxeter.CoxeterGroup(matrix=work, generator_style=mem["style"]), mnames
    if c == "view":
        big = np.full((rank + 2, rank + 3), 9, dtype=int)
        big[1:rank + 1, 2:rank + 2] = np.array(M)
        keep.append(big)
        return coxeter.CoxeterGroup(matrix=big[1:rank + 1, 2:rank + 2], generator_style=mem["style"]), mnames
    if c == "fortran":
        A = np.asfortranarray(np.array(M))
        keep.append(A)
        return coxeter.CoxeterGroup(matrix=A.T, generator_style=mem["style"]), mnames
    if c == "list":
        L = [row[:] for row in M]
        keep.append(L)
        return coxeter.CoxeterGroup(matrix=L, generator_style=mem["style"]), mnames
    if c == "tuple":
        return coxeter.CoxeterGroup(matrix=tuple(tuple(r) for r in M), generator_style=mem["style"]), mnames
    if c == "float":
        A = np.array(M, dtype=float)
        keep.append(A)
        return coxeter.CoxeterGroup(matrix=A, generator_style=mem["style"]), mnames
    if c == "int32":
        A = np.array(M, dtype=np.int32)
        keep.append(A)
        return coxeter.CoxeterGroup(matrix=A, generator_style=mem["style"]), mnames
    if c in ("float32", "int8", "object"):
        A = np.array(M, dtype={"float32": np.float32, "int8": np.int8, "object": object}[c])
        keep.append(A)
        return coxeter.CoxeterGroup(matrix=A, generator_style=mem["style"]), mnames
    if c == "listfloat":
        return coxeter.CoxeterGroup(matrix=[[float(x) for x in row] for row in M], generator_style=mem["style"]), mnames
    if c == "fresh":
        return coxeter.CoxeterGroup(matrix=np.array(M), generator_style=mem["style"]), mnames
    edges = [[nm[i], nm[j], M[i][j]] for i, j in pairs]
    if c == "diagram_list":
        keep.append(edges)
        return coxeter.CoxeterGroup(diagram=edges), list(nm)
    if c == "diagram_tuple":
        return coxeter.CoxeterGroup(diagram=tuple(tuple(e) for e in edges)), list(nm)
    if c == "diagram_gen":
        return coxeter.CoxeterGroup(diagram=((a, b, o) for a, b, o in edges)), list(nm)
    if c == "diagram_zip":
        return coxeter.CoxeterGroup(diagram=zip([e[0] for e in edges], [e[1] for e in edges], [e[2] for e in edges])), list(nm)
    return coxeter.CoxeterGroup(diagram=iter(edges)), list(nm)


