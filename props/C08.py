"""C08 — Coxeter group representations satisfy the relations and preserve the form (DESIGN §4 C08)."""
import math, itertools
from fractions import Fraction as F
import numpy as np
from vlib.runner import Clause
from vlib import q as Q
from vlib.canon import close, finite
from props import _cox as X
import geometry_tools.utils as GU

LEVEL = "proof"
EXPLANATION = (
    "Lean theorems for every rank over every commutative ring: generators of cartan/geometric/canonical/"
    "hyperbolic representations are involutions (det -1, fix a hyperplane); the geometric representation "
    "preserves the cosine form (generators and all words); canonical = dual on all words; braid_core "
    "(P^2-tP+1)(P-1)=0; (s_i s_j)^m=1 for m in {2,3,4,5,6} over any ring and for EVERY finite m>=2 over R "
    "(Chebyshev recursion), exact order m over R; relations transfer to the dual and to the conjugated "
    "(hyperbolic) representation; W^T B W = J => hyperbolic_rep in O(J), generators J-reflections in unit "
    "spacelike vectors; triangle angle identity. Exact-Q correspondence of the generator matrices built by "
    "both constructor routes / naming styles / diagonalize on-off with the same Lean definitions; relation "
    "residuals evaluated exactly in Lean on the implementation's matrices; float oracles for every clause.")
ASSUMPTIONS = [
    "numpy cos(pi/m) agrees with the real cosine to 1e-15 (the Lean theorems are about exact cosines; the "
    "correspondence feeds the model the doubles numpy computed)",
    "numpy.linalg.eigh contract inside utils.diagonalize_form: W^T B W = J and Winv W = 1 are checked as residuals on "
    "every generated case, not proved (LAPACK is not modelled)",
    "diagonalize=True / hyperbolic_rep only for non-degenerate cosine forms (min |eigenvalue| >= 0.02): for a "
    "degenerate form diagonalize_form returns a singular W, outside the documented domain",
    "IEEE rounding within the stated tolerances",
]

KINDS = ["geom", "canon", "cartan", "cartan", "vinberg", "diag", "hyp", "canondiag"]


# ------------------------------------------------------------------------------------------------
# observing the diagonalising pair used inside cartan_representation (harness-process-only wrapper)
_REC = {}
_orig_diag = GU.diagonalize_form


def _rec_diag(*a, **k):
    out = _orig_diag(*a, **k)
    _REC["last"] = (out, k.get("order_eigenvalues", "signed"))
    return out


def _with_recording(fn):
    GU.diagonalize_form = _rec_diag
    _REC.pop("last", None)
    try:
        return fn()
    finally:
        GU.diagonalize_form = _orig_diag


def _scaled_cartan(B, dvec):
    """D (2B) D^-1 : a non-symmetric Cartan matrix with the same products C_ij C_ji"""
    n = len(B)
    return [[2 * B[i][j] * dvec[i] / dvec[j] for j in range(n)] for i in range(n)]


# degenerate (affine / infinite-dihedral) cosine forms: no diagonalising change of basis exists.  diagonalize=True must
# not silently return matrices that violate the relations: the only acceptable outcomes are a GeometryError or matrices
# that do satisfy the clauses.
DEGENERATE = [X.sym_matrix(2, [0]), X.sym_matrix(3, [3, 3, 3]), X.sym_matrix(3, [2, 4, 4]), X.sym_matrix(3, [2, 3, 6]),
              X.sym_matrix(3, [2, 2, 0]), X.sym_matrix(3, [2, 0, 0]), X.sym_matrix(4, [3, 2, 3, 3, 2, 3]),
              X.sym_matrix(4, [4, 2, 2, 3, 2, 4]), X.sym_matrix(4, [2, 2, 0, 2, 2, 2])]


def _degenerate(rng):
    M = rng.choice(DEGENERATE)
    n = len(M)
    p = list(range(n))
    rng.shuffle(p)
    return [[(rng.choice(X.INF) if M[p[i]][p[j]] <= 0 else M[p[i]][p[j]]) if i < j else 0 for j in range(n)] for i in range(n)]


def gen_case(rng, kinds=KINDS, ranks=(2, 3, 3, 4, 4, 5), finite=(2, 12)):
    HYP_RANKS = (3, 3, 4, 4, 5)
    """one group + one representation kind, mostly valid"""
    while True:
        kind = rng.choice(kinds)
        n = rng.choice(HYP_RANKS if kind == "hyp" else ranks)
        if kind in ("diag", "canondiag", "hyp") and rng.random() < 0.12:
            U = _degenerate(rng)
            M = [[1 if i == j else (U[i][j] if i < j else U[j][i]) for j in range(len(U))] for i in range(len(U))]
            return {"kind": kind, "spec": X.rand_spec(rng, M), "degenerate": True}
        if kind == "hyp":
            # need signature (n-1, 1), non-degenerate
            for _ in range(200):
                if n == 3 and rng.random() < 0.7:
                    M = X.sym_matrix(3, list(rng.choice(HYP_TRIPLES)))
                else:
                    M = X.rand_matrix(rng, n, finite=finite, p_inf=0.2, p_two=0.25)
                p, neg, z, mn = X.signature(M)
                if neg == 1 and z == 0 and mn >= 0.02:
                    break
            else:
                continue
        else:
            M = X.rand_matrix(rng, n, finite=finite)
            if kind in ("diag", "canondiag"):
                p, neg, z, mn = X.signature(M)
                if z or mn < 0.02:
                    continue
        spec = X.rand_spec(rng, M)
        inp = {"kind": kind, "spec": spec}
        Mx, names = X.expected_matrix_and_names(spec)
        if kind == "cartan":
            # a genuinely non-symmetric Cartan matrix with the right products C_ij C_ji = 4cos^2(pi/m) at the finite labels:
            # a diagonal rescaling D (2B) D^-1 of the cosine Cartan matrix, or the classical integer Cartan matrix
            inp["dvec"] = [Q.qs(F(rng.randint(1, 6), rng.randint(1, 4))) for _ in range(n)]
            if rng.random() < 0.4:
                # G12 magnitudes: a badly scaled (still valid) Cartan matrix D C0 D^-1, D spanning up to 10^+-9
                inp["dvec"] = [Q.qs(F(10) ** rng.randint(-5, 5) * rng.randint(1, 9)) for _ in range(n)]   # spread <= ~1e11: beyond that float64 inverses of D s D^-1 carry no digits
                inp["bigscale"] = True
            inp["rename"] = rng.choice([None, None, "alpha", "alphanum"])
            inp["cdiag"] = rng.random() < 0.5 and not inp.get("bigscale")     # cartan_representation(C, diagonalize=True)
            if rng.random() < 0.3:
                name, Mi, Ci = rng.choice(INTEGER_CARTAN)
                inp["spec"] = X.rand_spec(rng, Mi) if rng.random() < 0.5 else {"route": "matrix", "M": Mi, "style": "alpha"}
                if inp["spec"]["route"] == "diagram":
                    o = inp["spec"]["order"]
                    Ci = [[Ci[i][j] for j in o] for i in o]
                inp["intC"] = Ci
        if kind == "vinberg":
            par = []
            for i in range(n):
                for j in range(n):
                    if i != j and Mx[i][j] <= 0 and rng.random() < 0.6:
                        par.append([i, j, Q.qs(-F(rng.randint(4, 12), rng.randint(1, 2)))])
            inp["params"] = par
            inp["pformat"] = rng.choice(["dict", "array"])
        return inp


HYP_TRIPLES = X.hyperbolic_triples(12)
# classical non-simply-laced integer Cartan matrices (name, Coxeter matrix, Cartan matrix)
INTEGER_CARTAN = [
    ("B2", [[1, 4], [4, 1]], [[2, -2], [-1, 2]]),
    ("G2", [[1, 6], [6, 1]], [[2, -1], [-3, 2]]),
    ("B3", [[1, 3, 2], [3, 1, 4], [2, 4, 1]], [[2, -1, 0], [-1, 2, -2], [0, -1, 2]]),
    ("C3", [[1, 3, 2], [3, 1, 4], [2, 4, 1]], [[2, -1, 0], [-1, 2, -1], [0, -2, 2]]),
    ("F4", [[1, 3, 2, 2], [3, 1, 4, 2], [2, 4, 1, 3], [2, 2, 3, 1]],
     [[2, -1, 0, 0], [-1, 2, -2, 0], [0, -1, 2, -1], [0, 0, -1, 2]]),
    ("A2", [[1, 3], [3, 1]], [[2, -1], [-1, 2]]),
]


def rep_names(inp):
    """(Coxeter matrix, generator names of the representation) prescribed by the input"""
    Mx, names = X.expected_matrix_and_names(inp["spec"])
    if inp.get("rename"):
        names = ["abcdefghijklmnopqrstuvwxyz"[i] if inp["rename"] == "alpha" else "s%d" % i for i in range(len(Mx))]
    return Mx, names


def build_rep(inp):
    """returns (G, names, list of generator matrices in G's generator order, extra dict)"""
    G = X.build_group(inp["spec"])
    names = list(G.ordered_gens)
    kind = inp["kind"]
    extra = {}
    if kind == "geom":
        rep = G.geometric_representation()
    elif kind == "canon":
        rep = G.canonical_representation()
    elif kind == "cartan":
        B = G.bilinear_form()
        d = [float(F(x)) for x in inp["dvec"]]
        C = np.array(inp["intC"], dtype=float) if "intC" in inp else np.array(_scaled_cartan(B.tolist(), d))
        extra["C"] = C
        kw = {"rename_generators": True, "generator_style": inp["rename"]} if inp.get("rename") else {}
        if inp.get("cdiag"):
            rep = _with_recording(lambda: G.cartan_representation(C.copy(), diagonalize=True, **kw))
            extra["WW"] = _REC.get("last")
        else:
            rep = G.cartan_representation(C.copy(), **kw)
    elif kind == "vinberg":
        n = len(names)
        if inp["pformat"] == "dict":
            par = {(i, j): float(F(v)) for i, j, v in inp["params"]}
        else:
            par = np.zeros((n, n))
            for i, j, v in inp["params"]:
                par[i, j] = float(F(v))
        rep = G.tits_vinberg_rep(par)
    elif kind == "diag":
        rep = _with_recording(lambda: G.geometric_representation(diagonalize=True))
        extra["WW"] = _REC.get("last")
    elif kind == "hyp":
        rep = _with_recording(lambda: G.hyperbolic_rep())
        extra["WW"] = _REC.get("last")
    elif kind == "canondiag":
        rep = _with_recording(lambda: G.canonical_representation(diagonalize=True))
        extra["WW"] = _REC.get("last")
    else:
        raise ValueError(kind)
    # generators are looked up by the names the *input* prescribes (not by the library's own bookkeeping)
    _, xnames = rep_names(inp)
    gens = [np.asarray(rep.generators[g], dtype=float) for g in xnames]
    return G, names, rep, gens, extra


def run_gens(inp):
    try:
        G, names, rep, gens, extra = build_rep(inp)
    except Exception as e:
        if type(e).__name__ == "GeometryError" and _REC.get("last") and (inp["kind"] in ("diag", "hyp", "canondiag") or inp.get("cdiag")):
            # the repaired guard refused: hand the diagonalising pair to the model, which must refuse too
            (W, Winv), order = _REC["last"]
            return {"exc": "GeometryError", "W": np.asarray(W).tolist(), "Winv": np.asarray(Winv).tolist()}
        raise
    out = {"M": np.asarray(G.coxeter_matrix).tolist(), "names": names,
           "B": np.asarray(G.bilinear_form(), dtype=float).tolist(),
           "gens": [g.tolist() for g in gens],
           "keys": sorted(rep.generators.keys())}
    if "C" in extra:
        out["C"] = extra["C"].tolist()
    if extra.get("WW"):
        (W, Winv), order = extra["WW"]
        out["W"], out["Winv"], out["order"] = np.asarray(W).tolist(), np.asarray(Winv).tolist(), order
    return out


def _form_fields(M):
    return {"M": M, "cos": X.table_json(X.cos_table(M))}


def may_refuse(inp):
    """inputs on which `diagonalize=True` may legitimately refuse with GeometryError: degenerate cosine forms, and
    non-symmetric Cartan matrices (the library diagonalises the lower-triangle mirror, which can be degenerate)"""
    return bool(inp.get("degenerate")) or (inp["kind"] == "cartan" and inp.get("cdiag"))


def _degenerate_verdict(inp, obs, tags):
    """for a degenerate form and diagonalize=True: ("skip", None) when the library refused with GeometryError,
    ("fail", failure) for any other exception, ("check", None) when it returned matrices"""
    if "exc" in obs:
        if obs["exc"] == "GeometryError":
            return "skip", None
        return "fail", {"expected": "GeometryError (degenerate form) or a representation", "observed": obs,
                        "tags": {**tags, "exc": obs["exc"], "degenerate": True}, "property_failure": True}
    return "check", None


def lean_gens(inp, obs):
    if obs.get("exc") == "GeometryError" and "W" in obs:
        Mx, _ = X.expected_matrix_and_names(inp["spec"])
        if inp["kind"] == "cartan":
            return [{"op": "c08.gens", "kind": "cartanhyp", "n": len(Mx), "C": [["2" if i == j else "0" for j in range(len(Mx))] for i in range(len(Mx))],
                     "W": X.mat_json(obs["W"]), "Winv": X.mat_json(obs["Winv"])}]
        return [{"op": "c08.gens", "kind": "hyp", "n": len(Mx), "W": X.mat_json(obs["W"]), "Winv": X.mat_json(obs["Winv"]),
                 **_form_fields(Mx)}]
    if "exc" in obs or inp.get("degenerate"):
        return []
    Mx, names = X.expected_matrix_and_names(inp["spec"])
    n = len(Mx)
    base = {"n": n, **_form_fields(Mx)}
    ops = [{"op": "c08.form", **base}]
    kind = inp["kind"]
    if kind in ("geom", "canon"):
        ops.append({"op": "c08.gens", "kind": kind, **base})
    elif kind == "cartan":
        if inp.get("cdiag"):
            if "W" in obs:
                ops.append({"op": "c08.gens", "kind": "cartanhyp", "n": n, "C": X.mat_json(obs["C"]),
                            "W": X.mat_json(obs["W"]), "Winv": X.mat_json(obs["Winv"])})
        else:
            ops.append({"op": "c08.gens", "kind": "cartan", "n": n, "C": X.mat_json(obs["C"])})
    elif kind == "vinberg":
        P = [["0"] * n for _ in range(n)]
        for i, j, v in inp["params"]:
            P[i][j] = Q.qs(float(F(v)))
        ops.append({"op": "c08.gens", "kind": "vinberg", "P": P, **base})
    else:
        if "W" not in obs:
            return ops
        ops.append({"op": "c08.gens", "kind": "canonhyp" if kind == "canondiag" else "hyp", "W": X.mat_json(obs["W"]),
                    "Winv": X.mat_json(obs["Winv"]), **base})
        J = _sig_form(Mx)
        ops.append({"op": "c08.resid", "gens": [X.mat_json(g) for g in obs["gens"]], "W": X.mat_json(obs["W"]),
                    "Winv": X.mat_json(obs["Winv"]), "J": [[Q.qs(x) for x in r] for r in J], **base})
    return ops


def _sig_form(M):
    """diag(sign of eigenvalues in increasing order): what 'signed' ordering must produce"""
    p, neg, z, _ = X.signature(M)
    d = [-1] * neg + [0] * z + [1] * p
    n = len(M)
    return [[d[i] if i == j else 0 for j in range(n)] for i in range(n)]


def _exp_keys(names):
    return sorted(list(names) + [x.upper() for x in names])


def judge_gens(inp, obs, lr):
    tags = {"kind": inp["kind"], "route": inp["spec"]["route"]}
    if obs.get("exc") == "GeometryError" and "W" in obs:
        # the guard Winv W = 1 (atol 1e-10) of the repaired code vs the model's diagGuard on the same pair
        if not lr or lr[0].get("err") != "GeometryError":
            return {"expected": {"model": lr[0] if lr else None}, "observed": "GeometryError raised by cartan_representation",
                    "tags": {**tags, "what": "diag-guard"}}
        return None
    if inp.get("degenerate"):
        return _degenerate_verdict(inp, obs, tags)[1]      # the relations oracle judges returned matrices
    if "exc" in obs:
        return {"expected": "a representation", "observed": obs, "tags": {**tags, "exc": obs["exc"]}, "property_failure": True}
    Mx, names = X.expected_matrix_and_names(inp["spec"])
    if obs["M"] != Mx or obs["names"] != names:
        return {"expected": {"M": Mx, "names": names}, "observed": {"M": obs["M"], "names": obs["names"]},
                "tags": {**tags, "constructor": True}}
    if obs["keys"] != _exp_keys(rep_names(inp)[1]):
        return {"expected": _exp_keys(rep_names(inp)[1]), "observed": obs["keys"], "tags": {**tags, "generator_names": True}}
    for r in lr:
        if "err" in r:
            return {"expected": "model answer", "observed": r, "tags": {**tags, "driver_err": r["err"][:60]}}
    Bm = Q.decf(lr[0]["ok"])
    if not close(obs["B"], Bm, 1e-12):
        return {"expected": {"bilinear_form": Bm.tolist()}, "observed": obs["B"], "tags": {**tags, "what": "bilinear_form"}}
    if len(lr) < 2:
        return {"expected": "diagonalising pair observed", "observed": "diagonalize_form was not called", "tags": {**tags, "what": "no-W"}}
    gm = Q.decf(lr[1]["ok"])
    gi = np.array(obs["gens"])
    scale = 1 + float(np.max(np.abs(gm)))
    if gi.shape != gm.shape or not finite(gi) or float(np.max(np.abs(gi - gm))) > 1e-9 * scale:
        return {"expected": {"generators": gm.tolist()}, "observed": gi.tolist(), "tags": {**tags, "what": "generators"}}
    if len(lr) > 2:
        res = lr[2]["ok"]
        w, d = float(F(res["winv"])), float(F(res["diag"]))
        cond = 1 + float(np.max(np.abs(obs["W"]))) ** 2
        if w > 1e-9 * cond or d > 1e-9 * cond:
            return {"expected": "diagonalize_form contract: Winv W = 1, W^T B W = diag(signs in increasing order)",
                    "observed": {"|Winv W - 1|": w, "|W^T B W - J|": d, "order": obs.get("order")},
                    "tags": {**tags, "what": "diag-contract"}}
    return None


# ------------------------------------------------------------------------------------------------ words
def gen_words(rng, n):
    for _ in range(n):
        inp = gen_case(rng)
        r = len(X.expected_matrix_and_names(inp["spec"])[0])
        L = rng.choice([0, 1, 2, 3, 5, 8, 12])
        inp["words"] = [[rng.randrange(r) for _ in range(L)] for _ in range(3)]
        yield inp


def run_words(inp):
    G, names, rep, gens, extra = build_rep(inp)
    vals = []
    for w in inp["words"]:
        v = X.rep_word(rep, rep_names(inp)[1], w)
        if hasattr(v, "matrix"):     # HyperbolicRepresentation wraps into an Isometry (row-vector convention inside)
            v = np.asarray(v.matrix).swapaxes(-1, -2)
        vals.append(np.asarray(v, dtype=float).tolist())
    return {"gens": [g.tolist() for g in gens], "vals": vals}


def lean_words(inp, obs):
    if "exc" in obs:
        return []
    n = len(obs["gens"])
    gj = [X.mat_json(g) for g in obs["gens"]]
    return [{"op": "c08.word", "n": n, "gens": gj, "word": w} for w in inp["words"]]


def judge_words(inp, obs, lr):
    tags = {"kind": inp["kind"]}
    if may_refuse(inp) and "exc" in obs:
        return _degenerate_verdict(inp, obs, tags)[1]
    if "exc" in obs:
        return {"expected": "word values", "observed": obs, "tags": {**tags, "exc": obs["exc"]}, "property_failure": True}
    for w, v, r in zip(inp["words"], obs["vals"], lr):
        if "err" in r:
            return {"expected": "model answer", "observed": r, "tags": {**tags, "driver_err": r["err"][:60]}}
        m = Q.decf(r["ok"])
        v = np.array(v)
        if inp.get("bigscale") and inp["kind"] == "cartan" and "intC" not in inp and v.shape == m.shape:
            # judged relative to the conditioning: entry (i,j) of a word in the generators D s D^-1 carries the factor d_i/d_j
            d = np.array([float(F(x)) for x in inp["dvec"]])
            v, m = v * (d[None, :] / d[:, None]), m * (d[None, :] / d[:, None])
        if v.shape != m.shape or float(np.max(np.abs(v - m))) > 1e-9 * (1 + float(np.max(np.abs(m)))):
            return {"expected": {"word": w, "value": m.tolist()}, "observed": v.tolist(), "tags": {**tags, "len": len(w)}}
    return None


# ------------------------------------------------------------------------------------------------ oracles
def gen_rel(rng, n):
    for _ in range(n):
        yield gen_case(rng)


def run_rel(inp):
    G, names, rep, gens, extra = build_rep(inp)
    if inp.get("bigscale") and inp["kind"] == "cartan" and "intC" not in inp:
        # judged relative to the conditioning: C = D C0 D^-1 gives s_i = D s_i0 D^-1; undo the scaling in the harness
        d = np.array([float(F(x)) for x in inp["dvec"]])
        gens = [g * (d[None, :] / d[:, None]) for g in gens]
        rescale = d[None, :] / d[:, None]
    else:
        rescale = 1.0
    # the labels come from the *input* (diagram / matrix as given), the matrices by generator name
    M = np.asarray(X.expected_matrix_and_names(inp["spec"])[0])
    n = len(names)
    inv = max(float(np.max(np.abs(g @ g - np.eye(n)))) for g in gens)
    braid, order, scale = 0.0, None, 1.0
    for i in range(n):
        for j in range(i + 1, n):
            m = int(M[i, j])
            if m < 2:
                continue
            P = gens[i] @ gens[j]
            acc = np.eye(n)
            for k in range(1, m + 1):
                acc = acc @ P
                scale = max(scale, float(np.max(np.abs(acc))))
                r = float(np.max(np.abs(acc - np.eye(n))))
                if k < m:
                    order = r if order is None else min(order, r)
                else:
                    braid = max(braid, r)
    # the inverse generator the Representation stores next to each generator (upper-case name) must be its inverse
    xn = rep_names(inp)[1]
    invres = max(float(np.max(np.abs((np.asarray(rep.generators[g.upper()], dtype=float) * rescale) @ gens[i] - np.eye(n))))
                 for i, g in enumerate(xn))
    dets = [float(np.linalg.det(g)) for g in gens]
    # each generator fixes a hyperplane pointwise: g - 1 has rank one
    sv = [np.linalg.svd(g - np.eye(n), compute_uv=False) for g in gens]
    rank1 = max(float(s[1] / s[0]) if len(s) > 1 else 0.0 for s in sv)
    return {"M": M.tolist(), "gens": [g.tolist() for g in gens], "invol": inv, "braid": braid, "order": order,
            "scale": scale, "dets": dets, "rank1": rank1, "invres": invres}


def lean_rel(inp, obs):
    if "exc" in obs or inp.get("degenerate"):
        return []
    n = len(obs["gens"])
    return [{"op": "c08.resid", "n": n, "M": obs["M"], "gens": [X.mat_json(g) for g in obs["gens"]]}]


def judge_rel(inp, obs, lr):
    kind = inp["kind"]
    tags = {"kind": kind}
    if may_refuse(inp) and "exc" in obs:
        return _degenerate_verdict(inp, obs, tags)[1]
    if inp.get("degenerate"):
        what, fail = _degenerate_verdict(inp, obs, tags)
        if what != "check":
            return fail
        # matrices were returned for a form that cannot be diagonalised: they must still satisfy the clauses
        # (loose tolerance: the conjugation is ill conditioned)
        tol = 1e-6 * obs["scale"] ** 2
        if obs["invol"] > tol or obs["braid"] > tol or any(abs(d + 1) > 1e-5 for d in obs["dets"]):
            return {"expected": "diagonalize=True on a degenerate cosine form: GeometryError, or matrices that satisfy s^2 = 1 and "
                                "(s_i s_j)^m = 1", "observed": {"|s^2-1|": obs["invol"], "|(s_i s_j)^m-1|": obs["braid"], "dets": obs["dets"]},
                    "tags": {**tags, "degenerate": True, "relation": "involution"}}
        return None
    if "exc" in obs:
        return {"expected": "a representation", "observed": obs, "tags": {**tags, "exc": obs["exc"]}}
    if not lr or "err" in lr[0]:
        return {"expected": "model residuals", "observed": lr, "tags": {**tags, "driver_err": True}}
    ex = lr[0]["ok"]
    tol = 1e-8 * obs["scale"] ** 2
    einv, ebr = float(F(ex["invol"])), float(F(ex["braid"]))
    eord = None if ex["order"] is None else float(F(ex["order"]))
    if max(obs["invol"], einv) > tol:
        return {"expected": "every generator an involution", "observed": {"numpy": obs["invol"], "exact": einv},
                "tags": {**tags, "relation": "involution"}}
    if max(obs["braid"], ebr) > tol:
        return {"expected": "(s_i s_j)^m = 1 for every finite label m", "observed": {"numpy": obs["braid"], "exact": ebr},
                "tags": {**tags, "relation": "braid"}}
    if obs["invres"] > tol:
        return {"expected": "rep.generators[G] (inverse generator) * rep.generators[g] = 1", "observed": obs["invres"],
                "tags": {**tags, "relation": "inverse-generator"}}
    if kind in ("canon", "canondiag") and eord is not None and min(eord, obs["order"]) < 0.05:
        return {"expected": "s_i s_j has order exactly m in the canonical representation",
                "observed": {"min_k<m |P^k-1|": eord}, "tags": {**tags, "relation": "order"}}
    if any(abs(d + 1) > 1e-8 for d in obs["dets"]) or obs["rank1"] > 1e-8:
        return {"expected": "generators are reflections: det -1, fix a hyperplane pointwise",
                "observed": {"dets": obs["dets"], "sigma2/sigma1 of g-1": obs["rank1"]}, "tags": {**tags, "relation": "reflection"}}
    return None


def gen_formdual(rng, n):
    for _ in range(n):
        inp = gen_case(rng, kinds=["geom"])
        r = len(X.expected_matrix_and_names(inp["spec"])[0])
        inp["words"] = [[k] for k in range(r)] + [[rng.randrange(r) for _ in range(rng.choice([2, 3, 5, 8]))] for _ in range(4)]
        yield inp


def run_formdual(inp):
    G = X.build_group(inp["spec"])
    Mx, names = X.expected_matrix_and_names(inp["spec"])
    n = len(names)
    # the cosine form computed independently of the library: -cos(pi/m), -1 for every non-positive label
    B = np.array([[-math.cos(math.pi / m) if m > 0 else -1.0 for m in row] for row in Mx])
    Blib = np.asarray(G.bilinear_form(), dtype=float)
    geo, can = G.geometric_representation(), G.canonical_representation()
    form = dual = 0.0
    sym = float(np.max(np.abs(Blib - B)))
    diag = float(np.max(np.abs(np.diag(Blib) - 1)))
    for w in inp["words"]:
        g = np.asarray(X.rep_word(geo, names, w), dtype=float)
        c = np.asarray(X.rep_word(can, names, w), dtype=float)
        s = 1 + float(np.max(np.abs(g))) ** 2
        form = max(form, float(np.max(np.abs(g.T @ B @ g - B))) / s)
        # canonical = dual:  c · gᵀ = 1
        dual = max(dual, float(np.max(np.abs(c @ g.T - np.eye(n)))) / s)
    out = {"form": form, "dual": dual, "sym": sym, "diag": diag, "ddual": 0.0, "dform": 0.0}
    # histories (wave 6): representations *derived from the object whose words were just evaluated* (dual(), a conjugate, a
    # copy) evaluate the same words to the dual / conjugate / same matrices — not to what the source object computed
    gd2 = geo.dual()
    Pm = np.eye(n) + np.triu(np.ones((n, n)), 1) * 0.5
    gc2 = geo.conjugate(Pm)
    gk2 = type(geo)(geo)
    one = [np.asarray(X.rep_word(gc2, names, [k]), dtype=float) for k in range(n)]
    der = 0.0
    for w in inp["words"]:
        g = np.asarray(X.rep_word(geo, names, w), dtype=float)
        s = 1 + float(np.max(np.abs(g))) ** 2
        d = np.asarray(X.rep_word(gd2, names, w), dtype=float)
        der = max(der, float(np.max(np.abs(d @ g.T - np.eye(n)))) / s)
        cw = np.eye(n)
        for k in w:
            cw = cw @ one[k]
        der = max(der, float(np.max(np.abs(np.asarray(X.rep_word(gc2, names, w), dtype=float) - cw))) / (1 + float(np.max(np.abs(cw)))))
        der = max(der, float(np.max(np.abs(np.asarray(X.rep_word(gk2, names, w), dtype=float) - g))) / s)
    out["derived"] = der
    p, neg, z, mn = X.signature(Mx)
    if z == 0 and mn >= 0.02:
        # diagonalised variants: canonical(diagonalize=True) is the dual of geometric(diagonalize=True), which
        # preserves diag(signs in increasing order)
        gd, cd = G.geometric_representation(diagonalize=True), G.canonical_representation(diagonalize=True)
        J = np.diag([-1.0] * neg + [1.0] * p)
        for w in inp["words"]:
            g = np.asarray(X.rep_word(gd, names, w), dtype=float)
            c = np.asarray(X.rep_word(cd, names, w), dtype=float)
            s = 1 + float(np.max(np.abs(g))) ** 2
            out["dform"] = max(out["dform"], float(np.max(np.abs(g.T @ J @ g - J))) / s)
            out["ddual"] = max(out["ddual"], float(np.max(np.abs(c @ g.T - np.eye(n)))) / s)
    return out


def judge_formdual(inp, obs, lr):
    if "exc" in obs:
        return {"expected": "representations", "observed": obs, "tags": {"exc": obs["exc"]}}
    if obs["sym"] > 1e-12 or obs["diag"] > 1e-12:
        return {"expected": "bilinear_form() = -cos(pi/m) (and -1 for every non-positive label), unit diagonal", "observed": obs,
                "tags": {"what": "cosine-form"}}
    if obs["form"] > 1e-9:
        return {"expected": "g^T B g = B for the geometric representation", "observed": obs, "tags": {"what": "form"}}
    if obs.get("derived", 0.0) > 1e-8:
        return {"expected": "geo.dual()[w] = inverse transpose of geo[w], geo.conjugate(P)[w] = product of its own generators, copy[w] = geo[w], for words already evaluated on geo",
                "observed": obs, "tags": {"what": "derived-after-evaluation"}}
    if obs["dual"] > 1e-9:
        return {"expected": "canonical_representation()[w] = inverse transpose of geometric_representation()[w]",
                "observed": obs, "tags": {"what": "dual"}}
    if obs["dform"] > 1e-8:
        return {"expected": "geometric_representation(diagonalize=True) preserves diag(+-1)", "observed": obs, "tags": {"what": "diag-form"}}
    if obs["ddual"] > 1e-8:
        return {"expected": "canonical_representation(diagonalize=True)[w] = inverse transpose of geometric_representation(diagonalize=True)[w]",
                "observed": obs, "tags": {"what": "diag-dual"}}
    return None


def gen_hyp(rng, n):
    for _ in range(n):
        inp = gen_case(rng, kinds=["hyp"])
        r = len(X.expected_matrix_and_names(inp["spec"])[0])
        inp["words"] = [[k] for k in range(r)] + [[rng.randrange(r) for _ in range(rng.choice([2, 3, 4, 6]))] for _ in range(4)]
        yield inp


def run_hyp(inp):
    G = X.build_group(inp["spec"])
    names = list(G.ordered_gens)
    n = len(names)
    h = G.hyperbolic_rep()
    J = np.diag([-1.0] + [1.0] * (n - 1))
    worst = 0.0
    simple = all(len(x) == 1 for x in names)
    if simple:
        iso = h.isometries([X.word_str(names, w)[0] for w in inp["words"]])
        mats = np.asarray(iso.matrix, dtype=float)
    else:
        mats = np.array([np.asarray(X.rep_word(h, names, w).matrix, dtype=float) for w in inp["words"]])
    for A in mats:
        s = 1 + float(np.max(np.abs(A))) ** 2
        worst = max(worst, float(np.max(np.abs(A @ J @ A.T - J))) / s, float(np.max(np.abs(A.T @ J @ A - J))) / s)
    refl = []
    for k in range(n):
        A = mats[k]
        d = float(np.linalg.det(A))
        u, s, vt = np.linalg.svd(A - np.eye(n))
        # A = 1 - 2 x x^T J (row or column convention): the (-1)-eigenvector, its J-norm must be positive
        ev, evec = np.linalg.eig(A)
        idx = int(np.argmin(np.abs(ev + 1)))
        x = np.real(evec[:, idx])
        nx = float(x @ J @ x) / float(x @ x)
        refl.append({"det": d, "rank1": float(s[1] / s[0]), "minus_eig": float(abs(ev[idx] + 1)), "jnorm": nx})
    return {"iso": worst, "refl": refl}


def judge_hyp(inp, obs, lr):
    if inp.get("degenerate"):
        return _degenerate_verdict(inp, obs, {"kind": "hyp"})[1]     # O(d,1) is claimed for signature (d,1) only
    if "exc" in obs:
        return {"expected": "hyperbolic representation", "observed": obs, "tags": {"exc": obs["exc"]}}
    if obs["iso"] > 1e-8:
        return {"expected": "A J A^T = J for every image", "observed": obs["iso"], "tags": {"what": "O(d,1)"}}
    for r in obs["refl"]:
        if abs(r["det"] + 1) > 1e-7 or r["rank1"] > 1e-7 or r["minus_eig"] > 1e-7 or not r["jnorm"] > 1e-6:
            return {"expected": "generator = reflection in a spacelike vector (det -1, fixes a hyperplane)", "observed": r,
                    "tags": {"what": "reflection"}}
    return None


# ---- triangle groups ----------------------------------------------------------------------------
def gen_tri(rng, n):
    trip = list(HYP_TRIPLES)
    rng.shuffle(trip)
    special = [(2, 3, 7), (0, 0, 0), (2, 3, 0), (2, 0, 0), (12, 12, 12), (3, 3, 4), (2, 4, 5), (0, 5, 2)]
    for t in (special + trip)[:n]:
        t = tuple(rng.choice(X.INF) if x <= 0 else x for x in t)
        yield {"pqr": list(t)}


def mink(x, y):
    return float(-x[0] * y[0] + x[1:] @ y[1:])


def run_tri(inp):
    from geometry_tools import coxeter
    p, q, r = inp["pqr"]
    G = coxeter.TriangleGroup((p, q, r))
    h = G.hyperbolic_rep()
    verts = []
    for w in ("ab", "bc", "ca"):
        fp = h[w].fixed_point()
        v = np.asarray(fp.proj_data, dtype=float).reshape(-1)
        v = v / np.max(np.abs(v))
        if v[0] < 0:
            v = -v
        # it is a fixed point of the rotation product (projectively)
        A = np.asarray(h[w].matrix, dtype=float)
        img = v @ A
        fixerr = float(np.max(np.abs(np.cross(img, v)))) / (1 + float(np.max(np.abs(img))))
        verts.append({"v": v.tolist(), "fixerr": fixerr})
    out = {"verts": verts, "angles": [], "norms": []}
    for k in range(3):
        Xv = np.array(verts[k]["v"])
        Y, Z = np.array(verts[(k + 1) % 3]["v"]), np.array(verts[(k + 2) % 3]["v"])
        nn = mink(Xv, Xv) / float(Xv @ Xv)
        out["norms"].append(nn)
        if nn > -1e-4:
            out["angles"].append(None)
            continue
        Xn = Xv / math.sqrt(-mink(Xv, Xv))
        u = Y + mink(Xn, Y) * Xn
        w_ = Z + mink(Xn, Z) * Xn
        c = mink(u, w_) / math.sqrt(mink(u, u) * mink(w_, w_))
        out["angles"].append(math.acos(max(-1.0, min(1.0, c))))
    return out


def judge_tri(inp, obs, lr):
    if "exc" in obs:
        return {"expected": "triangle", "observed": obs, "tags": {"exc": obs["exc"]}}
    # a parabolic product has a single 3x3 Jordan block: numpy's eigenvector of it is only accurate to
    # eps^(1/3) ~ 6e-6, so triangles with an ideal vertex get the looser tolerance
    has_inf = any(l <= 0 for l in inp["pqr"])
    atol = 2e-4 if has_inf else 1e-6
    for k, lab in enumerate(inp["pqr"]):
        tags = {"label": "inf" if lab <= 0 else "finite"}
        if obs["verts"][k]["fixerr"] > atol:
            return {"expected": "fixed point of the rotation product", "observed": obs["verts"][k], "tags": {**tags, "what": "fixed"}}
        if lab <= 0:
            if abs(obs["norms"][k]) > 1e-4:
                return {"expected": "ideal vertex (lightlike) where the label is infinite", "observed": obs["norms"][k],
                        "tags": {**tags, "what": "ideal"}}
        else:
            a = obs["angles"][k]
            if a is None or abs(a - math.pi / lab) > atol:
                return {"expected": f"interior angle pi/{lab} = {math.pi / lab}", "observed": {"angle": a, "norm": obs["norms"][k]},
                        "tags": {**tags, "what": "angle"}}
    return None


# ---- triangle groups, correspondence: the objects of GT.C08.triangle_angles (form3, vertex, tangent, bil) ----------
def _cs(m):
    """-cos(pi/m) as the model is given it: exact where rational, else the double math.cos produces (sent exactly)"""
    if m <= 0:
        return "-1"
    if m in (2, 3):
        return {2: "0", 3: "-1/2"}[m]
    return Q.qs(-math.cos(math.pi / m))


def gen_tricorr(rng, n):
    rat = [t for t in itertools.product((2, 3, 0), repeat=3) if sum(1.0 / x for x in t if x > 0) < 1 - 1e-9]
    trip = list(HYP_TRIPLES)
    rng.shuffle(trip)
    for t in (rat + [(2, 3, 7), (3, 3, 4), (2, 4, 5), (5, 2, 0), (12, 12, 12)] + trip)[:n]:
        t = [rng.choice(X.INF) if x <= 0 else x for x in t]
        x = [str(F(rng.randrange(-6, 7), rng.randrange(1, 5))) for _ in range(3)]
        y = [str(F(rng.randrange(-6, 7), rng.randrange(1, 5))) for _ in range(3)]
        yield {"pqr": t, "x": x, "y": y}


def run_tricorr(inp):
    from geometry_tools import coxeter
    out = run_tri(inp)
    G = coxeter.TriangleGroup(tuple(inp["pqr"]))
    B = np.asarray(G.bilinear_form(), dtype=float)
    out["form"] = B.tolist()
    x, y = [float(F(t)) for t in inp["x"]], [float(F(t)) for t in inp["y"]]
    out["bil"] = float(np.asarray(GU.apply_bilinear(np.array(x), np.array(y), B)).reshape(-1)[0])
    return out


def lean_tricorr(inp, obs):
    if "exc" in obs:
        return []
    p, q, r = inp["pqr"]
    return [{"op": "c08.triangle", "a": _cs(p), "b": _cs(r), "c": _cs(q), "x": inp["x"], "y": inp["y"]}]


def judge_tricorr(inp, obs, lr):
    if "exc" in obs:
        return {"expected": "triangle", "observed": obs, "tags": {"exc": obs["exc"]}}
    if "err" in lr[0]:
        return {"expected": "model answer", "observed": lr[0], "tags": {"driver_err": lr[0]["err"][:40]}}
    r = lr[0]["ok"]
    mform = [[float(F(t)) for t in row] for row in r["form"]]
    if not close(np.array(obs["form"]), np.array(mform), 1e-12):
        return {"expected": {"model form3 a b c": mform}, "observed": {"TriangleGroup.bilinear_form": obs["form"]},
                "tags": {"what": "triangle-form"}}
    mb = float(F(r["bil"]))
    if abs(obs["bil"] - mb) > 1e-9 * (1 + abs(mb)):
        return {"expected": {"model bil B x y": mb}, "observed": {"utils.apply_bilinear": obs["bil"]}, "tags": {"what": "apply-bilinear"}}
    has_inf = any(l <= 0 for l in inp["pqr"])
    atol = 2e-4 if has_inf else 1e-6
    for k, lab in enumerate(inp["pqr"]):
        # the implementation's vertex k is the fixed point of ab / bc / ca: the model vertex opposite to mirror (k + 2) % 3
        mv = r["verts"][(k + 2) % 3]
        tags = {"label": "inf" if lab <= 0 else "finite", "what": "triangle-vertex"}
        # B(vertex,vertex) = det(B) (1 - B_ij^2) (triangle_angles): exactly 0 iff the label is infinite (B_ij = -1 is sent exactly)
        ideal_model = F(mv["norm"]) == 0
        ideal_impl = obs["norms"][k] > -1e-4
        if ideal_model != ideal_impl:
            return {"expected": {"model B(vertex,vertex)": mv["norm"]}, "observed": {"normalised Minkowski norm": obs["norms"][k]},
                    "tags": {**tags, "what": "triangle-ideal"}}
        if not ideal_model:
            uu, ww, uw = float(F(mv["uu"])), float(F(mv["ww"])), float(F(mv["uw"]))
            c = uw / math.sqrt(uu * ww)
            a = obs["angles"][k]
            if a is None or abs(math.cos(a) - c) > atol:
                return {"expected": {"model cos of the interior angle, B(u,w)/sqrt(B(u,u)B(w,w))": c},
                        "observed": {"angle": a, "cos": None if a is None else math.cos(a)}, "tags": {**tags, "what": "triangle-angle"}}
    return None


# ---- histories: several requests on ONE group object, inputs mutated by the caller after construction ----------
HKINDS = ["geom", "canon", "diag", "canondiag", "hyp", "cartan"]


def gen_hist(rng, n):
    for _ in range(n):
        rank = rng.choice([2, 3, 3, 3, 4])
        fam = []
        base = X.rand_matrix(rng, rank, finite=(2, 9), p_inf=0.15, p_two=0.3)
        for _m in range(rng.choice([2, 3, 4])):
            if rng.random() < 0.6 and fam:
                # scan a family: change one label of the previous member
                M = [row[:] for row in fam[-1]["M"]]
                i, j = rng.sample(range(rank), 2)
                M[i][j] = M[j][i] = rng.choice([2, 3, 4, 5, 6, 7, 8, 0, -1])
            else:
                M = X.rand_matrix(rng, rank, finite=(2, 9), p_inf=0.15, p_two=0.3) if fam else base
            calls = [rng.choice(HKINDS) for _ in range(rng.choice([2, 3, 4]))]
            fam.append({"M": M, "route": rng.choice(["buffer", "buffer", "list", "diagram", "fresh"]),
                        "style": rng.choice(["alpha", "alphanum"]), "calls": calls})
        yield {"rank": rank, "family": fam, "scribble": rng.choice([2, 5, 0])}


def _check_rep(kind, gens, M, B, sig):
    """residuals of one representation against the labels M the group was built from"""
    n = len(M)
    I = np.eye(n)
    scale = 1.0
    inv = max(float(np.max(np.abs(g @ g - I))) for g in gens)
    braid, order = 0.0, None
    for i in range(n):
        for j in range(i + 1, n):
            m = M[i][j]
            if m < 2:
                continue
            P = gens[i] @ gens[j]
            acc = I.copy()
            for k in range(1, m + 1):
                acc = acc @ P
                scale = max(scale, float(np.max(np.abs(acc))))
                r = float(np.max(np.abs(acc - I)))
                if k < m:
                    order = r if order is None else min(order, r)
                else:
                    braid = max(braid, r)
    out = {"kind": kind, "invol": inv, "braid": braid, "order": order, "scale": scale, "form": 0.0}
    if kind == "geom":
        out["form"] = max(float(np.max(np.abs(g.T @ B @ g - B))) for g in gens)
    if kind in ("diag", "hyp") and sig is not None:
        J = np.diag(sig)
        out["form"] = max(float(np.max(np.abs(g.T @ J @ g - J))) for g in gens)
    return out


def run_hist(inp):
    from geometry_tools import coxeter
    rank = inp["rank"]
    work = np.ones((rank, rank), dtype=int)          # the caller's work buffer, edited in place
    groups, keep = [], []
    for mem in inp["family"]:
        M = mem["M"]
        if mem["route"] == "buffer":
            work[...] = np.array(M)
            G = coxeter.CoxeterGroup(matrix=work, generator_style=mem["style"])
            names = None
        elif mem["route"] == "list":
            L = [row[:] for row in M]
            keep.append(L)
            G = coxeter.CoxeterGroup(matrix=L, generator_style=mem["style"])
            names = None
        elif mem["route"] == "diagram":
            nm = "abcdefgh"[:rank]
            D = [[nm[i], nm[j], M[i][j]] for i in range(rank) for j in range(i + 1, rank)]
            keep.append(D)
            G = coxeter.CoxeterGroup(diagram=D)
            names = list(nm) if rank > 1 else None
        else:
            G = coxeter.CoxeterGroup(matrix=np.array(M), generator_style=mem["style"])
            names = None
        if names is None:
            names = ["abcdefgh"[i] if mem["style"] == "alpha" else "s%d" % i for i in range(rank)]
        groups.append((G, names))
    # the caller goes on using its buffers / lists
    work[...] = 1
    for i in range(rank):
        for j in range(i + 1, rank):
            work[i, j] = work[j, i] = inp["scribble"]
    for obj in keep:
        for row in obj:
            row[-1] = inp["scribble"]
    res = []
    for (G, names), mem in zip(groups, inp["family"]):
        M = mem["M"]
        B = np.array([[-math.cos(math.pi / m) if m > 0 else -1.0 for m in row] for row in M])
        p, neg, z, mn = X.signature(M)
        nondeg = z == 0 and mn >= 0.02
        sig = [-1.0] * neg + [1.0] * p if nondeg else None
        got = {}
        for kind in mem["calls"]:
            if kind in ("diag", "canondiag") and not nondeg:
                continue
            if kind == "hyp" and not (nondeg and neg == 1):
                continue
            if kind == "geom":
                rep = G.geometric_representation()
            elif kind == "canon":
                rep = G.canonical_representation()
            elif kind == "diag":
                rep = G.geometric_representation(diagonalize=True)
            elif kind == "canondiag":
                rep = G.canonical_representation(diagonalize=True)
            elif kind == "hyp":
                rep = G.hyperbolic_rep()
            else:
                rep = G.cartan_representation(2 * B)
            gens = [np.asarray(rep.generators[g], dtype=float) for g in names]
            r = _check_rep(kind, gens, M, B, sig)
            # duality between results obtained from the same object
            if kind in ("canon", "canondiag"):
                base = got.get("geom" if kind == "canon" else "diag")
                if base is not None:
                    r["dual"] = max(float(np.max(np.abs(c @ g.T - np.eye(len(M))))) for c, g in zip(gens, base))
            got[kind] = gens
            res.append({"member": M, **r})
    return {"res": res}


def judge_hist(inp, obs, lr):
    if "exc" in obs:
        return {"expected": "representations", "observed": obs, "tags": {"exc": obs["exc"]}}
    for r in obs["res"]:
        tol = 1e-8 * r["scale"] ** 2
        tags = {"kind": r["kind"], "history": True}
        if r["invol"] > tol or r["braid"] > tol:
            return {"expected": "relations of the Coxeter matrix the group was constructed from (s^2 = 1, (s_i s_j)^m = 1)",
                    "observed": r, "tags": {**tags, "relation": "braid"}}
        if r["form"] > tol:
            return {"expected": "form preserved (cosine form for geometric, diag(+-1) for diagonalised/hyperbolic)", "observed": r,
                    "tags": {**tags, "relation": "form"}}
        if r["kind"] in ("canon", "canondiag") and r["order"] is not None and r["order"] < 0.05:
            return {"expected": "exact order m in the canonical representation", "observed": r, "tags": {**tags, "relation": "order"}}
        if r.get("dual", 0.0) > tol:
            return {"expected": "canonical = dual of geometric (same object, same diagonalize)", "observed": r, "tags": {**tags, "relation": "dual"}}
    return None


# ---- sessions: generic defences G1-G4 ------------------------------------------------------------------------
# G1 fresh-object differential: every answer of an object with a history equals the answer of a fresh object built from the
#    same labels.  G2 input/output isolation: every array/list/dict passed in is snapshotted and compared afterwards and is
#    REUSED for later calls; arrays handed out (bilinear_form, cartan_matrix, generator matrices) are overwritten by the
#    caller; constructors get one-shot iterables, tuples, views.  G3 cross-object independence: the steps of several groups
#    of the same rank and generator names are interleaved.  G4 dtypes: constructor / Cartan arrays of several dtypes.
CTORS = X.CTORS
SKINDS = ["geom", "canon", "diag", "canondiag", "hyp"]


def gen_session(rng, n):
    for _ in range(n):
        rank = rng.choice([1, 2, 2, 3, 3, 3, 4])
        members = []
        for _m in range(rng.choice([2, 3])):
            M = X.rand_matrix(rng, rank, finite=(2, 9), p_inf=0.25, p_two=0.3)
            # infinity mostly as a negative number (the slots cartan_matrix lets the caller parametrise)
            M = [[(rng.choice([-1, -1, -2, 0]) if x <= 0 else x) for x in row] for row in M]
            M = [[M[i][j] if i <= j else M[j][i] for j in range(rank)] for i in range(rank)]
            ctor = rng.choice([c for c in CTORS if rank > 1 or not c.startswith("diagram")])   # a diagram needs a pair
            members.append({"M": M, "ctor": ctor, "style": rng.choice(["alpha", "alphanum"]),
                            "dvec": [Q.qs(F(rng.randint(1, 5), rng.randint(1, 3))) for _ in range(rank)]})
        steps = []
        for _s in range(rng.choice([6, 8, 10])):
            g = rng.randrange(len(members))
            M = members[g]["M"]
            r = rng.random()
            if r < 0.45:
                steps.append({"g": g, "a": "rep", "kind": rng.choice(SKINDS), "scribble": rng.random() < 0.3,
                              # non-default keyword options (enumerated from the signatures): requested number type
                              "dtype": rng.choice([None, None, None, "float64", "float32", "complex128"])})
            elif r < 0.65:
                steps.append({"g": g, "a": "cartan", "scaled": rng.random() < 0.5, "diag": rng.random() < 0.5,
                              "order_eigenvalues": rng.choice(["signed", "signed", "minkowski"]),
                              "rename": rng.choice([None, None, "alpha", "alphanum"]),
                              "dtype": rng.choice(["float", "float", "int"]), "scribble": rng.random() < 0.3})
            elif r < 0.85:
                par = [[i, j, Q.qs(-F(rng.randint(5, 12), rng.randint(1, 2)))] for i in range(rank) for j in range(rank)
                       if i != j and M[i][j] <= 0 and rng.random() < 0.7]
                steps.append({"g": g, "a": rng.choice(["vinberg", "cartan_matrix"]), "params": par,
                              "fmt": rng.choice(["dict", "array"]), "scribble": rng.random() < 0.5})
            else:
                steps.append({"g": g, "a": "form", "scribble": True})
        yield {"rank": rank, "members": members, "steps": steps}


_construct = X.construct


def _outcome(fn):
    """('ok', value) or ('GeometryError', None); other exceptions propagate"""
    try:
        return "ok", fn()
    except Exception as e:
        if type(e).__name__ == "GeometryError":
            return "GeometryError", None
        raise


def _rep_of(G, kind, dtype=None):
    kw = {} if dtype is None else {"dtype": dtype}
    return {"geom": lambda: G.geometric_representation(**kw), "canon": lambda: G.canonical_representation(**kw),
            "diag": lambda: G.geometric_representation(diagonalize=True, **kw),
            "canondiag": lambda: G.canonical_representation(diagonalize=True, **kw),
            "hyp": lambda: G.hyperbolic_rep(**kw)}[kind]


def run_session(inp):
    from geometry_tools import coxeter
    rank = inp["rank"]
    I = np.eye(rank)
    work = np.ones((rank, rank), dtype=int)
    keep, objs = [], []
    for mem in inp["members"]:
        G, names = _construct(mem, rank, work, keep)
        M = mem["M"]
        B = np.array([[-math.cos(math.pi / m) if m > 0 else -1.0 for m in row] for row in M])
        d = [float(F(x)) for x in mem["dvec"]]
        p, neg, z, mn = X.signature(M)
        objs.append({"G": G, "names": names, "M": M, "B": B, "nondeg": z == 0 and mn >= 0.02, "neg": neg, "p": p,
                     # the caller's own Cartan arrays, REUSED for every cartan call on this member
                     "C": {("sym", "float"): 2 * B.copy(), ("scaled", "float"): np.array(_scaled_cartan(B.tolist(), d)),
                           ("sym", "int"): None, ("scaled", "int"): None},
                     "P": None})
    # the caller goes on using its buffers
    work[...] = 3
    np.fill_diagonal(work, 1)
    for obj in keep:
        if isinstance(obj, np.ndarray):
            obj[...] = 5
        else:
            for row in obj:
                row[-1] = 5
    out = []

    def fresh(o):
        return coxeter.CoxeterGroup(matrix=np.array(o["M"]))

    def gens_of(rep, names):
        out_ = []
        for g in names:
            A = np.asarray(rep.generators[g])
            if np.iscomplexobj(A):
                if float(np.max(np.abs(A.imag))) > 1e-12:
                    raise ValueError("complex generator matrix with non-zero imaginary part")
                A = A.real
            out_.append(np.asarray(A, dtype=float))
        return out_

    def compare(step, o, what, got, ref, clauses=None):
        rec = {"step": step, "what": what, "M": o["M"]}
        if got[0] != ref[0]:
            rec["outcome"] = [got[0], ref[0]]
        elif got[0] == "ok":
            a, b = got[1], ref[1]
            sc = 1 + max(float(np.max(np.abs(x))) for x in b)
            rec["fresh_diff"] = max(float(np.max(np.abs(x - y))) for x, y in zip(a, b)) / sc
            if clauses:
                r = _check_rep(clauses, a, [[(m if m > 0 else 0) for m in row] for row in o["M"]], o["B"],
                               ([-1.0] * o["neg"] + [1.0] * o["p"]) if o["nondeg"] else None)
                rec.update({k: r[k] for k in ("invol", "braid", "form", "scale")})
        out.append(rec)

    alpha = ["abcdefgh"[i] for i in range(rank)]
    for si, st in enumerate(inp["steps"]):
        o = objs[st["g"]]
        G, names = o["G"], o["names"]
        if st["a"] == "rep":
            kind = st["kind"]
            if kind in ("diag", "canondiag") and not o["nondeg"]:
                continue
            if kind == "hyp" and not (o["nondeg"] and o["neg"] == 1):
                continue
            dt = st.get("dtype")
            got = _outcome(lambda: gens_of(_rep_of(G, kind, dt)(), names))
            ref = _outcome(lambda: gens_of(_rep_of(fresh(o), kind, dt)(), alpha))
            compare(si, o, kind, got, ref, clauses=kind if kind in ("geom", "diag", "hyp") else "other")
            out[-1]["single"] = dt == "float32"
            if got[0] != "ok":
                out[-1]["refused"] = True          # these kinds are only requested for non-degenerate forms
            if got[0] == "ok":
                # G2 on the representation's own answers: every element handed out by rep[word] (one-letter words included,
                # "*"-separated names) is edited in place by the caller; the SAME representation object must be unchanged
                rep = _rep_of(G, kind, dt)()
                words = [[k] for k in range(rank)] + ([[0, rank - 1]] if rank > 1 else [])
                for w in words:
                    A = X.rep_word(rep, names, w)
                    A = getattr(A, "matrix", A)          # hyperbolic representations wrap the matrix
                    A = np.asarray(A) if not isinstance(A, np.ndarray) else A
                    if A.flags.writeable:
                        A *= 100
                        A -= np.eye(rank, dtype=A.dtype)
                        A @= A
                got3 = _outcome(lambda: gens_of(rep, names))
                compare(si, o, kind + " after in-place edits of rep[word]", got3, ref,
                        clauses=kind if kind in ("geom", "diag", "hyp") else "other")
                out[-1]["single"] = dt == "float32"
                got4 = _outcome(lambda: [np.asarray(getattr(X.rep_word(rep, names, [k]), "matrix", X.rep_word(rep, names, [k])), dtype=complex).real.astype(float)
                                         if kind != "hyp" else gens_of(rep, names)[k] for k in range(rank)])
                compare(si, o, kind + " rep[generator] after in-place edits", got4, ref)
            if st["scribble"] and got[0] == "ok":
                # the caller overwrites what it was handed: a second request must not see that
                rep = _rep_of(G, kind, dt)()
                for g in names:
                    rep.generators[g][...] = 7.0
                got2 = _outcome(lambda: gens_of(_rep_of(G, kind, dt)(), names))
                compare(si, o, kind + " after overwriting the returned matrices", got2, ref)
        elif st["a"] == "cartan":
            key = ("scaled" if st["scaled"] else "sym", "float")
            C = o["C"][key]
            pristine = (2 * o["B"]) if key[0] == "sym" else np.array(_scaled_cartan(o["B"].tolist(), [float(F(x)) for x in inp["members"][st["g"]]["dvec"]]))
            if st["dtype"] == "int" and all(abs(x - round(x)) < 1e-12 for x in pristine.reshape(-1)):
                C = np.rint(pristine).astype(int)        # an integer array where the Cartan matrix is integral
            before = np.array(C, dtype=float).copy()
            ckw = {"diagonalize": st["diag"], "order_eigenvalues": st.get("order_eigenvalues", "signed")}
            cnames, calpha = names, alpha
            if st.get("rename"):
                ckw.update(rename_generators=True, generator_style=st["rename"])
                cnames = calpha = ["abcdefgh"[i] if st["rename"] == "alpha" else "s%d" % i for i in range(rank)]
            got = _outcome(lambda: gens_of(G.cartan_representation(C, **ckw), cnames))
            changed = float(np.max(np.abs(np.array(C, dtype=float) - before)))
            ref = _outcome(lambda: gens_of(fresh(o).cartan_representation(before.copy(), **ckw), calpha))
            compare(si, o, "cartan" + ("+diagonalize" if st["diag"] else ""), got, ref, clauses="other")
            out[-1]["input_changed"] = changed
            # a (numerically) degenerate form that diagonalize_form does not flag is conjugated by an ill-conditioned W
            out[-1]["loose"] = bool(st["diag"] and not o["nondeg"])
        elif st["a"] in ("vinberg", "cartan_matrix"):
            if st["fmt"] == "dict":
                par = {(i, j): float(F(v)) for i, j, v in st["params"]}
                snap = dict(par)
            else:
                par = np.zeros((rank, rank))
                for i, j, v in st["params"]:
                    par[i, j] = float(F(v))
                snap = par.copy()
            if st["a"] == "vinberg":
                got = _outcome(lambda: gens_of(G.tits_vinberg_rep(par), names))
                ref = _outcome(lambda: gens_of(fresh(o).tits_vinberg_rep(dict(snap) if isinstance(snap, dict) else snap.copy()), alpha))
                compare(si, o, "tits_vinberg_rep", got, ref, clauses="other")
            else:
                Cm = G.cartan_matrix(par)
                Cr = fresh(o).cartan_matrix(dict(snap) if isinstance(snap, dict) else snap.copy())
                compare(si, o, "cartan_matrix", ("ok", [np.asarray(Cm, dtype=float).copy()]), ("ok", [np.asarray(Cr, dtype=float)]))
                if st["scribble"]:
                    Cm[...] = 9.0
            same = (par == snap) if isinstance(snap, dict) else bool(np.array_equal(par, snap))
            out[-1]["input_changed"] = 0.0 if same else 1.0
        else:
            Bl = G.bilinear_form()
            compare(si, o, "bilinear_form", ("ok", [np.asarray(Bl, dtype=float).copy()]), ("ok", [o["B"]]))
            Bl[...] = 0.0
            compare(si, o, "bilinear_form after overwriting the returned array",
                    ("ok", [np.asarray(G.bilinear_form(), dtype=float)]), ("ok", [o["B"]]))
    # closing round: every member once more, geometric (+ hyperbolic where it exists), after the whole history
    for gi, o in enumerate(objs):
        got = _outcome(lambda: gens_of(o["G"].geometric_representation(), o["names"]))
        ref = _outcome(lambda: gens_of(fresh(o).geometric_representation(), alpha))
        compare("final", o, "geom", got, ref, clauses="geom")
        if o["nondeg"] and o["neg"] == 1:
            got = _outcome(lambda: gens_of(o["G"].hyperbolic_rep(), o["names"]))
            ref = _outcome(lambda: gens_of(fresh(o).hyperbolic_rep(), alpha))
            compare("final", o, "hyp", got, ref, clauses="hyp")
    return {"res": out}


def judge_session(inp, obs, lr):
    if "exc" in obs:
        return {"expected": "a session without exceptions", "observed": obs, "tags": {"exc": obs["exc"], "session": True}}
    for r in obs["res"]:
        tags = {"what": r["what"].split(" ")[0], "session": True}
        if r.get("refused"):
            return {"expected": "a representation (the cosine form is non-degenerate)", "observed": r, "tags": {**tags, "defence": "refused"}}
        if "outcome" in r:
            return {"expected": "same outcome as a fresh group with the same labels", "observed": r, "tags": {**tags, "defence": "G1-outcome"}}
        if r.get("input_changed", 0.0) > 0:
            return {"expected": "arguments passed in are not modified", "observed": r, "tags": {**tags, "defence": "G2-input"}}
        if r.get("fresh_diff", 0.0) > 1e-9:
            return {"expected": "same answer as a fresh group built from the same labels (history, aliasing and other objects must "
                                "not matter)", "observed": r, "tags": {**tags, "defence": "G1-fresh"}}
        tol = (1e-3 if r.get("single") else 1e-6 if r.get("loose") else 1e-8) * r.get("scale", 1.0) ** 2
        if r.get("invol", 0.0) > tol or r.get("braid", 0.0) > tol or r.get("form", 0.0) > tol:
            return {"expected": "relations / preserved form of the labels the group was constructed from", "observed": r,
                    "tags": {**tags, "defence": "clauses"}}
    return None


# ---- boundaries of the refusal (G15) and documented keywords (G13) --------------------------------------------------
def gen_boundary(rng, n):
    for k in range(n):
        if k % 10 == 9:
            yield {"probe": "rename_keyword", "style": rng.choice(["alpha", "alphanum"])}
            continue
        rank = rng.choice([2, 2, 3, 3])
        inf = rng.choice([0, -1, -2])
        if rank == 2:
            M = [[1, inf], [inf, 1]]
            pairs = [(0, 1)]
        else:
            m = rng.choice([2, 2, 3, 4, 0])
            M = X.sym_matrix(3, [inf, 2 if m else inf, m if m else inf])
            pairs = [(i, j) for i in range(3) for j in range(i + 1, 3) if M[i][j] <= 0]
        eps = rng.choice([None, "1e-3", "1e-5", "1e-7", "1e-9", "1e-10", "1e-11", "1e-12"])
        yield {"M": M, "pairs": pairs, "eps": eps, "via": rng.choice(["vinberg", "cartan"]),
               "style": rng.choice(["alpha", "alphanum"])}


def run_boundary(inp):
    from geometry_tools import coxeter
    if inp.get("probe") == "rename_keyword":
        G = coxeter.CoxeterGroup(matrix=np.array([[1, 3, 2], [3, 1, 4], [2, 4, 1]]),
                                 generator_style="alphanum" if inp["style"] == "alpha" else "alpha")
        want = ["a", "b", "c"] if inp["style"] == "alpha" else ["s0", "s1", "s2"]
        out = {}
        for nm, fn in (("cartan_representation", lambda: G.cartan_representation(2 * G.bilinear_form(), rename_generators=True, generator_style=inp["style"])),
                       ("geometric_representation", lambda: G.geometric_representation(rename_generators=True)),
                       ("canonical_representation", lambda: G.canonical_representation(rename_generators=True))):
            keys = sorted(k for k in fn().generators if k == k.lower())
            out[nm] = keys
        return {"probe": out, "want_cartan": want}
    M = inp["M"]
    n = len(M)
    G = coxeter.CoxeterGroup(matrix=np.array(M), generator_style=inp["style"])
    names = list(G.ordered_gens)
    e = 0.0 if inp["eps"] is None else float(inp["eps"])
    par = {tuple(p): -2.0 - e for p in inp["pairs"]}
    if inp["via"] == "vinberg":
        fn = lambda: G.tits_vinberg_rep(dict(par), diagonalize=True)
    else:
        C = np.asarray(G.cartan_matrix(dict(par)), dtype=float).copy()
        fn = lambda: G.cartan_representation(C, diagonalize=True)
    # exact reference: is the symmetric form C/2 degenerate?  (Fractions; eps is a decimal string)
    Cx = [[F(2) if i == j else (F(0)) for j in range(n)] for i in range(n)]
    ex = F(0) if inp["eps"] is None else F(inp["eps"])
    for i in range(n):
        for j in range(n):
            if i != j:
                m = M[i][j]
                Cx[i][j] = (-2 - ex) if (min(i, j), max(i, j)) in [tuple(p) for p in inp["pairs"]] else \
                    {2: F(0), 3: F(-1), 4: None}.get(m, None)
    exact_det = None if any(x is None for r in Cx for x in r) else Q.det(Cx)
    try:
        rep = fn()
    except Exception as ex_:
        return {"raised": type(ex_).__name__, "exact_det": None if exact_det is None else float(exact_det)}
    gens = [np.asarray(rep.generators[g], dtype=float) for g in names]
    I = np.eye(n)
    inv = max(float(np.max(np.abs(g @ g - I))) for g in gens)
    braid = 0.0
    for i in range(n):
        for j in range(i + 1, n):
            if M[i][j] >= 2:
                braid = max(braid, float(np.max(np.abs(np.linalg.matrix_power(gens[i] @ gens[j], M[i][j]) - I))))
    # the diagonalised representation preserves some diag(+-1) with exactly one -1 ... found from the generators themselves
    scale = max(float(np.max(np.abs(g))) for g in gens)
    word = X.rep_word(rep, names, [0, n - 1, 0])
    wv = np.asarray(word, dtype=float)
    werr = float(np.max(np.abs(wv - gens[0] @ gens[n - 1] @ gens[0])))
    return {"raised": None, "invol": inv, "braid": braid, "scale": scale, "werr": werr,
            "exact_det": None if exact_det is None else float(exact_det)}


def judge_boundary(inp, obs, lr):
    if "exc" in obs:
        return {"expected": "no exception", "observed": obs, "tags": {"exc": obs["exc"], "boundary": True}}
    if "probe" in obs:
        p = obs["probe"]
        if p["cartan_representation"] != obs["want_cartan"]:
            return {"expected": {"cartan_representation names": obs["want_cartan"]}, "observed": p, "tags": {"what": "rename-cartan"}}
        # geometric_representation / canonical_representation ignore rename_generators on the pinned tree (they keep the group's
        # own names).  No clause of C08 depends on the names, so this is an observation (props/meta/C08.json), not a violation.
        return None
    tags = {"eps": inp["eps"], "via": inp["via"], "boundary": True}
    if inp["eps"] is None:
        # exactly degenerate: must refuse (or, at least, not hand out matrices violating the clauses)
        if obs["raised"] == "GeometryError":
            return None
        if obs["raised"]:
            return {"expected": "GeometryError for a degenerate form", "observed": obs, "tags": {**tags, "what": "wrong-exception"}}
        if obs["invol"] > 1e-6 * obs["scale"] ** 2:
            return {"expected": "GeometryError for a degenerate form (or involutions)", "observed": obs, "tags": {**tags, "what": "degenerate-not-refused"}}
        return None
    # near-degenerate but VALID: must not raise, and the clauses hold relative to the conditioning (~ eps^-1/2)
    if obs["raised"]:
        return {"expected": "a representation: the form is non-degenerate (exact determinant %r)" % obs["exact_det"], "observed": obs,
                "tags": {**tags, "what": "valid-input-refused"}}
    tol = 1e-7 * obs["scale"] ** 2 / math.sqrt(float(inp["eps"]))
    if obs["invol"] > tol or obs["braid"] > tol or obs["werr"] > tol:
        return {"expected": "involutions / relations / rep[word] on a near-degenerate valid form (tolerance %g)" % tol, "observed": obs,
                "tags": {**tags, "what": "near-degenerate-clauses"}}
    return None


def gen_gens(rng, n):
    for _ in range(n):
        yield gen_case(rng)


CLAUSES = [
    Clause("gens_corr", "corr", gen_gens, run_gens, judge_gens, lean=lean_gens,
           site="coxeter.CoxeterGroup.{from_diagram,from_coxeter_matrix,bilinear_form,cartan_representation,cartan_matrix}",
           budget={"quick": 150, "thorough": 4000},
           what="constructor (matrix, names), bilinear_form and generator matrices of geometric / canonical / cartan(C) / "
                "tits_vinberg(params) / diagonalised / hyperbolic reps vs Lean cosineForm, refl, geomRep, canonRep, cartanMatrix, "
                "hypRep over Q; diagonalize_form contract residuals evaluated in Lean; rank 2-5, labels 2..12 and <=0"),
    Clause("words_corr", "corr", gen_words, run_words, judge_words, lean=lean_words,
           site="representation.Representation._word_value", budget={"quick": 80, "thorough": 2000},
           what="rep[word] (simple and '*'-separated names) vs Lean wordProd on the implementation's generator matrices"),
    Clause("relations_oracle", "oracle", gen_rel, run_rel, judge_rel, lean=lean_rel,
           site="coxeter.CoxeterGroup.*_representation", budget={"quick": 150, "thorough": 4000},
           what="involutions, (s_i s_j)^m = 1, exact order m (canonical), det -1 / rank(g-1)=1, for all six representation "
                "kinds; numpy and exact Lean residuals on the implementation's matrices"),
    Clause("history_oracle", "oracle", gen_hist, run_hist, judge_hist, site="coxeter.CoxeterGroup (histories)",
           budget={"quick": 120, "thorough": 2500},
           what="families of groups built through one work buffer / nested list / diagram list that the caller edits afterwards, "
                "several representation requests in random order on each object (geometric, canonical, diagonalised, hyperbolic, "
                "cartan): every result is checked against the labels the group was CONSTRUCTED from"),
    Clause("session_oracle", "oracle", gen_session, run_session, judge_session, site="coxeter.CoxeterGroup (sessions)",
           budget={"quick": 300, "thorough": 4000},
           what="generic defences G1-G4: interleaved steps on 2-3 groups of one rank (representations of every kind, cartan with "
                "reused float/int arrays, tits_vinberg_rep / cartan_matrix with parameters at negative labels, bilinear_form), "
                "constructors fed buffers, views, Fortran arrays, tuples, float/int32 arrays, one-shot diagram iterables; inputs "
                "snapshotted, returned arrays overwritten; every answer compared with a FRESH group and with the clauses"),
    Clause("boundary_oracle", "oracle", gen_boundary, run_boundary, judge_boundary, site="coxeter.CoxeterGroup.cartan_representation(diagonalize=True)",
           budget={"quick": 100, "thorough": 1500},
           what="G15: valid near-degenerate forms (Tits-Vinberg parameters -2-eps, eps = 1e-3..1e-12, rank 2-3, infinity written 0/-1/-2) "
                "must NOT be refused and satisfy the clauses relative to their conditioning; exactly degenerate ones (eps = 0) must raise "
                "GeometryError; G13: the documented keyword rename_generators on every representation method"),
    Clause("form_dual_oracle", "oracle", gen_formdual, run_formdual, judge_formdual,
           site="coxeter.CoxeterGroup.geometric_representation/canonical_representation", budget={"quick": 100, "thorough": 3000},
           what="g^T B g = B on generators and words; canonical[w] = inverse transpose of geometric[w]"),
    Clause("hyperbolic_oracle", "oracle", gen_hyp, run_hyp, judge_hyp, site="coxeter.CoxeterGroup.hyperbolic_rep",
           budget={"quick": 80, "thorough": 2000},
           what="forms of signature (d,1), rank 3-5: isometries(words) in O(d,1); generators are reflections in spacelike vectors"),
    Clause("triangle_corr", "corr", gen_tricorr, run_tricorr, judge_tricorr, lean=lean_tricorr,
           site="coxeter.TriangleGroup.bilinear_form / hyperbolic_rep / utils.apply_bilinear", budget={"quick": 30, "thorough": 120},
           what="the objects of the triangle-angle theorem executed over Q: form3 a b c vs TriangleGroup.bilinear_form, bil vs "
                "utils.apply_bilinear on rational vectors, and per vertex (adjugate column) ideal-or-not and the cosine of the angle "
                "between the two tangent directions vs the angle measured on the fixed points of ab, bc, ca in hyperbolic_rep"),
    Clause("triangle_oracle", "oracle", gen_tri, run_tri, judge_tri, site="coxeter.TriangleGroup.hyperbolic_rep",
           budget={"quick": 80, "thorough": 2000},
           what="hyperbolic triples (p,q,r), labels 2..12 and infinite: fixed points of ab, bc, ca span a triangle with angles "
                "pi/p, pi/q, pi/r; ideal vertex iff infinite label"),
]
