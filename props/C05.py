"""C05 — representations are word homomorphisms; derived ones commute with evaluation; Fox formula."""
import itertools
from fractions import Fraction as F
import numpy as np
from vlib.runner import Clause
from vlib import q as Q
from props import _rephelp as H
from geometry_tools import representation as R
from geometry_tools.utils import words as W

LEVEL = "proof"
EXPLANATION = (
    "Lean theorems for every commutative ring, dimension and word: wordValue of nil/append/inverse letter/free "
    "reduction/formal inverse; compose_hom functoriality with instances conjugate, dual, astype, subgroup, tensor "
    "(= Kronecker), symmetric square, gln/sln adjoint; Fox fundamental formula and cocycle*coboundary = 1 - rho(r). "
    "The model (GT.Model.Words/Rep) is executed over Q, Z and Q(i) on the same assignment histories / words as the "
    "real Representation class and compared; float/complex/int oracles evaluate the laws on the implementation.")
ASSUMPTIONS = [
    "numpy.linalg.inv returns the inverse (contract InvertOK); IEEE rounding of matrix products within "
    "1e-9*(1+prod of spectral norms of the letters)",
    "ASCII generator names (str.lower/upper)",
]


def _mats(x):
    return [Q.decf(m) for m in x]


# =====================================================================================
# corr: utils/words.py
# =====================================================================================
def gen_words(rng, n):
    alph = "abAB"
    small = ["".join(w) for w in H.all_words(list(alph), 4)]
    rng.shuffle(small)
    for w in small[: max(20, n // 3)]:
        yield {"w": w, "g": rng.choice("abAB"), "u": "".join(rng.choice(alph) for _ in range(rng.randint(0, 3)))}
    for _ in range(n - max(20, n // 3)):
        alph2 = rng.choice(["abAB", "aA", "abcdABCD", "xyXY1", "abAB"])
        k = rng.choice([0, 1, 2, 5, 9, 17, 30, 60])
        yield {"w": "".join(rng.choice(alph2) for _ in range(k)), "g": rng.choice(alph2),
               "u": "".join(rng.choice(alph2) for _ in range(rng.randint(0, 6)))}


NAMES = ["a", "A", "ab", "AB", "aB", "Ab", "a1", "A1", "1", "", "a*", "(a)", "a(", "é", "a_b", "x-y", "Z9z", "zz", "-"]


def run_words(inp):
    w, g, u = inp["w"], inp["g"], inp["u"]
    o = {"finv": W.formal_inverse(w), "simp": W.simplify_word(w), "comm": W.commutator(w, u),
         "inv": [W.invert_gen(x) for x in NAMES if x.isascii()],
         "fox": H.guard(lambda: {k: int(v) for k, v in W.fox_word_derivative(g, w).items()})}
    rep = R.Representation(parse_simple=False)
    names = ["a1", "b", "A1", "B", "cc"]
    tw = tuple(names["abABc".index(c) if c in "abABc" else 4] for c in w)
    o["foxt"] = H.guard(lambda: [[list(k), int(v)] for k, v in W.fox_word_derivative("a1", tw).items()])
    o["parse"] = [list(rep.parse_word(w, simple=True)), rep.parse_word("*".join(w) + "*(" + u + ")", simple=False),
                  rep.parse_word(u, simple=False)]
    val = []
    for nm in NAMES:
        if not nm.isascii():
            continue
        r = H.guard(lambda: R.Representation().set_generator(nm, np.eye(2)))        # public API only
        val.append(H.exc_name(r) is None)
    o["valid"] = val
    return o


def lean_words(inp, obs):
    w, g, u = inp["w"], inp["g"], inp["u"]
    ops = [{"op": "c05.finv", "w": w}, {"op": "c05.simplify", "w": w}, {"op": "c05.comm", "u": w, "v": u},
           {"op": "c05.fox", "g": g, "w": w}, {"op": "c05.parse", "simple": True, "w": w},
           {"op": "c05.parse", "simple": False, "w": "*".join(w) + "*(" + u + ")"},
           {"op": "c05.parse", "simple": False, "w": u}]
    for nm in NAMES:
        if nm.isascii():
            ops += [{"op": "c05.invgen", "g": nm}, {"op": "c05.valid", "g": nm}]
    names = ["a1", "b", "A1", "B", "cc"]
    ops.append({"op": "c05.fox", "g": "a1", "wl": [names["abABc".index(c) if c in "abABc" else 4] for c in w]})
    return ops


def judge_words(inp, obs, lr):
    if "exc" in obs:
        return {"expected": "values", "observed": obs, "tags": {"exc": obs["exc"]}}
    def ok(i):
        return lr[i].get("ok")
    for i, key in enumerate(["finv", "simp", "comm"]):
        if ok(i) != obs[key]:
            return {"expected": {key: ok(i)}, "observed": obs[key], "tags": {"fn": key}}
    fox = obs["fox"]
    if "err" in lr[3] or H.exc_name(fox):
        if lr[3].get("err") != H.exc_name(fox):
            return {"expected": lr[3], "observed": fox, "tags": {"fn": "fox", "err": True}}
    else:
        # zero coefficients are not part of the value of a Z[F]-element (an implementation may or may not store them)
        model = {"".join(k): int(c) for k, c in lr[3]["ok"] if int(c) != 0}
        fox = {k: v for k, v in fox.items() if v != 0}
        if model != fox:
            return {"expected": model, "observed": fox, "tags": {"fn": "fox"}}
    ft, mt = obs["foxt"], lr[-1]
    if "err" in mt or H.exc_name(ft):
        if mt.get("err") != H.exc_name(ft):
            return {"expected": mt, "observed": ft, "tags": {"fn": "fox", "tuple_words": True, "err": True}}
    elif {tuple(k): int(c) for k, c in mt["ok"] if int(c) != 0} != {tuple(k): v for k, v in ft if v != 0}:
        return {"expected": mt["ok"], "observed": ft, "tags": {"fn": "fox", "tuple_words": True}}
    for k in range(3):
        if ok(4 + k) != obs["parse"][k]:
            return {"expected": ok(4 + k), "observed": obs["parse"][k], "tags": {"fn": "parse_word", "k": k}}
    names = [x for x in NAMES if x.isascii()]
    for k, nm in enumerate(names):
        if ok(7 + 2 * k) != obs["inv"][k]:
            return {"expected": ok(7 + 2 * k), "observed": obs["inv"][k], "tags": {"fn": "invert_gen", "name": nm}}
        if ok(8 + 2 * k) != obs["valid"][k]:
            return {"expected": ok(8 + 2 * k), "observed": obs["valid"][k], "tags": {"fn": "validName", "name": nm}}
    return None


# =====================================================================================
# corr: histories of assignments, word evaluation
# =====================================================================================
def _word_list(rng, spec, n_long=6, exhaustive=3):
    simple = spec["simple"]
    alph = H.spec_names(spec)
    ws = []
    ex = H.all_words(alph[:4], exhaustive if len(alph) <= 4 else 2)
    rng.shuffle(ex)
    ws += ex[:40]
    for _ in range(n_long):
        k = rng.choice([6, 10, 20, 40, 60]) if spec["ring"] != "Z" else rng.choice([4, 6, 8, 10])
        ws.append(H.rand_letters(rng, alph, H.cap_len(spec, k)))
    # unknown letters -> KeyError on both sides
    if rng.random() < 0.3:
        ws.append(H.rand_letters(rng, alph, 2) + ["q" if simple else "q7"])
    return [{"s": H.join_word(w, simple, rng), "l": w} for w in ws]


def gen_rep(rng, n):
    for i in range(n):
        spec = H.rand_spec(rng)
        if rng.random() < 0.15:   # compute_inverse=False assignments: inverse letters stay what they were / missing
            for h in spec["hist"]:
                if rng.random() < 0.5:
                    h["inv"] = False
        if rng.random() < 0.05:   # a singular assignment -> LinAlgError
            m = H.dec(spec["hist"][-1]["m"])
            m[0] = [F(0) if spec["ring"] != "C" else H.CF(0)] * spec["n"]
            spec["hist"][-1]["m"] = H.enc(m)
        if rng.random() < 0.05:   # an invalid name -> ValueError
            spec["hist"].append({"g": rng.choice(["aB", "1", "a*b", ""]), "m": spec["hist"][0]["m"], "inv": True})
        if rng.random() < 0.04:   # a wrong shape -> ValueError
            k = spec["n"] + 1
            spec["hist"].append({"g": "a", "m": H.enc(H.fident(k)), "inv": True})
        if rng.random() < 0.4:
            alph = H.spec_names(spec)
            spec["relations"] = [H.join_word(H.rand_letters(rng, alph, rng.randint(1, 4)), spec["simple"])
                                 for _ in range(rng.randint(1, 2))]
        yield {"spec": spec, "words": _word_list(rng, spec)}


def run_rep(inp):
    spec = inp["spec"]
    rep = H.build_rep(spec)
    out = {"keys": list(rep.generators), "asym": list(rep.asym_gens()), "vals": [], "bounds": []}
    for w in inp["words"]:
        v = H.guard(lambda: H.asl(rep[w["s"]], spec["ring"]))
        out["vals"].append(v)
        out["bounds"].append(H.norm_bound(rep, w["l"]))
    ok = [w["s"] for w, v in zip(inp["words"], out["vals"]) if not H.exc_name(v)]
    out["elements"] = H.guard(lambda: H.asl(rep.elements(ok), spec["ring"])) if ok else []
    out["gens"] = {k: H.asl(v, spec["ring"]) for k, v in rep.generators.items()}
    out["rels"] = list(rep.relations)
    return out


def lean_rep(inp, obs):
    spec = H.lean_spec(inp["spec"])
    q = [{"q": "gens"}, {"q": "asym"}] + [{"q": "word", "w": w["s"]} for w in inp["words"]]
    if isinstance(obs, dict) and "vals" in obs:
        # the model's `Rep.elements` on the list the implementation was given (the words whose single evaluation succeeded)
        ok = [w["s"] for w, v in zip(inp["words"], obs["vals"]) if not H.exc_name(v)]
        if ok:
            q.append({"q": "elements", "ws": ok})
    spec.update(op="c05.run", q=q)
    return [spec]


def judge_rep(inp, obs, lr):
    res = lr[0]
    e = H.exc_name(obs)
    if e or "err" in res:
        if res.get("err") != e:
            return {"expected": res, "observed": obs, "tags": {"history_error": True}}
        return None
    qs = res["ok"]
    keys = [k for k, _ in qs[0]["ok"]]
    if sorted(keys) != sorted(obs["keys"]):          # (dict order is not part of the contract)
        return {"expected": keys, "observed": obs["keys"], "tags": {"what": "generator keys"}}
    for k, m in qs[0]["ok"]:
        if not H.mclose(obs["gens"][k], H.decm(m), 10.0 * float(np.max(np.abs(H.decm(m)))) ** 2):
            return {"expected": {k: m}, "observed": obs["gens"][k], "tags": {"what": "stored generator", "inverse": k not in [h["g"] for h in inp["spec"]["hist"]]}}
    if sorted(qs[1]["ok"]) != sorted(obs["asym"]):
        return {"expected": qs[1]["ok"], "observed": obs["asym"], "tags": {"what": "asym_gens"}}
    if obs.get("rels", []) != list(inp["spec"].get("relations", [])):
        return {"expected": {"relations": inp["spec"].get("relations", [])}, "observed": obs.get("rels"),
                "tags": {"what": "relations of a fresh representation", "rel_mode": inp["spec"].get("rel_mode")}, "property_failure": True}
    good = []
    for w, v, b, r in zip(inp["words"], obs["vals"], obs["bounds"], qs[2:]):
        ev = H.exc_name(v)
        if ev or "err" in r:
            if r.get("err") != ev:
                return {"expected": r, "observed": v, "tags": {"what": "word error", "word": w["s"]}}
            continue
        if not H.mclose(v, H.decm(r["ok"]), b):
            return {"expected": r["ok"], "observed": v, "tags": {"what": "word value", "len": len(w["l"]), "simple": inp["spec"]["simple"], "ring": inp["spec"]["ring"]},
                    "word": w["s"]}
        good.append((H.decm(r["ok"]), b))
    if good:
        if H.exc_name(obs["elements"]) or len(obs["elements"]) != len(good):
            return {"expected": "elements(words) has one matrix per word", "observed": obs["elements"], "tags": {"what": "elements"}}
        for (m, b), v in zip(good, obs["elements"]):
            if not H.mclose(v, m, b):
                return {"expected": m.tolist(), "observed": v, "tags": {"what": "elements value"}}
        # the model's own `elements(words)` (one call on the whole list) against the implementation's
        me = qs[2 + len(inp["words"])] if len(qs) > 2 + len(inp["words"]) else None
        if me is None or "err" in me or len(me["ok"]) != len(obs["elements"]):
            return {"expected": me, "observed": "elements(words) returned %d matrices" % len(obs["elements"]), "tags": {"what": "elements (model list)"}}
        for mm, (m, b), v in zip(me["ok"], good, obs["elements"]):
            if not H.mclose(v, H.decm(mm), b):
                return {"expected": mm, "observed": v, "tags": {"what": "elements value (model list)"}}
    return None


# =====================================================================================
# corr: derived representations
# =====================================================================================
KINDS = ["copy", "conjugate", "conjugate_inv", "dual", "astype", "subgroup_list", "subgroup_dict", "subgroup_noinv",
         "tensor", "sym2", "gln_adjoint", "sln_adjoint"]


def gen_derived(rng, n):
    for i in range(n):
        kind = KINDS[i % len(KINDS)]
        ring = "Z" if (kind == "astype" or rng.random() < 0.2) and kind != "sym2" else "Q"
        if kind != "astype" and rng.random() < 0.3:
            ring = "C"
        nmax = {"tensor": 3, "sym2": 4, "gln_adjoint": 3, "sln_adjoint": 3}.get(kind, 5)
        dim = rng.randint(2 if kind == "sln_adjoint" else 1, nmax)
        simple = rng.random() < (0.5 if kind.startswith("subgroup") else 0.7)     # option x multi-character names
        spec = H.rand_spec(rng, ring=ring, simple=simple, n=dim, names=H.rand_names(rng, simple, rng.randint(1, 3)))
        alph = H.spec_names(spec)
        spec["relations"] = [H.join_word(H.rand_letters(rng, alph, rng.randint(1, 4)), simple) for _ in range(rng.randint(0, 2))]
        H.no_int32(spec)      # Kronecker squares of int32 matrices overflow after a few letters
        inp = {"kind": kind, "spec": spec}
        q = {"q": "derived", "kind": kind}
        if kind.startswith("conjugate"):
            C = H.gen_matrix(rng, dim, ring)
            q.update(kind="conjugate", C=H.enc(C))
            if kind == "conjugate_inv":
                q["Ci"] = H.enc(H.finv(C))
        if kind.startswith("subgroup"):
            k = rng.randint(1, 3)
            subw = [H.rand_letters(rng, alph, rng.randint(2, 4) if rng.random() < 0.7 else 1, reduced=True) for _ in range(k)]
            names = list("abc"[:k]) if kind == "subgroup_list" else rng.sample(["x", "y", "Z", "w"], k)
            q.update(kind="subgroup", pairs=[[nm, H.join_word(w, simple)] for nm, w in zip(names, subw)],
                     inv=kind != "subgroup_noinv")
            inp["sub_names"] = names
            alph = H.letters_of(names)
            inp["sub_simple"] = True    # the sub-representation is a fresh Representation(): parse_simple=True
        if kind == "tensor":
            p = rng.randint(1, 3)
            other = H.rand_spec(rng, ring=ring, simple=simple, n=p, names=[h["g"] for h in spec["hist"]], reassign=False)
            other["hist"] = [{"g": h["g"], "inv": h["inv"], "m": H.enc(H.gen_matrix(rng, p, ring))} for h in spec["hist"]]
            rng.shuffle(other["hist"])        # operands whose generators were assigned in different orders
            inp["other"] = other
            q["other"] = H.lean_spec(other)
        if kind.startswith("subgroup"):
            q["evsimple"] = evsimple = True
        else:
            evsimple = simple
        if kind in ("tensor", "sym2"):
            alph = H.letters_of([g for g in alph if g.lower() == g])
        ws = H.all_words(alph[:4], 2)[:12] + [H.rand_letters(rng, alph, min(rng.choice([3, 5, 8]), 5 if H.has_int(spec) else 8))
                                              for _ in range(3)]
        if kind.startswith("subgroup") and len(names) > 0:
            ws = [w for w in ws]
        inp["words"] = [{"s": H.join_word(w, evsimple), "l": w} for w in ws]
        inp["evsimple"] = evsimple
        q["ws"] = [w["s"] for w in inp["words"]]
        inp["query"] = q
        yield inp


def _derive(rep, inp):
    kind, q = inp["kind"], inp["query"]
    ring = inp["spec"]["ring"]
    if kind == "copy":
        return R.Representation(rep)
    if kind == "conjugate":
        return rep.conjugate(H.tonp(q["C"], ring))
    if kind == "conjugate_inv":
        return rep.conjugate(H.tonp(q["C"], ring), H.tonp(q["Ci"], ring))
    if kind == "dual":
        return rep.dual()
    if kind == "astype":
        return rep.astype(float)
    if kind == "subgroup_list":
        return rep.subgroup([p[1] for p in q["pairs"]])
    if kind == "subgroup_dict":
        return rep.subgroup({p[0]: p[1] for p in q["pairs"]})
    if kind == "subgroup_noinv":
        return rep.subgroup([p[1] for p in q["pairs"]], generator_names=[p[0] for p in q["pairs"]], compute_inverse=False)
    if kind == "tensor":
        return rep.tensor_product(H.build_rep(inp["other"]))
    if kind == "sym2":
        return rep.symmetric_square()
    if kind == "gln_adjoint":
        return rep.gln_adjoint()
    if kind == "sln_adjoint":
        return rep.sln_adjoint()
    raise ValueError(kind)


def run_derived(inp):
    rep = H.build_rep(inp["spec"])
    d = _derive(rep, inp)
    out = {"keys": list(d.generators), "vals": [], "bounds": [],
           "rels": [list(d.parse_word(r)) for r in d.relations]}
    for w in inp["words"]:
        out["vals"].append(H.guard(lambda: H.asl(d[w["s"]], inp["spec"]["ring"])))
        # derived generators are built from inverses (and inverses of inverses): error scale = conditioning of the word
        out["bounds"].append(H.norm_bound(d, w["l"]) * H.norm_bound(d, [H.swapcase(x) for x in w["l"]]))
    return out


def lean_derived(inp, obs):
    spec = H.lean_spec(inp["spec"])
    spec.update(op="c05.run", q=[inp["query"]])
    return [spec]


def judge_derived(inp, obs, lr):
    tags = {"kind": inp["kind"], "ring": inp["spec"]["ring"], "simple": inp["spec"]["simple"]}
    res = lr[0]
    if "err" in res:
        return {"expected": res, "observed": obs, "tags": dict(tags, driver_err=res["err"])}
    r = res["ok"][0]
    e = H.exc_name(obs)
    if e or "err" in r:
        if r.get("err") != e:
            return {"expected": r, "observed": obs, "tags": dict(tags, error=True), "property_failure": bool(e) and "err" not in r}
        return None
    if sorted(r["ok"]["gens"]) != sorted(obs["keys"]):
        return {"expected": r["ok"]["gens"], "observed": obs["keys"], "tags": dict(tags, what="keys")}
    if r["ok"]["rels"] != obs["rels"]:
        return {"expected": r["ok"]["rels"], "observed": obs["rels"], "tags": dict(tags, what="relations")}
    for w, v, b, m in zip(inp["words"], obs["vals"], obs["bounds"], r["ok"]["vals"]):
        if H.exc_name(v) or not H.mclose(v, H.decm(m), b):
            return {"expected": m, "observed": v, "tags": dict(tags, what="value"), "word": w["s"]}
    return None


# =====================================================================================
# corr: Fox calculus on representations
# =====================================================================================
FOX_NAMES = [(True, "a"), (True, "ab"), (True, "abc"), (True, "abcd"), (True, "xy"),
             (False, ["a1", "b1"]), (False, ["x", "yy", "zzz"]), (False, ["gen"]), (False, ["s1", "s2", "s3", "s4"]),
             (False, ["a", "ab", "b"])]


def gen_fox(rng, n):
    for i in range(n):
        ring = rng.choice(["Q", "Q", "Z", "C"])
        simple, names = rng.choice(FOX_NAMES)
        names = list(names)
        spec = H.rand_spec(rng, ring=ring, simple=simple, n=rng.randint(1, 4), names=names, reassign=rng.random() < 0.3,
                           kind=rng.choice(["uni", "orth", "diag"]))
        alph = H.spec_names(spec)
        rl = [H.rand_letters(rng, alph, H.cap_len(spec, rng.choice([1, 2, 3, 4, 6, 9, 14]))) for _ in range(rng.randint(1, 3))]
        if rng.random() < 0.1:
            rl.append([])        # IndexError
        spec["relations"] = [H.join_word(r, simple) for r in rl]
        k = rng.randrange(len(rl))
        yield {"spec": spec, "w": spec["relations"][k], "g": rng.choice(alph), "rl": rl}


def _rel_letters(inp):
    """relators as lists of generator names (older corpus entries carry only the strings)"""
    if "rl" in inp:
        return inp["rl"]
    simple = inp["spec"]["simple"]
    return [list(r) if simple else [g for g in r.replace("(", "*").replace(")", "*").split("*") if g]
            for r in inp["spec"]["relations"]]


def run_fox(inp):
    rep = H.build_rep(inp["spec"])
    ring = inp["spec"]["ring"]
    out = {"diff": H.guard(lambda: H.asl(rep.differential(inp["w"]), ring)),
           "diffat": H.guard(lambda: H.asl(rep.differential(inp["w"], generator=inp["g"]), ring)),
           "cocycle": H.guard(lambda: H.asl(rep.cocycle_matrix(), ring)),
           "coboundary": H.guard(lambda: H.asl(rep.coboundary_matrix(), ring)),
           "bound": max(H.norm_bound(rep, r) for r in _rel_letters(inp)) * 20,
           "asym": list(rep.asym_gens())}
    return out


def lean_fox(inp, obs):
    spec = H.lean_spec(inp["spec"])
    spec.update(op="c05.run", q=[{"q": "diff", "w": inp["w"]}, {"q": "diffat", "w": inp["w"], "g": inp["g"]},
                                 {"q": "cocycle"}, {"q": "coboundary"}, {"q": "asym"}])
    return [spec]


def _hcat(blocks):
    return np.concatenate([H.decm(b) for b in blocks], axis=-1)


def judge_fox(inp, obs, lr):
    if "err" in lr[0] or "exc" in obs:
        return {"expected": lr[0], "observed": obs, "tags": {"setup": True}}
    qs = lr[0]["ok"]
    # the blocks are matched by generator name: the order of asym_gens() is the implementation's
    masym = qs[4]["ok"] if len(qs) > 4 and "ok" in qs[4] else obs.get("asym", [])
    iasym = obs.get("asym", masym)
    if sorted(masym) != sorted(iasym):
        return {"expected": masym, "observed": iasym, "tags": {"fn": "asym_gens"}}
    perm = [masym.index(g) for g in iasym]
    reord = lambda blocks: [blocks[k] for k in perm] if len(blocks) == len(perm) else blocks
    hcat = lambda blocks: _hcat(reord(blocks))
    for key, r, build in [("diff", qs[0], hcat), ("diffat", qs[1], H.decm),
                          ("cocycle", qs[2], lambda rows: np.concatenate([hcat(b) for b in rows], axis=0)),
                          ("coboundary", qs[3], lambda bl: np.concatenate([H.decm(b) for b in reord(bl)], axis=0))]:
        e = H.exc_name(obs[key])
        if e or "err" in r:
            if r.get("err") != e:
                return {"expected": r, "observed": obs[key], "tags": {"fn": key, "error": True}}
            continue
        m = build(r["ok"])
        if not H.mclose(obs[key], m, obs["bound"]):
            return {"expected": m.tolist(), "observed": obs[key], "tags": {"fn": key}}
    return None


# =====================================================================================
# oracle: homomorphism laws on the implementation (real, complex, integer)
# =====================================================================================
def gen_hom(rng, n):
    for i in range(n):
        spec = H.rand_spec(rng)
        alph = H.spec_names(spec)
        u = H.rand_letters(rng, alph, H.cap_len(spec, rng.choice([0, 1, 2, 3, 5, 8, 13])) // (2 if H.cap_len(spec, 99) < 99 else 1))
        v = H.rand_letters(rng, alph, H.cap_len(spec, rng.choice([0, 1, 2, 3, 5, 8, 13])) // (2 if H.cap_len(spec, 99) < 99 else 1))
        if rng.random() < 0.3:
            spec["relations"] = [H.join_word(H.rand_letters(rng, alph, rng.randint(1, 4)), spec["simple"])]
        if rng.random() < 0.15:
            # both letters of a pair assigned with compute_inverse=False to unrelated matrices: 'A' is NOT the inverse
            # of 'a'; words in which they are adjacent must still be the plain product
            names = sorted({h["g"].lower() for h in spec["hist"]})
            spec["hist"] = [{"g": x, "m": H.enc(H.gen_matrix(rng, spec["n"], "Q" if spec["ring"] != "Z" else "Z")), "inv": False}
                            for g in names for x in (g, H.swapcase(g))]
            if spec["ring"] == "C":
                spec["ring"] = "Q"
            alph = [h["g"] for h in spec["hist"]]
            g = rng.choice(names)
            u = H.rand_letters(rng, alph, rng.randint(0, 3)) + [g]
            v = [H.swapcase(g)] + H.rand_letters(rng, alph, rng.randint(0, 3))
            yield {"spec": spec, "u": u, "v": v, "cplx": False, "phase": [1, 1], "noninv": True}
            continue
        yield {"spec": spec, "u": u, "v": v, "cplx": spec["ring"] == "Q" and rng.random() < 0.4,
               "phase": [rng.randint(-3, 3), rng.randint(1, 3)]}


def _cbuild(inp):
    rep = H.build_rep(inp["spec"], cplx=inp["cplx"])
    if inp["cplx"]:   # genuinely complex generators: multiply by unit complex scalars / conjugate by a complex matrix
        a, b = inp["phase"]
        z = complex(a, b) / abs(complex(a, b)) if (a or b) else 1.0
        n = inp["spec"]["n"]
        C = np.eye(n, dtype=complex) + 1j * np.triu(np.ones((n, n)), 1)
        rep2 = R.Representation(parse_simple=inp["spec"]["simple"])
        for h in inp["spec"]["hist"]:
            rep2[h["g"]] = z * (np.linalg.inv(C) @ rep.generators[h["g"]] @ C)
        rep = rep2
    return rep


def run_hom(inp):
    rep = _cbuild(inp)
    simple = inp["spec"]["simple"]
    n = inp["spec"]["n"]
    u, v = inp["u"], inp["v"]
    j = lambda w: H.join_word(w, simple)
    b = H.norm_bound(rep, u + v)
    worst = {}
    def upd(k, x, y, bound):
        worst[k] = max(worst.get(k, 0.0), float(np.max(np.abs(np.asarray(x, dtype=complex) - np.asarray(y, dtype=complex)))) / (1 + bound))
    upd("concat", rep[j(u + v)], rep[j(u)] @ rep[j(v)], b)
    upd("empty", rep[j([])], np.eye(n), 1.0)
    if inp.get("noninv"):
        # no letter is the inverse of another here: only the product law, against the explicit product of the stored matrices
        mats = {h["g"]: H.tonp_h(h, inp["spec"]["ring"]).astype(float) for h in inp["spec"]["hist"]}
        ref = np.eye(n)
        for x in u + v:
            ref = ref @ mats[x]
        upd("product", rep[j(u + v)], ref, b)
        upd("elements", rep.elements([j(u + v)])[0], ref, b)
        d = rep.conjugate(np.eye(n) + np.triu(np.ones((n, n)), 1))
        C = np.eye(n) + np.triu(np.ones((n, n)), 1)
        upd("derived product", d[j(u + v)], np.linalg.inv(C) @ ref @ C, b * 10 * n * n)
        return {"worst": worst, "reduced_len": len(u + v), "rels_ok": True}
    for g in H.spec_names(inp["spec"]):
        G = H.swapcase(g)
        bb = H.norm_bound(rep, [g, G])
        upd("inverse", rep[j([G])] @ rep[j([g])], np.eye(n), bb)
        upd("inverse", rep[j([g, G])], np.eye(n), bb)
        upd("inverse", rep[j([G])], np.linalg.inv(np.asarray(rep[j([g])], dtype=complex)), bb ** 2)
    red = W.simplify_word(u + v, as_string=False)
    upd("reduce", rep[j(u + v)], rep[j(red)], b * 10)
    if simple:
        upd("formal_inverse", rep[W.formal_inverse(j(u))] @ rep[j(u)], np.eye(n), H.norm_bound(rep, u) ** 2)
    upd("elements", rep.elements([j(u), j(v), j(u + v)])[2], rep[j(u + v)], b)
    return {"worst": worst, "reduced_len": len(red),
            "rels_ok": inp["cplx"] or list(rep.relations) == list(inp["spec"].get("relations", []))}


def judge_hom(inp, obs, lr):
    if "exc" in obs:
        return {"expected": "laws evaluate", "observed": obs, "tags": {"exc": obs["exc"], "simple": inp["spec"]["simple"]}}
    if not obs.get("rels_ok", True):
        return {"expected": "a representation has exactly the relators it was given", "observed": "other relators",
                "tags": {"law": "relations", "rel_mode": inp["spec"].get("rel_mode")}}
    for k, e in obs["worst"].items():
        if not e <= 1e-8:
            return {"expected": f"{k} law within 1e-8 (relative to norm bound)", "observed": e,
                    "tags": {"law": k, "ring": inp["spec"]["ring"], "cplx": inp["cplx"], "simple": inp["spec"]["simple"]}}
    return None


# =====================================================================================
# oracle: derived representations commute with evaluation (independent numpy formulas)
# =====================================================================================
OKINDS = ["copy", "conjugate", "dual", "compose", "tensor", "sym2", "gln_adjoint", "sln_adjoint", "subgroup", "astype",
          "projective", "hyperbolic"]


def gen_dor(rng, n):
    for i in range(n):
        kind = OKINDS[i % len(OKINDS)]
        nmax = {"tensor": 3, "sym2": 4, "gln_adjoint": 3, "sln_adjoint": 3}.get(kind, 5)
        dim = rng.randint(2 if kind in ("sln_adjoint", "hyperbolic") else 1, nmax)
        simple = kind == "hyperbolic" or rng.random() < (0.5 if kind == "subgroup" else 0.7)
        ring = "Z" if kind == "astype" or (kind not in ("sym2", "hyperbolic") and rng.random() < 0.3) else "Q"
        if kind not in ("astype", "projective", "hyperbolic") and rng.random() < 0.3:
            ring = "C"          # complex generators, mixed with real ones in every assignment order (rand_spec)
        spec = H.rand_spec(rng, ring=ring, simple=simple, n=dim, kind="orth" if kind == "hyperbolic" else None)
        H.no_int32(spec)
        if ring == "Z":   # exact-integer generators whose float inverse is usually not exactly representable
            for h in spec["hist"]:
                h["m"] = H.enc(H.unimodular(rng, dim, rng.randint(dim, 2 * dim + 2)))
        alph = H.spec_names(spec)
        if kind not in ("hyperbolic",) and rng.random() < 0.5:
            spec["relations"] = [H.join_word(H.rand_letters(rng, alph, rng.randint(1, 4)), simple) for _ in range(rng.randint(1, 2))]
        yield {"kind": kind, "spec": spec, "w": H.rand_letters(rng, alph, min(rng.choice([0, 1, 2, 4, 7]), 4 if H.has_int(spec) else 7)),
               "C": H.enc(H.gen_matrix(rng, dim, "Q")), "sub": [H.rand_letters(rng, alph, rng.randint(2, 3) if rng.random() < 0.7 else 1, reduced=True) for _ in range(2)],
               "other": [H.enc(H.gen_matrix(rng, 2, "Q")) for _ in spec["hist"]], "sub_inv": rng.random() < 0.5,
               "ci": rng.random() < 0.5, "assign_wrapped": rng.random() < 0.6, "coin_order": rng.random() < 0.7}


def _sym2_ref(A):
    """matrix of Sym^2(A) in the basis e_i e_j ordered by sym_index, computed from scratch"""
    n = A.shape[0]
    idx = {}
    for i in range(n):
        for j in range(i, n):
            idx[(i, j)] = (n - i) * (n - i - 1) // 2 + (j - i)
    N = n * (n + 1) // 2
    S = np.zeros((N, N), dtype=A.dtype)
    for (i, j), c in idx.items():       # image of e_i e_j = (A e_i)(A e_j) = sum_{k,l} A[k,i] A[l,j] e_k e_l
        for k in range(n):
            for l in range(n):
                S[idx[(min(k, l), max(k, l))], c] += A[k, i] * A[l, j]
    return S


def run_dor(inp):
    kind, spec = inp["kind"], inp["spec"]
    simple = spec["simple"]
    rep = H.build_rep(spec)
    n = spec["n"]
    w = H.join_word(inp["w"], simple)
    A = np.asarray(rep[w], dtype=complex if spec["ring"] == "C" else float)
    Ai = np.linalg.inv(A)
    C = H.tonp(inp["C"])        # float conjugator / test vector also for integer representations
    made = []        # (derived representation, relators it must have)
    rels = list(spec.get("relations", []))

    def ev(d, inherits=True):
        made.append((d, rels if inherits else []))
        return np.asarray(d[w])
    if kind == "copy":
        got, want = ev(R.Representation(rep)), A
    elif kind == "conjugate":
        got, want = ev(rep.conjugate(C)), np.linalg.inv(C) @ A @ C
    elif kind == "dual":
        got, want = ev(rep.dual()), Ai.T
    elif kind == "compose":
        got, want = ev(rep.compose(lambda M: np.kron(M, M), compute_inverses=inp.get("ci", False))), np.kron(A, A)
    elif kind == "tensor":
        oth = R.Representation(parse_simple=simple)
        pairs = list(zip(spec["hist"], inp["other"]))
        if inp.get("coin_order", True):
            pairs = pairs[::-1]       # the second operand's generators are assigned in another order
        for h, m in pairs:
            oth[h["g"]] = H.tonp(m)
        got, want = ev(rep.tensor_product(oth), False), np.kron(A, np.asarray(oth[w], dtype=float))
    elif kind == "sym2":
        got, want = ev(rep.symmetric_square(), False), _sym2_ref(A)
    elif kind in ("gln_adjoint", "sln_adjoint"):
        ci = inp.get("ci", False)
        d = rep.gln_adjoint(compute_inverses=ci) if kind == "gln_adjoint" else rep.sln_adjoint(compute_inverses=ci)
        got = ev(d)
        # Ad(A) X = A X A^-1 on the basis used by the library: check the action on a random (traceless) X
        X = C - (np.trace(C) / n) * np.eye(n) if kind == "sln_adjoint" else C
        coords = X.reshape(-1) if kind == "gln_adjoint" else X.reshape(-1)[:-1]
        Y = A @ X @ Ai
        got, want = got @ coords, (Y.reshape(-1) if kind == "gln_adjoint" else Y.reshape(-1)[:-1])
    elif kind == "subgroup":
        subw = [H.join_word(s, simple) for s in inp["sub"]]
        d = rep.subgroup(subw, compute_inverse=inp.get("sub_inv", True))
        made.append((d, []))
        got = np.asarray(d["abA"])
        want = np.asarray(rep[subw[0]]) @ np.asarray(rep[subw[1]]) @ np.linalg.inv(np.asarray(rep[subw[0]], dtype=complex))
    elif kind == "astype":
        got, want = ev(rep.astype(float)), A
    elif kind in ("projective", "hyperbolic"):
        from geometry_tools import projective, hyperbolic
        cls, wrap = ((projective.ProjectiveRepresentation, projective.Transformation) if kind == "projective"
                     else (hyperbolic.HyperbolicRepresentation, hyperbolic.Isometry))
        if inp.get("assign_wrapped"):
            # generators assigned as wrapped objects (unwrap_func on the way in, wrap_func on the way out)
            pr = cls(parse_simple=simple)
            for h in spec["hist"]:
                pr[h["g"]] = wrap(H.tonp(h["m"], spec["ring"]).astype(float), column_vectors=True)
            made.append((pr, []))
        else:
            pr = cls(rep)
            made.append((pr, rels))
        got, want = np.asarray(pr[w].matrix).T, A
        comp = pr.elements([w, w])
        if not np.allclose(np.asarray(comp.matrix)[1].T, A, atol=1e-7 * (1 + np.abs(A).max())):
            return {"err": float("inf"), "what": "elements"}
        if kind == "projective":
            # conjugation by a wrapped transformation: w -> C^-1 rho(w) C
            cj = pr.conjugate(projective.Transformation(C, column_vectors=True))
            made.append((cj, list(pr.relations)))
            cw = np.asarray(cj[w].matrix).T
            if not np.allclose(cw, np.linalg.inv(C) @ A @ C, atol=1e-7 * (1 + np.abs(A).max()) * (1 + np.abs(C).max()) ** 2 * 50):
                return {"err": float("inf"), "what": "conjugate by a Transformation"}
    # every formula involves rho(w) and rho(w)^-1: bound by the norms of the letters and of their inverses
    wl = inp["w"] if kind != "subgroup" else inp["sub"][0] + inp["sub"][1] + inp["sub"][0]
    nb = H.norm_bound(rep, wl) * H.norm_bound(rep, [H.swapcase(x) for x in wl])
    b = 10 * nb ** (3 if kind == "subgroup" else 2) * (1 + float(np.abs(C).max()) ** 2)   # subgroup: inverses of inverses
    if list(rep.relations) != rels or any(list(d.relations) != r for d, r in made):
        return {"err": float("inf"), "what": "relations"}
    if got.shape != want.shape:
        return {"err": float("inf"), "what": "shape"}
    return {"err": float(np.max(np.abs(got - want))) / (1 + b) if got.size else 0.0}


def judge_dor(inp, obs, lr):
    tags = {"kind": inp["kind"], "simple": inp["spec"]["simple"], "ring": inp["spec"]["ring"]}
    if inp["kind"] == "subgroup":
        tags["compute_inverse"] = inp.get("sub_inv", True)
    if "exc" in obs:
        return {"expected": "derived representation evaluates", "observed": obs, "tags": dict(tags, exc=obs["exc"])}
    if obs.get("what") == "relations":
        return {"expected": "a (derived) representation has the relators of its source, a fresh one has none", "observed": obs,
                "tags": dict(tags, what="relations", rel_mode=inp["spec"].get("rel_mode"))}
    if not obs["err"] <= 1e-8:
        return {"expected": "derived(w) = F(rep(w)) within 1e-8 (relative)", "observed": obs, "tags": tags}
    return None


# =====================================================================================
# oracle: Fox fundamental formula and cocycle @ coboundary = 0 on satisfied relations
# =====================================================================================
def gen_foxo(rng, n):
    for i in range(n):
        simple, names = rng.choice(FOX_NAMES[:4] + FOX_NAMES[5:])
        names = list(names)
        dim = rng.randint(1, 4)
        mode = rng.choice(["free", "commuting", "torsion"])
        spec = H.rand_spec(rng, ring=rng.choice(["Q", "Z"]) if mode == "free" else "Q", simple=simple, n=dim, names=names,
                           reassign=False, kind=rng.choice(["uni", "orth", "diag"]),
                           dtmix=mode == "free" and rng.random() < 0.4)
        # (rand_spec assigns the generators in random order: the order of asym_gens() is not the sorted one)
        for h in spec["hist"]:
            if rng.random() < 0.25:
                h["g"] = H.swapcase(h["g"])        # assigned through the upper-case name
        byname = {h["g"].lower(): h for h in spec["hist"]}
        rels = []
        if mode == "commuting" and len(names) >= 2:
            # all generators are polynomials in one matrix -> they commute
            M = H.dec(spec["hist"][0]["m"])
            P = H.fident(dim)
            for h in spec["hist"]:
                P = H.fmul(P, M)
                h["m"] = H.enc(P)
            a, b = names[0], names[1]
            rels = [[a, b, H.swapcase(a), H.swapcase(b)], [b, a, H.swapcase(b), H.swapcase(a)]]
        elif mode == "torsion" and dim >= 2:
            # a rational rotation by 90 degrees in the first two coordinates: a^4 = 1
            M = H.fident(dim)
            M[0][0], M[0][1], M[1][0], M[1][1] = F(0), F(-1), F(1), F(0)
            byname[names[0].lower()]["m"] = H.enc(M)       # (its inverse is a rotation of order 4 as well)
            rels = [[names[0]] * 4, [H.swapcase(names[0])] * 4]
        spec["relations"] = [H.join_word(r, simple) for r in rels]
        alph = H.spec_names(spec)
        yield {"spec": spec, "w": H.rand_letters(rng, alph, H.cap_len(spec, rng.choice([1, 2, 3, 5, 8, 13, 21]))),
               "cplx": rng.random() < 0.25 and spec["ring"] == "Q", "phase": [1, 2],
               "C": H.enc(H.gen_matrix(rng, dim, "Q", "uni"))}


def run_foxo(inp):
    rep = _cbuild(inp) if inp["cplx"] and not inp["spec"]["relations"] else H.build_rep(inp["spec"])
    rels_ok = list(rep.relations) == list(inp["spec"]["relations"])      # exactly the relators it was given
    n = inp["spec"]["n"]
    letters = list(inp["w"])      # a list of generator names (older corpus entries: a simple string)
    w = H.join_word(letters, inp["spec"]["simple"])
    I = np.eye(n)
    gens = list(rep.asym_gens())
    D = np.asarray(rep.differential(w))
    lhs = np.asarray(rep[w]) - I
    rhs = sum(D[:, k * n:(k + 1) * n] @ (np.asarray(rep[g]) - I) for k, g in enumerate(gens))
    b = H.norm_bound(rep, letters) * 10
    out = {"fundamental": float(np.max(np.abs(lhs - rhs))) / (1 + b), "shape_ok": D.shape == (n, n * len(gens)),
           "rels_ok": rels_ok}
    # D @ coboundary = I - rho(w)
    cb = np.asarray(rep.coboundary_matrix())
    out["coboundary"] = float(np.max(np.abs(D @ cb - (I - np.asarray(rep[w]))))) / (1 + b)
    if rep.relations:
        sat = max(float(np.max(np.abs(np.asarray(rep[r]) - I))) for r in rep.relations)
        cc = np.asarray(rep.cocycle_matrix())
        simple = inp["spec"]["simple"]
        nbr = 10 * max(H.norm_bound(rep, r) for r in _rel_letters(inp)) ** 2     # float error scale of the products involved
        out["satisfied"] = sat
        out["cocycle_coboundary"] = float(np.max(np.abs(cc @ cb))) / (1 + nbr)
        out["cc_shape_ok"] = cc.shape == (n * len(rep.relations), n * len(gens))
        # derived representations inherit the relations, hence have the same kind of cocycle matrix
        Cm = H.tonp(inp["C"]) if "C" in inp else np.eye(n) + np.triu(np.ones((n, n)), 1)
        for name, d in (("copy", R.Representation(rep)), ("conjugate", rep.conjugate(Cm)), ("dual", rep.dual())):
            ccd = np.asarray(d.cocycle_matrix())
            cbd = np.asarray(d.coboundary_matrix())
            out["derived_" + name] = {"rels": list(d.relations) == list(rep.relations), "shape": ccd.shape == cc.shape,
                                      "ann": float(np.max(np.abs(ccd @ cbd))) / (1 + nbr) / (1 + float(np.abs(Cm).max()) ** 4)}
    return out


def judge_foxo(inp, obs, lr):
    ps = {"parse_simple": inp["spec"]["simple"], "site": "Representation.differential"}
    if "exc" in obs:
        return {"expected": "differential evaluates", "observed": obs, "tags": dict(ps, exc=obs["exc"])}
    if not obs.get("rels_ok", True):
        return {"expected": "a representation has exactly the relators it was given", "observed": "other relators",
                "tags": dict(ps, law="relations", rel_mode=inp["spec"].get("rel_mode"))}
    if not obs["shape_ok"] or not obs.get("cc_shape_ok", True):
        return {"expected": "block shapes", "observed": obs, "tags": dict(ps, shape=True)}
    for k in ("fundamental", "coboundary"):
        if not obs[k] <= 1e-8:
            return {"expected": "rho(w) - I = sum_g D_g(w) (rho(g) - I)", "observed": obs, "tags": dict(ps, law=k)}
    for k, v in obs.items():
        if k.startswith("derived_") and (not v["rels"] or not v["shape"] or (obs["satisfied"] <= 1e-9 and not v["ann"] <= 1e-8)):
            return {"expected": "a derived representation keeps the relations; its cocycle matrix annihilates its coboundary matrix",
                    "observed": {k: v}, "tags": dict(ps, law="cocycle", derived=k[8:])}
    if "cocycle_coboundary" in obs and obs["satisfied"] <= 1e-9 and not obs["cocycle_coboundary"] <= 1e-8:
        return {"expected": "cocycle_matrix @ coboundary_matrix = 0 for satisfied relations", "observed": obs,
                "tags": dict(ps, law="cocycle")}
    return None


# =====================================================================================
# oracle: histories on one object, isolation of inputs/outputs, unrelated objects in between (G1-G3)
# =====================================================================================
ISO_DERIVED = ["dual", "conjugate", "gln_adjoint", "sln_adjoint", "tensor", "sym2", "subgroup", "subgroup_noinv"]


def gen_iso(rng, n):
    for i in range(n):
        simple = rng.random() < 0.7
        dim = rng.choice([1, 2, 2, 3])
        ring = rng.choice(["Q", "Q", "Z", "C"])
        names = H.rand_names(rng, simple, rng.randint(1, 3))
        A = H.no_int32(H.rand_spec(rng, ring=ring, simple=simple, n=dim, names=names))
        # an unrelated object of the same class, dimension and generator names
        B = H.no_int32(H.rand_spec(rng, ring=rng.choice(["Q", ring]), simple=simple, n=dim, names=names))
        alph = H.letters_of(names)
        extra = [g for g in (["e", "f"] if simple else ["e9", "ff"])]
        steps = []
        for _ in range(rng.randint(3, 8)):
            who = rng.choice("AB")
            r = rng.random()
            cur = alph + [x for st in steps if st[0] == "assign" and st[1] == who for x in (st[2], H.swapcase(st[2]))]
            if r < 0.3:
                steps.append(["word", who, H.rand_letters(rng, cur, rng.choice([0, 1, 1, 1, 2, 3]))])
            elif r < 0.4:
                steps.append(["elements", who, [H.rand_letters(rng, cur, rng.choice([1, 1, 2])) for _ in range(2)]])
            elif r < 0.5:
                steps.append(["diff", who, H.rand_letters(rng, cur, rng.choice([1, 2, 3]))])
            elif r < 0.55:
                steps.append(["cob", who])
            elif r < 0.68:
                steps.append(["derived", who, rng.choice(ISO_DERIVED)])
            elif r < 0.8:
                # a copy (plain or wrapped class), then an assignment on the copy or on the original
                g = rng.choice(names + extra)
                sp = A if who == "A" else B
                steps.append(["copy_assign", who, rng.choice(["plain", "projective"]), rng.random() < 0.5,
                              {"g": g, "m": H.enc(H.gen_matrix(rng, dim, "Q" if sp["ring"] == "C" else sp["ring"])), "inv": True}])
            else:
                g = rng.choice(names + extra)          # a new generator, or a re-assignment
                g = H.swapcase(g) if rng.random() < 0.25 else g
                sp = A if who == "A" else B
                h = {"g": g, "m": H.enc(H.gen_matrix(rng, dim, sp["ring"])), "inv": True}
                if any("dt" in x for x in sp["hist"]):
                    one = {"ring": sp["ring"], "n": dim, "hist": [h]}
                    H.no_int32(H.mix_dtypes(rng, one))
                steps.append(["assign", who, g, h])
        yield {"A": A, "B": B, "steps": steps, "probes": [H.rand_letters(rng, alph, k) for k in (0, 1, 1, 2, 4)]}


def _bump(a):
    """mutate a returned array in place (what a caller is entitled to do with a result)"""
    a = np.asarray(a)
    if a.flags.writeable and a.size:
        a += 1
    return a


def _iso_derive(rep, kind, spec):
    simple = spec["simple"]
    g = list(rep.asym_gens())
    if kind == "dual":
        return rep.dual()
    if kind == "conjugate":
        n = spec["n"]
        return rep.conjugate(np.eye(n) + np.triu(np.ones((n, n)), 1))
    if kind == "gln_adjoint":
        return rep.gln_adjoint()
    if kind == "sln_adjoint":
        return rep.sln_adjoint() if spec["n"] >= 2 else rep.dual()
    if kind == "tensor":
        return rep.tensor_product(rep)
    if kind == "sym2":
        return rep.symmetric_square()
    # subgroups generated by single letters: the sub-representation's generators ARE images of one-letter words
    return rep.subgroup(g[:3] + [H.swapcase(g[0])], compute_inverse=kind == "subgroup")


@H.limited(20)
def run_iso(inp):
    specs = {"A": dict(inp["A"], hist=list(inp["A"]["hist"])), "B": dict(inp["B"], hist=list(inp["B"]["hist"]))}
    reps = {k: H.build_rep(v) for k, v in specs.items()}

    def verify(tag):
        # (G1/G3) every object with a history answers like a fresh object built from its current primary data
        for k in "AB":
            fresh = H.build_rep(specs[k])
            rep = reps[k]
            if list(rep.generators) != list(fresh.generators) or list(rep.relations) != list(fresh.relations):
                return {"bad": tag, "who": k, "what": "keys/relations"}
            alph = list(fresh.generators)
            probes = [[x] for x in alph] + [[x for x in p if x in alph] for p in inp["probes"]]
            for p in probes:
                w = H.join_word(p, specs[k]["simple"])
                if not H.mclose(rep[w], fresh[w], H.norm_bound(fresh, p) * 10):
                    return {"bad": tag, "who": k, "what": "word value", "word": w}
        return None

    bad = verify("start")
    if bad:
        return bad
    for i, st in enumerate(inp["steps"]):
        op, who = st[0], st[1]
        rep, spec = reps[who], specs[who]
        simple = spec["simple"]
        tag = "%d:%s" % (i, op)
        if op == "word":
            w = H.join_word(st[2], simple)
            before = np.array(rep[w], copy=True)
            _bump(rep[w])                      # (G2) mutate the returned array ...
            if not H.mclose(rep[w], before, H.norm_bound(rep, st[2]) * 10):      # ... and ask again
                return {"bad": tag, "who": who, "what": "result changed after the caller modified an earlier result", "word": w}
        elif op == "elements":
            ws = [H.join_word(x, simple) for x in st[2]]
            before = np.array(rep.elements(ws), copy=True)
            _bump(rep.elements(ws))
            if not H.mclose(rep.elements(ws), before, max(H.norm_bound(rep, x) for x in st[2]) * 10):
                return {"bad": tag, "who": who, "what": "elements changed after the caller modified an earlier result"}
        elif op in ("diff", "cob"):
            f = (lambda: rep.differential(H.join_word(st[2], simple))) if op == "diff" else rep.coboundary_matrix
            before = np.array(f(), copy=True)
            _bump(f())
            if not H.mclose(f(), before, (H.norm_bound(rep, st[2]) if op == "diff" else 10.0) * 20):
                return {"bad": tag, "who": who, "what": op + " changed after the caller modified an earlier result"}
        elif op == "derived":
            d = _iso_derive(rep, st[2], spec)
            for arr in list(d.generators.values()):
                _bump(arr)                     # the derived representation owns its matrices
        elif op == "copy_assign":
            from geometry_tools import projective
            cls = R.Representation if st[2] == "plain" else projective.ProjectiveRepresentation
            cp = cls(rep)
            h = st[4]
            M = H.tonp_h(h, "Q" if spec["ring"] == "C" else spec["ring"]).astype(float)
            target_copy = st[3]
            (cp if target_copy else rep).set_generator(h["g"], M, compute_inverse=True) if st[2] == "plain" or not target_copy \
                else cp.__setitem__(h["g"], projective.Transformation(M, column_vectors=True))
            old_spec = dict(spec, hist=list(spec["hist"]))
            new_spec = dict(spec, hist=spec["hist"] + [dict(h, dt="float64")])
            if not target_copy:
                spec["hist"] = new_spec["hist"]
            want_cp = H.build_rep(new_spec if target_copy else old_spec)
            for gname in want_cp.generators:
                w = H.join_word([gname], simple)
                got = cp[w] if st[2] == "plain" else np.asarray(cp[w].matrix).T
                if list(cp.generators) != list(want_cp.generators) or not H.mclose(got, want_cp[w], H.norm_bound(want_cp, [gname]) * 10):
                    return {"bad": tag, "who": who, "what": "copy and original are not independent after an assignment", "word": w}
        elif op == "assign":
            h = st[3]
            M = H.tonp_h(h, spec["ring"])
            snap = M.copy()
            rep[h["g"]] = M
            if not np.array_equal(M, snap):
                return {"bad": tag, "who": who, "what": "assignment modified the caller's matrix"}
            spec["hist"] = spec["hist"] + [h]
        bad = verify(tag)
        if bad:
            return bad
    return {"bad": None}


def judge_iso(inp, obs, lr):
    if "exc" in obs:
        return {"expected": "history evaluates", "observed": obs, "tags": {"exc": obs["exc"]}}
    if obs["bad"] is not None:
        op = obs["bad"].split(":")[-1]
        kind = next((st[2] for i, st in enumerate(inp["steps"]) if obs["bad"].startswith("%d:" % i) and st[0] == "derived"), None)
        return {"expected": "after every step each object answers like a fresh object built from its current generators; "
                            "results do not change when the caller modifies earlier results",
                "observed": obs, "tags": {"step": op, "what": obs["what"], "derived": kind}}
    return None


# =====================================================================================
# oracle: every non-default keyword option of the Representation API (enumerated from the signatures)
# =====================================================================================
OPTION_CASES = ["init_generator_names", "init_invert_gen", "init_dtype", "element_parse_simple", "conjugate_inv_dtype",
                "conjugate_unwrap_false", "compose_options", "subgroup_options", "differential_options", "adjoint_dtype",
                "astype_complex", "elements_iterables", "set_generator_options"]


def gen_opts(rng, n):
    for i in range(n):
        case = OPTION_CASES[i % len(OPTION_CASES)]
        dim = rng.randint(1, 3)
        simple = rng.random() < 0.6
        spec = H.no_int32(H.rand_spec(rng, ring=rng.choice(["Q", "Q", "Z"]), simple=simple, n=dim,
                                      names=H.rand_names(rng, simple, rng.randint(1, 3)), reassign=False))
        alph = H.spec_names(spec)
        yield {"case": case, "spec": spec, "w": H.rand_letters(rng, alph, rng.choice([1, 2, 4])),
               "w2": H.rand_letters(rng, alph, rng.choice([1, 2, 3])), "C": H.enc(H.unimodular(rng, dim, 3)),
               "coin": rng.random() < 0.5, "coin2": rng.random() < 0.5}


@H.limited(20)
def run_opts(inp):
    case, spec = inp["case"], inp["spec"]
    simple, n = spec["simple"], spec["n"]
    rep = H.build_rep(spec)
    j = lambda w: H.join_word(w, simple)
    w, w2 = j(inp["w"]), j(inp["w2"])
    A = np.asarray(rep[w], dtype=float)
    A2 = np.asarray(rep[w2], dtype=float)
    I = np.eye(n)
    Cq = H.dec(inp["C"])
    C = H.tonp(inp["C"])
    Ci = H.tonp(H.enc(H.finv(Cq)))
    gens = list(rep.asym_gens())
    checks = []     # (name, got, want)
    if case == "init_generator_names":
        g = gens[0]
        sub = R.Representation(rep, generator_names=[g, H.swapcase(g)])
        checks.append(("keys", list(sub.generators), [g, H.swapcase(g)]))
        checks.append(("value", sub[j([g, g, H.swapcase(g)])], rep[j([g])]))
    elif case == "init_invert_gen":
        inv = lambda g: g[:-1] if g.endswith("i") else g + "i"       # x <-> xi
        r2 = R.Representation(parse_simple=False, invert_gen=inv)
        r2["x"] = np.asarray(rep[w], dtype=float)
        r2["y"] = np.asarray(rep[w2], dtype=float)
        checks.append(("keys", list(r2.generators), ["x", "xi", "y", "yi"]))
        checks.append(("inverse", r2["x*xi"], I))
        checks.append(("word", r2["x*y*xi"], A @ A2 @ np.linalg.inv(A)))
        d = r2.dual()
        checks.append(("derived keeps invert_gen", d["y*yi"], I))
    elif case == "init_dtype":
        r2 = R.Representation(dtype="complex128", parse_simple=simple)
        checks.append(("empty word dtype", np.dtype(r2.dtype) == np.dtype("complex128"), True))
        for h in spec["hist"]:
            r2[h["g"]] = H.tonp_h(h, spec["ring"])
        checks.append(("value", r2[w], A))
    elif case == "element_parse_simple":
        if simple:
            checks.append(("explicit False", rep.element("*".join(inp["w"]), parse_simple=False), A))
            checks.append(("explicit True", rep.element(w, parse_simple=True), A))
        else:
            checks.append(("explicit False", rep.element(w, parse_simple=False), A))
            one = [x for x in inp["w"] if len(x) == 1]
            if one:
                checks.append(("explicit True", rep.element("".join(one), parse_simple=True), np.asarray(rep[j(one)], dtype=float)))
    elif case == "conjugate_inv_dtype":
        # the inverse supplied by the caller, in a dtype different from the matrix
        d = rep.conjugate(C.astype(np.int64) if inp["coin"] else C, Ci.astype(complex) if inp["coin2"] else Ci.astype(np.int64))
        checks.append(("value", d[w], Ci @ A @ C))
    elif case == "conjugate_unwrap_false":
        d = rep.conjugate(C, unwrap=False) if inp["coin"] else rep.conjugate(C, Ci, unwrap=False)
        checks.append(("value", d[w], Ci @ A @ C))
    elif case == "compose_options":
        d = rep.compose(lambda M: np.kron(M, M), hom_in_wrapped=inp["coin"], hom_out_wrapped=inp["coin2"],
                        compute_inverses=inp["coin"] != inp["coin2"], dtype="complex128" if inp["coin2"] else None)
        checks.append(("value", d[w], np.kron(A, A)))
        checks.append(("relations", list(d.relations), list(rep.relations)))
    elif case == "subgroup_options":
        names = ["u", "V"] if inp["coin"] else ["p", "q"]
        rels = ["uv"] if inp["coin2"] else []
        d = rep.subgroup([w, w2], generator_names=names, relations=rels, compute_inverse=inp["coin"])
        checks.append(("keys", sorted(d.generators), sorted(names + [H.swapcase(x) for x in names])))
        checks.append(("relations", list(d.relations), rels))
        checks.append(("value", d[names[0] + H.swapcase(names[1])], A @ np.linalg.inv(A2)))
        d2 = rep.subgroup({"m": w2, "k": w})          # dict form: names from the keys
        checks.append(("dict value", d2["km"], A @ A2))
    elif case == "differential_options":
        D = np.asarray(rep.differential(w), dtype=float)
        k = int(inp["coin"]) % len(gens)
        checks.append(("generator=", rep.differential(w, generator=gens[k]), D[:, k * n:(k + 1) * n]))
        checks.append(("differentials", rep.differentials([w, w2]), np.concatenate([D, np.asarray(rep.differential(w2), dtype=float)], axis=0)))
        r2 = R.Representation(rep, relations=[w, w2])
        checks.append(("cocycle generator=", r2.cocycle_matrix(generator=gens[k]),
                       np.asarray(r2.cocycle_matrix(), dtype=float)[:, k * n:(k + 1) * n]))
    elif case == "adjoint_dtype":
        dt = "complex128" if inp["coin"] else "float64"
        d = rep.gln_adjoint(dtype=dt) if inp["coin2"] or n < 2 else rep.sln_adjoint(dtype=dt)
        X = C - (np.trace(C) / n) * I if not (inp["coin2"] or n < 2) else C
        co = X.reshape(-1) if (inp["coin2"] or n < 2) else X.reshape(-1)[:-1]
        Y = A @ X @ np.linalg.inv(A)
        checks.append(("dtype", np.asarray(d[w]).dtype == np.dtype(dt), True))
        checks.append(("action", np.asarray(d[w]) @ co, Y.reshape(-1) if (inp["coin2"] or n < 2) else Y.reshape(-1)[:-1]))
    elif case == "astype_complex":
        d = rep.astype("complex128" if inp["coin"] else np.float64)
        checks.append(("value", d[w], A))
        checks.append(("dtype", all(np.asarray(m).dtype == np.dtype("complex128" if inp["coin"] else "float64") for m in d.generators.values()), True))
    elif case == "elements_iterables":
        want = np.array([A, A2, A])
        for name, ws in (("tuple", (w, w2, w)), ("generator", (x for x in [w, w2, w])), ("iter", iter([w, w2, w])),
                         ("ndarray", np.array([w, w2, w])), ("dict keys", {w: 0, w2: 1}.keys())):
            got = np.asarray(rep.elements(ws))
            checks.append((name, got, want if name != "dict keys" else (want[:2] if w != w2 else want[:1])))
        checks.append(("one word", np.asarray(rep.elements([w])).shape, (1, n, n)))
    elif case == "set_generator_options":
        r2 = R.Representation(parse_simple=simple)
        g = gens[0]
        M = np.asarray(rep[j([g])], dtype=float)
        r2.set_generator(g, M, compute_inverse=False)
        checks.append(("no inverse stored", list(r2.generators), [g]))
        r2.set_generator(H.swapcase(g), np.linalg.inv(M), compute_inverse=False)
        checks.append(("value", r2[j([g, H.swapcase(g), g])], M))
        r2.set_generator(g, M @ M, compute_inverse=True)
        checks.append(("re-assigned", r2[j([H.swapcase(g)])], np.linalg.inv(M @ M)))
    nb = (H.norm_bound(rep, inp["w"] + inp["w2"]) * H.norm_bound(rep, [H.swapcase(x) for x in inp["w"] + inp["w2"]])) ** 2
    b = 100 * nb * (1 + float(np.abs(C).max()) ** 2) * (1 + float(np.abs(Ci).max()) ** 2)
    for name, got, want in checks:
        if isinstance(want, (list, tuple, bool)):
            if (list(got) if isinstance(want, (list, tuple)) else bool(got)) != (list(want) if isinstance(want, (list, tuple)) else want):
                return {"bad": name, "got": str(got)[:200], "want": str(want)[:200]}
        elif not H.mclose(got, want, b, 1e-9):
            return {"bad": name, "got": str(np.asarray(got))[:200], "want": str(np.asarray(want))[:200]}
    return {"bad": None, "nchecks": len(checks)}


def judge_opts(inp, obs, lr):
    tags = {"case": inp["case"], "simple": inp["spec"]["simple"], "ring": inp["spec"]["ring"]}
    if "exc" in obs:
        return {"expected": "the option is accepted", "observed": obs, "tags": dict(tags, exc=obs["exc"])}
    if obs["bad"] is not None:
        return {"expected": "the documented effect of the keyword option", "observed": obs, "tags": dict(tags, check=obs["bad"])}
    return None


# =====================================================================================
# oracle: exact integer arithmetic on long words (wave 6)
# all-integer (int64) generators, words without inverse letters: the image is the exact integer product as long as the
# exact entries fit int64 comfortably (< 2^62); words are cut so that the largest entry lies beyond 2^53, where a silent
# detour through float64 loses digits.  Also rho(uv) = rho(u) rho(v) exactly for a split of the word.
# =====================================================================================
def _imul(A, B):
    n = len(A)
    return [[sum(A[i][k] * B[k][j] for k in range(n)) for j in range(n)] for i in range(n)]


def gen_intexact(rng, n):
    for _ in range(n):
        d = rng.choice([2, 2, 3])
        gens = {}
        for g in "abc"[:rng.choice([1, 2, 2, 3])]:
            M = [[int(i == j) for j in range(d)] for i in range(d)]
            for _k in range(rng.randint(2, 4)):          # a product of elementary matrices with non-negative entries: unimodular
                i, j = rng.sample(range(d), 2)
                E = [[int(r == c) for c in range(d)] for r in range(d)]
                E[i][j] = rng.randint(1, 3)
                M = _imul(M, E)
            gens[g] = M
        word, P = "", [[int(i == j) for j in range(d)] for i in range(d)]
        for _k in range(400):
            g = rng.choice(list(gens))
            P2 = _imul(P, gens[g])
            if max(abs(x) for r in P2 for x in r) >= 2 ** 62:
                break
            word, P = word + g, P2
        yield {"d": d, "gens": gens, "word": word, "cut": rng.randint(0, len(word)), "dtype": rng.choice(["int64", "int64", "pyint"])}


def run_intexact(inp):
    rep = R.Representation()
    for g, M in inp["gens"].items():
        rep[g] = np.array(M, dtype=np.int64) if inp["dtype"] == "int64" else np.array(M)
    w = inp["word"]
    exact = [[int(i == j) for j in range(inp["d"])] for i in range(inp["d"])]
    for ch in w:
        exact = _imul(exact, inp["gens"][ch])
    V = np.asarray(rep[w])
    U1, U2 = np.asarray(rep[w[:inp["cut"]]]), np.asarray(rep[w[inp["cut"]:]])
    E = np.asarray(rep.elements([w]))[0]
    as_int = lambda a: [[int(x) for x in r] for r in np.asarray(a).tolist()]
    return {"exact": [[str(x) for x in r] for r in exact], "maxbits": max(abs(x) for r in exact for x in r).bit_length(),
            "value": [[str(x) for x in r] for r in as_int(V)], "elements": [[str(x) for x in r] for r in as_int(E)],
            "split": [[str(x) for x in r] for r in as_int(U1 @ U2)], "kind": str(V.dtype.kind)}


def judge_intexact(inp, obs, lr):
    tags = {"what": "exact integer word", "dtype": inp["dtype"]}
    if "exc" in obs:
        return {"expected": "image of the word", "observed": obs, "tags": dict(tags, exc=obs["exc"])}
    for k in ("value", "elements", "split"):
        if obs[k] != obs["exact"]:
            return {"expected": {"exact product (largest entry has %d bits)" % obs["maxbits"]: obs["exact"]}, "observed": {k: obs[k], "dtype kind": obs["kind"]},
                    "tags": dict(tags, which=k, beyond_2_53=obs["maxbits"] > 53)}
    return None


CLAUSES = [
    Clause("words_corr", "corr", gen_words, run_words, judge_words, lean=lean_words, site="utils.words",
           budget={"quick": 200, "thorough": 6000},
           what="invert_gen, formal_inverse, simplify_word, commutator, fox_word_derivative, parse_word (both modes), generator-name guards vs the Lean model; words exhaustive to length 4 over {a,b,A,B}, random to length 60"),
    Clause("rep_corr", "corr", gen_rep, run_rep, judge_rep, lean=lean_rep, site="Representation.__setitem__/__getitem__/elements",
           budget={"quick": 150, "thorough": 4500},
           what="assign/re-assign histories (both letters, compute_inverse on/off, invalid names, wrong shapes, singular matrices) then rep[w], rep.elements, generators dict vs Lean Rep.setGenerator/wordValue over Q, Z and Q(i) (complex generators); GL(n) n=1..5, single- and multi-character names, words exhaustive to length 3 and random to length 60"),
    Clause("derived_corr", "corr", gen_derived, run_derived, judge_derived, lean=lean_derived, site="Representation._compose and friends",
           budget={"quick": 144, "thorough": 5400},
           what="copy, conjugate (with/without inv_mat), dual, astype, subgroup (list/dict/compute_inverse=False), tensor_product, symmetric_square, gln_adjoint, sln_adjoint: derived[w] vs Lean model"),
    Clause("fox_corr", "corr", gen_fox, run_fox, judge_fox, lean=lean_fox, site="Representation.differential/cocycle_matrix/coboundary_matrix",
           budget={"quick": 100, "thorough": 4500},
           what="differential (all blocks and single generator), cocycle_matrix, coboundary_matrix of random relators vs Lean model"),
    Clause("int_exact_oracle", "oracle", gen_intexact, run_intexact, judge_intexact, site="Representation.__getitem__ / elements (integer generators)",
           budget={"quick": 60, "thorough": 1500},
           what="all-integer generators (int64 arrays / arrays of Python ints), words without inverse letters grown until the largest entry of the exact product lies between 2^53 and 2^62: rep[w], elements([w]) and rep[u] @ rep[v] for a split w = uv equal the exact integer product entry by entry"),
    Clause("hom_oracle", "oracle", gen_hom, run_hom, judge_hom, site="Representation.__getitem__",
           budget={"quick": 400, "thorough": 15000},
           what="rho(uv)=rho(u)rho(v), rho('')=I, inverse letters, free reduction, formal inverse, elements(); float, complex and int64 generators"),
    Clause("derived_oracle", "oracle", gen_dor, run_dor, judge_dor, site="Representation derived constructors",
           budget={"quick": 360, "thorough": 12000},
           what="derived[w] = F(rep[w]) with F computed independently in numpy (kron, inverse transpose, Sym^2 from scratch, Ad action), incl. compose(hom), Projective/HyperbolicRepresentation"),
    Clause("isolation_oracle", "oracle", gen_iso, run_iso, judge_iso, site="Representation (object histories)",
           budget={"quick": 150, "thorough": 5000},
           what="two unrelated representations with the same generator names, interleaved histories of queries (rep[w] incl. one-letter words, elements, differential, coboundary), derived representations, new / re-assigned generators; every returned array is modified in place and the query repeated; after every step both objects are compared with fresh objects built from their current generators"),
    Clause("options_oracle", "oracle", gen_opts, run_opts, judge_opts, site="Representation keyword options",
           budget={"quick": 130, "thorough": 4000},
           what="every non-default keyword option of the Representation API against an independent formula: copy(generator_names, invert_gen, dtype), element(parse_simple), conjugate(inv_mat of another dtype, unwrap=False), compose(hom_in_wrapped, hom_out_wrapped, compute_inverses, dtype), subgroup(generator_names, relations, compute_inverse, dict), differential(generator=), differentials, cocycle_matrix(generator=), gln/sln_adjoint(dtype=), astype, elements(tuple/generator/iterator/ndarray/dict keys), set_generator(compute_inverse)"),
    Clause("fox_oracle", "oracle", gen_foxo, run_foxo, judge_foxo, site="Representation.differential",
           budget={"quick": 360, "thorough": 12000},
           what="Fox fundamental formula, D(w) @ coboundary = I - rho(w), cocycle @ coboundary = 0 for satisfied relations (commuting generators, torsion)"),
]
