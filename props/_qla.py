"""Exact rational linear algebra and rational isometry generators shared by C02 / C18."""
from fractions import Fraction as F
import math
import numpy as np
from vlib import q as Q


def eye(n):
    return [[F(int(i == j)) for j in range(n)] for i in range(n)]


def mul(A, B):
    return [[sum(A[i][k] * B[k][j] for k in range(len(B))) for j in range(len(B[0]))] for i in range(len(A))]


def tr(A):
    return [list(r) for r in zip(*A)]


def inv(M):
    n = len(M)
    A = [list(r) + [F(int(i == j)) for j in range(n)] for i, r in enumerate(M)]
    for c in range(n):
        p = next((r for r in range(c, n) if A[r][c] != 0), None)
        if p is None:
            raise ZeroDivisionError("singular")
        A[c], A[p] = A[p], A[c]
        pv = A[c][c]
        A[c] = [x / pv for x in A[c]]
        for r in range(n):
            if r != c and A[r][c] != 0:
                f = A[r][c]
                A[r] = [x - f * y for x, y in zip(A[r], A[c])]
    return [r[n:] for r in A]


def cayley(rng, n, den=3, sparse=0.0):
    """rational orthogonal matrix: Cayley transform (I-S)(I+S)^-1 of a random rational skew S."""
    S = [[F(0)] * n for _ in range(n)]
    for i in range(n):
        for j in range(i + 1, n):
            v = F(0) if rng.random() < sparse else F(rng.randint(-den, den), rng.randint(1, den))
            S[i][j], S[j][i] = v, -v
    I = eye(n)
    A = [[I[i][j] - S[i][j] for j in range(n)] for i in range(n)]
    B = [[I[i][j] + S[i][j] for j in range(n)] for i in range(n)]
    return mul(A, inv(B))


def rorth(rng, n, den=3):
    """rational element of O(n): Cayley matrix, sometimes times a coordinate reflection / permutation."""
    O = cayley(rng, n, den, sparse=0.3)
    if rng.random() < 0.4:
        k = rng.randrange(n)
        O[k] = [-x for x in O[k]]
    if n >= 2 and rng.random() < 0.3:
        i, j = rng.sample(range(n), 2)
        O[i], O[j] = O[j], O[i]
    return O


def mink(x, y):
    return -x[0] * y[0] + sum(a * b for a, b in zip(x[1:], y[1:]))


def minkJ(n1):
    return [[F(-1 if i == 0 else 1) if i == j else F(0) for j in range(n1)] for i in range(n1)]


def iso_residual(M):
    J = minkJ(len(M))
    R = mul(mul(M, J), tr(M))
    return max(abs(R[i][j] - J[i][j]) for i in range(len(M)) for j in range(len(M)))


def block2(A, n1):
    M = eye(n1)
    for i in range(2):
        for j in range(2):
            M[i][j] = A[i][j]
    return M


def elliptic_mat(O):
    n = len(O)
    M = [[F(0)] * (n + 1) for _ in range(n + 1)]
    M[0][0] = F(1)
    for i in range(n):
        for j in range(n):
            M[i + 1][j + 1] = O[i][j]
    return M


def ex_rotation(c, s, dim):
    """stored matrix of Isometry.standard_rotation: transpose of 1 (+) ([[c,-s],[s,c]] (+) I)"""
    return tr(elliptic_mat(block2([[c, -s], [s, c]], dim)))


def ex_loxodromic(u, dim):
    ch, sh = (u + 1 / u) / 2, (u - 1 / u) / 2
    return block2([[ch, sh], [sh, ch]], dim + 1)


def ex_reflection(d):
    q = mink(d, d)
    n1 = len(d)
    eps = [F(-1)] + [F(1)] * (n1 - 1)
    return [[F(int(i == j)) - 2 * eps[i] * d[i] * d[j] / q for j in range(n1)] for i in range(n1)]


def hyperboloid_from_poincare(p):
    """rational Poincare point -> rational unit timelike vector (1+a, 2p)/(1-a)"""
    a = sum(x * x for x in p)
    return [(1 + a) / (1 - a)] + [2 * x / (1 - a) for x in p]


def random_rational_isometry(rng, dim, nletters=2):
    """a rational element of O(dim,1) as a product of elliptics, loxodromics, reflections (row matrices)."""
    M = eye(dim + 1)
    for _ in range(nletters):
        k = rng.randrange(3)
        if k == 0:
            L = elliptic_mat(rorth(rng, dim))
        elif k == 1:
            u = F(rng.randint(1, 5), rng.randint(1, 5))
            L = ex_loxodromic(u, dim)
        else:
            L = ex_reflection(spacelike_vec(rng, dim))
        M = mul(M, L)
    return M


def spacelike_vec(rng, dim, num=4, den=3):
    while True:
        d = [F(rng.randint(-num, num), rng.randint(1, den)) for _ in range(dim + 1)]
        if mink(d, d) >= F(1, 4):
            return d


def fl(M):
    """nested Fractions -> float ndarray"""
    return np.array([[float(x) for x in r] for r in M]) if M and isinstance(M[0], (list, tuple)) else np.array([float(x) for x in M])


def encM(M):
    return [[Q.qs(x) for x in r] for r in M]


def encV(v):
    return [Q.qs(x) for x in v]


def fenc(a):
    """float ndarray (any rank) -> nested protocol strings, exactly"""
    return Q.enc(np.asarray(a, dtype=float))


def units(a, k):
    """view an array of shape (..., d1..dk) as a list of its unit blocks"""
    a = np.asarray(a)
    lead = int(np.prod(a.shape[:a.ndim - k])) if a.ndim > k else 1
    return a.reshape((lead,) + a.shape[a.ndim - k:])


# ---- exact helpers for C18 ---------------------------------------------------------------------
def bil(F_, x, y):
    n = len(x)
    return sum(x[i] * F_[i][j] * y[j] for i in range(n) for j in range(n))


def gs_exact(F_, rows):
    """unnormalised indefinite Gram-Schmidt exactly; returns (rows, norms) or None if a null row is hit"""
    out, norms = [], []
    for r in rows:
        r = list(r)
        for o, q in zip(out, norms):
            if q == 0:
                return None
            c = bil(F_, r, o) / q
            r = [a - c * b for a, b in zip(r, o)]
        out.append(r)
        norms.append(bil(F_, r, r))
    return out, norms


def rform(rng, p, q, squares=True, distinct=False):
    """rational symmetric form Q^T D Q of signature (p positive, q negative) with |D_ii| rational squares;
    returns (B, Q, D)"""
    n = p + q
    Qm = cayley(rng, n, 3, sparse=0.2)
    while True:
        vals = [F(rng.randint(1, 6), rng.randint(1, 3)) for _ in range(n)]
        if not distinct or len(set(vals)) == n:
            break
    D = [(v * v if squares else v) * (1 if i < p else -1) for i, v in enumerate(vals)]
    rng.shuffle(D)
    Dm = [[D[i] if i == j else F(0) for j in range(n)] for i in range(n)]
    B = mul(mul(tr(Qm), Dm), Qm)
    return B, Qm, D


def rank_mat(rng, m, n, rk, num=3, den=2):
    """rational m x n matrix of rank exactly rk (product of full-rank factors)"""
    while True:
        L_ = Q.rmat(rng, m, rk, num, den)
        R_ = Q.rmat(rng, rk, n, num, den)
        A = mul(L_, R_) if rk > 0 else [[F(0)] * n for _ in range(m)]
        if rk == 0 or exact_rank(A) == rk:
            return A


def exact_rank(M):
    M = [list(r) for r in M]
    rk, rows, cols = 0, len(M), len(M[0]) if M else 0
    for c in range(cols):
        p = next((r for r in range(rk, rows) if M[r][c] != 0), None)
        if p is None:
            continue
        M[rk], M[p] = M[p], M[rk]
        for r in range(rows):
            if r != rk and M[r][c] != 0:
                f = M[r][c] / M[rk][c]
                M[r] = [a - f * b for a, b in zip(M[r], M[rk])]
        rk += 1
    return rk
