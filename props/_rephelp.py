"""Shared generators / builders for C05 and C06: exact-rational generator matrices, random words,
representation specs (JSON) and their realisation as geometry_tools Representations."""
from fractions import Fraction as F
import numpy as np
from vlib import q as Q

import signal, functools


class ImplTimeout(Exception):
    pass


_TIMEOUTS = [0]


def limited(seconds=15):
    """run(inp) wrapper: a CPU-time limit per input, so that an implementation that blows up (e.g. a corrupted
    memo making results grow exponentially) is observed as an exception instead of hanging the check; after
    three such observations further inputs fail fast."""
    def deco(run):
        @functools.wraps(run)
        def wrapped(inp):
            if _TIMEOUTS[0] >= 3:
                raise ImplTimeout("implementation exceeded the CPU limit on three earlier inputs")
            def handler(sig, frm):
                raise ImplTimeout("implementation exceeded %d s CPU on one input" % seconds)
            old = signal.signal(signal.SIGVTALRM, handler)
            signal.setitimer(signal.ITIMER_VIRTUAL, seconds)
            try:
                return run(inp)
            except ImplTimeout:
                _TIMEOUTS[0] += 1
                raise
            finally:
                signal.setitimer(signal.ITIMER_VIRTUAL, 0)
                signal.signal(signal.SIGVTALRM, old)
        return wrapped
    return deco


ERR = {"KeyError": "KeyError", "ValueError": "ValueError", "LinAlgError": "LinAlgError", "IndexError": "IndexError"}


def exc_name(o):
    """observation {"exc": ...} -> model error enum (None if not an exception)"""
    if isinstance(o, dict) and "exc" in o:
        return ERR.get(o["exc"], o["exc"])
    return None


def guard(f):
    try:
        return f()
    except ImplTimeout:
        raise
    except Exception as e:  # the exception *is* the observation
        return {"exc": type(e).__name__, "msg": str(e)[:120]}


# ------------------------------------------------------------------ exact Gaussian rationals
class CF:
    """exact element of Q(i) (the Lean side runs the same model over GT.QI)"""
    __slots__ = ("re", "im")

    def __init__(self, re, im=0):
        self.re, self.im = F(re), F(im)

    @staticmethod
    def of(x):
        return x if isinstance(x, CF) else CF(x)

    def __add__(self, o):
        o = CF.of(o)
        return CF(self.re + o.re, self.im + o.im)
    __radd__ = __add__

    def __neg__(self):
        return CF(-self.re, -self.im)

    def __sub__(self, o):
        return self + (-CF.of(o))

    def __rsub__(self, o):
        return CF.of(o) - self

    def __mul__(self, o):
        o = CF.of(o)
        return CF(self.re * o.re - self.im * o.im, self.re * o.im + self.im * o.re)
    __rmul__ = __mul__

    def __truediv__(self, o):
        o = CF.of(o)
        d = o.re * o.re + o.im * o.im
        return self * CF(o.re / d, -o.im / d)

    def __rtruediv__(self, o):
        return CF.of(o) / self

    def __eq__(self, o):
        o = CF.of(o)
        return self.re == o.re and self.im == o.im

    def __ne__(self, o):
        return not self == o

    def __hash__(self):
        return hash((self.re, self.im))

    def __complex__(self):
        return complex(float(self.re), float(self.im))

    def __repr__(self):
        return "CF(%s,%s)" % (self.re, self.im)


# ------------------------------------------------------------------ exact matrices
def fmul(A, B):
    return [[sum(A[i][k] * B[k][j] for k in range(len(B))) for j in range(len(B[0]))] for i in range(len(A))]


def fident(n):
    return [[F(int(i == j)) for j in range(n)] for i in range(n)]


def finv(M):
    n = len(M)
    A = [list(r) + [F(int(i == j)) for j in range(n)] for i, r in enumerate(M)]
    for c in range(n):
        p = next((r for r in range(c, n) if A[r][c] != 0), None)
        if p is None:
            raise ZeroDivisionError("singular")
        A[c], A[p] = A[p], A[c]
        d = A[c][c]
        A[c] = [x / d for x in A[c]]
        for r in range(n):
            if r != c and A[r][c] != 0:
                f = A[r][c]
                A[r] = [x - f * y for x, y in zip(A[r], A[c])]
    return [r[n:] for r in A]


def ftrans(M):
    return [list(r) for r in zip(*M)]


def unimodular(rng, n, k=None, tmax=2):
    M = fident(n)
    if n == 1:
        return [[F(rng.choice([1, -1]))]]
    for _ in range(k if k is not None else rng.randint(1, n + 1)):
        i, j = rng.sample(range(n), 2)
        t = rng.choice([x for x in range(-tmax, tmax + 1) if x])
        E = fident(n)
        E[i][j] = F(t)
        M = fmul(M, E)
    if rng.random() < 0.3:
        i = rng.randrange(n)
        M[i] = [-x for x in M[i]]
    return M


def cayley(rng, n, den=3):
    if n == 1:
        return [[F(rng.choice([1, -1]))]]
    S = [[F(0)] * n for _ in range(n)]
    for i in range(n):
        for j in range(i + 1, n):
            v = F(rng.randint(-den, den), rng.randint(1, den))
            S[i][j], S[j][i] = v, -v
    I = fident(n)
    A = [[I[i][j] - S[i][j] for j in range(n)] for i in range(n)]
    B = [[I[i][j] + S[i][j] for j in range(n)] for i in range(n)]
    return fmul(A, finv(B))


def gen_matrix(rng, n, ring="Q", kind=None):
    """random element of GL(n, Q) (or GL(n, Z)) whose float64 image is exact or nearly so"""
    if ring == "Z":
        return unimodular(rng, n)
    if ring == "C":
        # (real invertible) * (complex unipotent) * (Gaussian unit scalar): invertible, genuinely complex
        G = gen_matrix(rng, n, "Q", kind)
        U = [[CF(int(i == j)) for j in range(n)] for i in range(n)]
        for i in range(n):
            for j in range(i + 1, n):
                U[i][j] = CF(0, F(rng.randint(-2, 2), rng.randint(1, 2)))
        z = rng.choice([CF(1), CF(0, 1), CF(F(3, 5), F(4, 5)), CF(F(-5, 13), F(12, 13)), CF(0, -1)])
        return [[z * x for x in r] for r in fmul(G, U)]
    kind = kind or rng.choice(["uni", "orth", "dyadic", "diag", "rat"])
    if kind == "uni":
        return unimodular(rng, n)
    if kind == "orth":
        return cayley(rng, n)
    if kind == "diag":
        M = fident(n)
        for i in range(n):
            M[i][i] = F(rng.choice([1, -1])) * F(2) ** rng.randint(-1, 1)
        if n > 1 and rng.random() < 0.5:   # conjugate by a permutation-ish unimodular to leave the diagonal
            P = unimodular(rng, n, 2, 1)
            M = fmul(fmul(P, M), finv(P))
        return M
    if kind == "dyadic":
        while True:
            M = [[F(rng.randint(-4, 4), 2) for _ in range(n)] for _ in range(n)]
            if abs(Q.det(M)) >= F(1, 2):
                return M
    return Q.rinv(rng, n, 3, 3, F(1, 3))


def enc1(x):
    return Q.qs(x.re) + "|" + Q.qs(x.im) if isinstance(x, CF) else Q.qs(x)


def dec1(x):
    return CF(*map(F, x.split("|"))) if "|" in x else F(x)


def enc(M):
    return [[enc1(x) for x in r] for r in M]


def dec(M):
    return [[dec1(x) for x in r] for r in M]


def tonp(M, ring="Q", cplx=False):
    if ring == "Z":
        return np.array([[int(F(x)) for x in r] for r in M], dtype=np.int64)
    if ring == "C":
        return np.array([[complex(CF.of(dec1(x))) for x in r] for r in M], dtype=complex)
    a = np.array([[float(F(x)) for x in r] for r in M], dtype=float)
    return a.astype(complex) if cplx else a


def decm(a):
    """driver output (nested lists of "p/q" or "re|im") -> numpy array"""
    def go(x):
        if isinstance(x, list):
            return [go(y) for y in x]
        if "|" in x:
            re, im = x.split("|")
            return complex(float(F(re)), float(F(im)))
        return float(F(x))
    out = go(a)
    return np.array(out, dtype=complex if np.iscomplexobj(np.array(out)) else float)


def asl(x, ring="Q"):
    """implementation array -> nested list (complex kept for ring C)"""
    return np.asarray(x, dtype=complex if ring == "C" else float).tolist()


# ------------------------------------------------------------------ names and words
SIMPLE_POOLS = ["abcd", "ab", "a", "xyz", "pqrs", "ba", "AbcD"]
MULTI_POOLS = [["a1", "b1"], ["x", "yy", "zzz"], ["gen", "h"], ["a", "ab", "b"], ["s1", "s2", "s3", "s4"], ["G", "h2"]]


def swapcase(g):
    return g.upper() if g.lower() == g else g.lower()


def rand_names(rng, simple, k=None):
    pool = list(rng.choice(SIMPLE_POOLS if simple else MULTI_POOLS))
    k = k or rng.randint(1, len(pool))
    return pool[:k]


def letters_of(names):
    out = []
    for g in names:
        for x in (g, swapcase(g)):
            if x not in out:
                out.append(x)
    return out


def join_word(letters, simple, rng=None):
    if simple:
        return "".join(letters)
    s = "*".join(letters)
    if rng is not None and letters and rng.random() < 0.15:   # parentheses / doubled separators are separators too
        k = rng.randrange(len(letters))
        s = "*".join(letters[:k]) + ("*" if k else "") + "(" + "*".join(letters[k:]) + ")"
    return s


def rand_letters(rng, alphabet, length, reduced=False):
    w = []
    while len(w) < length:
        x = rng.choice(alphabet)
        if reduced and w and x == swapcase(w[-1]):
            continue
        w.append(x)
    return w


def all_words(alphabet, maxlen):
    out = [[]]
    frontier = [[]]
    for _ in range(maxlen):
        frontier = [w + [x] for w in frontier for x in alphabet]
        out += frontier
    return out


# ------------------------------------------------------------------ representation specs
def int_matrix(rng, n, maxabs=3):
    """integer matrix with non-zero determinant, in general not unimodular (e.g. [[2]])"""
    while True:
        M = [[F(rng.randint(-maxabs, maxabs)) for _ in range(n)] for _ in range(n)]
        d = Q.det(M)
        if d != 0 and (n > 2 or abs(d) != 1 or rng.random() < 0.3):
            return M


def mix_dtypes(rng, spec):
    """give the assignments different numpy dtypes (the model runs over the common exact ring): integer matrices of
    arbitrary non-zero determinant as int64 / int32 next to float64 ones (ring Q), real ones next to complex ones (ring C)"""
    n, ring = spec["n"], spec["ring"]
    if ring == "Q":
        for h in spec["hist"]:
            if rng.random() < 0.5:
                h["m"] = enc(int_matrix(rng, n))
                h["dt"] = rng.choice(["int64", "int32"])
            else:
                h["dt"] = "float64"
    elif ring == "C":
        for h in spec["hist"]:
            if rng.random() < 0.5:
                if rng.random() < 0.5:
                    h["m"], h["dt"] = enc(int_matrix(rng, n)), rng.choice(["int64", "float64"])
                else:
                    h["m"], h["dt"] = enc(gen_matrix(rng, n, "Q")), "float64"
            else:
                h["dt"] = "complex128"
    elif ring == "Z":
        for h in spec["hist"]:
            h["dt"] = rng.choice(["int64", "int64", "int32"])
    return spec


def rand_spec(rng, ring=None, simple=None, n=None, names=None, reassign=True, kind=None, dtmix=None):
    ring = ring or rng.choice(["Q", "Q", "Q", "Z", "C"])
    simple = rng.random() < 0.7 if simple is None else simple
    n = n or rng.choice([1, 2, 2, 3, 3, 4, 5])
    names = names or rand_names(rng, simple)
    # generators are assigned in random order, sometimes through their upper-case (inverse) name
    hist = [{"g": g, "m": enc(gen_matrix(rng, n, ring, kind)), "inv": True} for g in names]
    if reassign and rng.random() < 0.4:
        for _ in range(rng.randint(1, 3)):
            g = rng.choice(names)
            g = swapcase(g) if rng.random() < 0.4 else g        # assigning to the inverse letter re-assigns both
            hist.append({"g": g, "m": enc(gen_matrix(rng, n, ring, kind)), "inv": True})
    # exact special values: the identity, a generator equal to (the inverse of) another one
    if rng.random() < 0.15 and hist:
        h = rng.choice(hist)
        r = rng.random()
        one = CF(1) if ring == "C" else F(1)
        if r < 0.4 or len(hist) == 1:
            h["m"] = enc([[one * int(i == j) for j in range(n)] for i in range(n)])
        else:
            o = rng.choice([x for x in hist if x is not h])
            M = dec(o["m"])
            h["m"] = enc(finv(M) if r < 0.8 else M)
    rng.shuffle(hist)
    spec = {"ring": ring, "n": n, "simple": simple, "hist": hist, "relations": [],
            "rel_mode": rng.choice(["ctor", "append", "append"])}
    if dtmix if dtmix is not None else rng.random() < 0.4:
        mix_dtypes(rng, spec)
    return spec


DTYPES = {"int64": np.int64, "int32": np.int32, "float64": np.float64, "complex128": np.complex128}


def tonp_h(h, ring, cplx=False):
    """the numpy matrix of one assignment, in the dtype the history prescribes"""
    if "dt" not in h:
        return tonp(h["m"], ring, cplx)
    dt = h["dt"]
    if dt in ("int64", "int32"):
        return np.array([[int(CF.of(dec1(x)).re) for x in r] for r in h["m"]], dtype=DTYPES[dt])
    a = np.array([[complex(CF.of(dec1(x))) for x in r] for r in h["m"]], dtype=complex)
    return a if dt == "complex128" or cplx else a.real.astype(np.float64)


def build_rep(spec, cls=None, cplx=False):
    """the representation of a spec.  Relators are given to the constructor or appended afterwards
    (`rep.relations.append`), and a representation without relators is built without the keyword: the harness
    creates many representations per process, so state shared between objects shows up."""
    from geometry_tools import representation as R
    cls = cls or R.Representation
    rels = list(spec.get("relations", []))
    mode = spec.get("rel_mode", "ctor")
    if rels and mode == "ctor":
        rep = cls(parse_simple=spec["simple"], relations=rels)
    else:
        rep = cls(parse_simple=spec["simple"])
    for h in spec["hist"]:
        M = tonp_h(h, spec["ring"], cplx)
        if h.get("inv", True):
            rep[h["g"]] = M
        else:
            rep.set_generator(h["g"], M, compute_inverse=False)
    if rels and mode != "ctor":
        for r in rels:
            rep.relations.append(r)
    return rep


def no_int32(spec):
    for h in spec["hist"]:
        if h.get("dt") == "int32":
            h["dt"] = "int64"
    return spec


def has_int(spec):
    return spec["ring"] == "Z" or any(h.get("dt") in ("int32", "int64") for h in spec["hist"])


def cap_len(spec, k):
    """word-length cap that keeps exact integer products inside the integer dtype (numpy wraps silently on overflow)"""
    dts = {h.get("dt") for h in spec["hist"]}
    if "int32" in dts:
        return min(k, 6)
    if "int64" in dts or spec["ring"] == "Z":
        return min(k, 12)
    return k


def spec_names(spec):
    """keys of rep.generators in insertion order"""
    keys = []
    for h in spec["hist"]:
        for x in ([h["g"], swapcase(h["g"])] if h.get("inv", True) else [h["g"]]):
            if x not in keys:
                keys.append(x)
    return keys


def lean_spec(spec):
    return {"ring": spec["ring"], "n": spec["n"], "simple": spec["simple"], "hist": spec["hist"],
            "relations": spec.get("relations", [])}


def norm_bound(rep, letters):
    """product of the spectral norms of the letters: float error of the product is ~ len * n * eps * this"""
    cache = rep.__dict__.setdefault("_verif_norms", {})
    b = 1.0
    for x in letters:
        if x not in cache:
            try:
                cache[x] = max(1.0, float(np.linalg.norm(np.asarray(rep.generators[x], dtype=complex), 2)))
            except ImplTimeout:
                raise
            except Exception:
                cache[x] = None
        if cache[x] is None:
            return 1.0
        b *= cache[x]
    return b


def mclose(impl, model, bound=1.0, tol=1e-9):
    a = np.asarray(impl)
    b = np.asarray(model)
    if a.shape != b.shape:
        return False
    if a.size == 0:
        return True
    a = a.astype(complex)
    b = b.astype(complex)
    if not (np.all(np.isfinite(a)) and np.all(np.isfinite(b))):
        return False
    return bool(np.max(np.abs(a - b)) <= tol * (1.0 + bound))
