"""Object builders and per-unit oracles shared by C03 / C04 / C11 (DESIGN §4).

Inputs of every clause are small JSON specs (kind, composite shape, dimension, numpy seed …) drawn from the
runner's PRNG; `run` rebuilds the objects deterministically from the spec, so a replay file reproduces the case."""
import itertools, math, copy
import numpy as np
from vlib.runner import Clause
from geometry_tools import hyperbolic as H, projective as P, utils, lie

KINDS = ["point", "pair", "segment", "geodesic", "polygon", "simplex", "tangent", "horosphere", "hyperplane",
         "subspace", "transformation"]
CX_KINDS = ["point", "pair", "polygon", "simplex", "subspace", "transformation"]     # projective classes, complex data
AUX_KINDS = ["segment", "polygon", "tangent"]
SHAPES = [[], [1], [2], [3], [1, 2], [2, 1], [2, 3], [3, 2], [1, 1, 2], [2, 1, 3], [2, 2, 2]]
MODELS = ["projective", "klein", "poincare", "hyperboloid", "halfspace"]


def G(seed):
    return np.random.default_rng(int(seed))


def klein(g, shape, n, r=0.8, rmin=0.05):
    k = g.normal(size=tuple(shape) + (n,))
    k = k / np.linalg.norm(k, axis=-1, keepdims=True) * g.uniform(rmin, r, tuple(shape) + (1,))
    return k


def ideal(g, shape, n, exact=0.3):
    """ideal points (Klein coordinates on the unit sphere); a fraction of them EXACTLY on the sphere in floating point (+-e_i), so that
    (1, k) is an exactly null vector: the measure-zero branch of normalize and friends is explored on every run"""
    a = g.normal(size=tuple(shape) + (n,))
    a = a / np.linalg.norm(a, axis=-1, keepdims=True)
    flat = a.reshape(-1, n)
    for r in range(flat.shape[0]):
        if g.random() < exact:
            e = np.zeros(n)
            e[int(g.integers(0, n))] = float(g.choice([-1.0, 1.0]))
            if e[0] == 1.0:
                e[0] = -1.0          # (+e_1 is the point at infinity of the half-space chart: every half-space query is singular there)
            flat[r] = e
    return flat.reshape(tuple(shape) + (n,))


def same_val(a, b, tol=1e-8):
    """equal up to tol where finite, and non-finite (inf of the same sign / nan) at exactly the same places"""
    a, b = np.asarray(a, dtype=float), np.asarray(b, dtype=float)
    if a.shape != b.shape:
        return False
    fa, fb = np.isfinite(a), np.isfinite(b)
    if not np.array_equal(fa, fb):
        return False
    if not np.array_equal(np.isnan(a), np.isnan(b)):
        return False
    if np.any(~fa) and not np.array_equal(np.sign(a[~fa & ~np.isnan(a)]), np.sign(b[~fb & ~np.isnan(b)])):
        return False
    return bool(np.all(np.abs(a[fa] - b[fa]) <= tol * (1 + np.abs(b[fa]))))


def orth(g, n):
    q, r = np.linalg.qr(g.normal(size=(n, n)))
    return q * np.sign(np.diag(r))


def isometries(g, shape, n):
    """composite Isometry of the given shape: (isometry taking the origin to a random point) after a random rotation"""
    T = H.Point(klein(g, shape, n, 0.6), model="klein").origin_to()
    R = H.Isometry.elliptic(n, orth(g, n))
    return H.Isometry(utils.matrix_product(R.proj_data, T.proj_data))


def invertibles(g, shape, n, cx=False):
    """composite projective Transformation with condition number <= ~20 per unit"""
    def one():
        while True:
            M = g.normal(size=(n + 1, n + 1))
            if cx:
                M = M + 1j * g.normal(size=(n + 1, n + 1))
            if np.linalg.cond(M) < 20:
                return M
    cnt = int(np.prod(shape)) if len(shape) else 1
    A = np.array([one() for _ in range(cnt)]).reshape(tuple(shape) + (n + 1, n + 1))
    return P.Transformation(A)


def transformations(g, shape, n, kind, cx=False, mixed=0.0, top=8.0):
    if cx or kind in ("simplex",):
        return invertibles(g, shape, n, cx)
    if mixed and g.random() < mixed:
        return mixed_isometries(g, tuple(shape), n, top)[0]      # G16 / G12: members of different kinds and magnitudes in one composite
    return isometries(g, shape, n)


SCALABLE = ("point", "pair", "segment", "geodesic", "polygon", "tangent", "subspace", "horosphere")


def mk(kind, g, shape, n, cx=False, scale=None):
    """an object of the class; `scale` (probability): every unit gets its own homogeneous factor between 1e-12 and 1e12"""
    X = _mk(kind, g, shape, n, cx)
    if scale and not cx and kind in SCALABLE and g.random() < scale:
        f = unit_scale(g, tuple(shape)).reshape(tuple(shape) + (1,) * X.unit_ndims)
        if g.random() < 0.5:
            f = -f
        X = type(X)(np.array(X.proj_data) * f)
    return X


def _mk(kind, g, shape, n, cx=False):
    shape = tuple(shape)
    if cx:
        def cdat(extra):
            return g.normal(size=shape + extra) + 1j * g.normal(size=shape + extra)
        if kind == "point":
            return P.Point(cdat((n + 1,)))
        if kind == "pair":
            return P.PointPair(cdat((2, n + 1)))
        if kind == "polygon":
            return P.Polygon(cdat((4, n + 1)))
        if kind == "simplex":
            return P.Simplex(cdat((n + 1, n + 1)))
        if kind == "subspace":
            return P.Subspace(cdat((2, n + 1)))
        if kind == "transformation":
            return invertibles(g, shape, n, True)
        raise ValueError(kind)
    if kind == "point":
        return H.Point(klein(g, shape, n), model="klein")
    if kind == "pair":
        return H.PointPair(H.Point(klein(g, shape, n), model="klein"), H.Point(klein(g, shape, n), model="klein"))
    if kind == "segment":
        while True:
            a, b = klein(g, shape, n), klein(g, shape, n)
            if np.min(np.linalg.norm(a - b, axis=-1)) > 0.1:
                return H.Segment(H.Point(a, model="klein"), H.Point(b, model="klein"))
    if kind == "geodesic":
        while True:
            a, b = ideal(g, shape, n), ideal(g, shape, n)
            if np.min(np.linalg.norm(a - b, axis=-1)) > 0.3:
                return H.Geodesic(H.Point(a, model="klein"), H.Point(b, model="klein"))
    if kind == "polygon":
        return H.Polygon(H.Point(klein(g, shape + (4,), n), model="klein"))
    if kind == "simplex":
        return P.Simplex(H.Point(klein(g, shape + (n + 1,), n), model="klein").proj_data)
    if kind == "tangent":
        return H.TangentVector(H.Point(klein(g, shape, n), model="klein"), g.normal(size=shape + (n + 1,)))
    if kind == "horosphere":
        return H.Horosphere(H.IdealPoint(H.Point(ideal(g, shape, n), model="klein")), H.Point(klein(g, shape, n), model="klein"))
    if kind == "hyperplane":
        cnt = int(np.prod(shape)) if len(shape) else 1
        units = []
        for _ in range(cnt):
            v = g.normal(size=(n + 1,))
            v[0] = 0.5 * np.linalg.norm(v[1:]) * g.uniform(-1, 1)      # spacelike normal
            units.append(H.Hyperplane(v))
        if shape == ():
            return units[0]
        return H.Hyperplane(units).reshape(shape)
    if kind == "subspace":
        while True:
            a, b = ideal(g, shape, n), ideal(g, shape, n)
            if np.min(np.linalg.norm(a - b, axis=-1)) > 0.3:
                return H.Subspace(np.stack([H.Point(a, model="klein").proj_data, H.Point(b, model="klein").proj_data], axis=-2))
    if kind == "transformation":
        return isometries(g, shape, n)
    raise ValueError(kind)


# ------------------------------------------------------------------ comparisons
def rows_proj_eq(a, b, tol=1e-7):
    """each row (last axis) of a equals the corresponding row of b up to a non-zero scalar"""
    a, b = np.asarray(a), np.asarray(b)
    if a.shape != b.shape:
        return False
    if not (np.all(np.isfinite(a)) and np.all(np.isfinite(b))):
        return False
    a2 = a.reshape(-1, a.shape[-1])
    b2 = b.reshape(-1, b.shape[-1])
    for x, y in zip(a2, b2):
        i = int(np.argmax(np.abs(x)))
        if abs(x[i]) < 1e-300:
            if np.abs(y).max() > tol:
                return False
            continue
        if abs(y[i]) < 1e-300:
            return False
        if np.abs(x / x[i] - y / y[i]).max() > tol * (1 + np.abs(x / x[i]).max()):
            return False
    return True


def mats_proj_eq(a, b, tol=1e-7):
    """each matrix (last two axes) equal up to one non-zero scalar"""
    a, b = np.asarray(a), np.asarray(b)
    if a.shape != b.shape:
        return False
    return rows_proj_eq(a.reshape(a.shape[:-2] + (-1,)), b.reshape(b.shape[:-2] + (-1,)), tol)


def data_proj_eq(kind, a, b, tol=1e-7):
    """projective equality of primary/derived data of an object kind: transformations and subspace-like bases are compared
    the way the object is used (rows = points for everything except transformations, which are one projective matrix)"""
    if a is None or b is None:
        return a is None and b is None
    if kind == "transformation":
        return mats_proj_eq(a, b, tol)
    return rows_proj_eq(a, b, tol)


def aux_proj_eq(kind, a, b, tol=1e-6):
    """derived data, projectively; a segment's two ideal endpoints are an unordered pair"""
    if a is None or b is None:
        return a is None and b is None
    if rows_proj_eq(a, b, tol):
        return True
    a, b = np.asarray(a), np.asarray(b)
    if kind == "segment" and a.shape == b.shape and a.ndim >= 2:
        # unit by unit, in either order
        for idx in np.ndindex(*a.shape[:-2]):
            if not (rows_proj_eq(a[idx], b[idx], tol) or rows_proj_eq(a[idx], b[idx][::-1], tol)):
                return False
        return True
    return False


def allclose(a, b, tol=1e-8):
    a, b = np.asarray(a), np.asarray(b)
    if a.shape != b.shape:
        return False
    if not (np.all(np.isfinite(a)) and np.all(np.isfinite(b))):
        return False
    return bool(np.all(np.abs(a - b) <= tol * (1 + np.abs(b))))


def unit_of(obj, idx):
    """fresh unit object at composite index idx (copy of the data: queries normalise in place)"""
    return type(obj)(np.array(obj.proj_data[tuple(idx)]))


def fresh(obj):
    return type(obj)(np.array(obj.proj_data))


def judge_bad(inp, obs, lr):
    if "exc" in obs:
        return {"expected": "operation to succeed on a valid composite object", "observed": obs,
                "tags": {"exc": obs["exc"], "op": inp.get("op"), "kind": inp.get("kind")}}
    if obs.get("bad"):
        b = obs["bad"][0]
        return {"expected": b.get("expected", "composite result = per-unit loop"), "observed": b,
                "tags": {"op": inp.get("op"), "kind": inp.get("kind"), "what": b.get("what")}}
    return None


# ------------------------------------------------------------------ generic defences (G1-G4): fresh-object differential, output isolation
def unit_scale(g, shape, lo=-40, hi=40):
    """one homogeneous factor per unit, 2**k with 1e-12 <~ 2**k <~ 1e12 (powers of two keep exactly null rows exactly null)"""
    return np.ldexp(1.0, g.integers(lo, hi + 1, size=tuple(shape))).astype(float)


def query_set(kind, obj, n):
    """read-only queries of an object as (name, thunk, comparison); thunks return an array or a tuple of arrays.
    comparison: 'val' (numerically equal), 'proj' (rows equal as projective points), 'pos' (rows equal up to positive scalars)"""
    qs = []
    hyp = isinstance(obj, H.HyperbolicObject)
    if kind == "point" and hyp:
        qs += [("coords:" + m, (lambda m=m: obj.coords(m)), "val" if m not in ("projective", "hyperboloid") else "proj") for m in MODELS]
    elif kind == "pair" and hyp:
        qs += [("endpoint_coords", lambda: obj.endpoint_coords("klein"), "val"), ("get_endpoints", lambda: obj.get_endpoints().proj_data, "proj")]
    elif kind == "segment":
        qs += [("ideal_endpoint_coords", lambda: np.concatenate([np.ones(np.asarray(obj.ideal_endpoint_coords("klein")).shape[:-1] + (1,)), obj.ideal_endpoint_coords("klein")], -1), "pairs"), ("endpoint_coords", lambda: obj.endpoint_coords("klein"), "val"),
               ("geodesic", lambda: obj.geodesic().proj_data, "pairs"), ("ideal_basis", lambda: obj.ideal_basis, "pairs")]
        if n == 2:
            qs.append(("circle_parameters", lambda: obj.circle_parameters(model="poincare"), "circle"))
    elif kind == "geodesic":
        qs += [("ideal_basis_coords", lambda: obj.ideal_basis_coords("klein"), "val")]
        if n == 2:
            qs.append(("circle_parameters", lambda: obj.circle_parameters(model="poincare"), "circle"))
    elif kind == "polygon" and hyp:
        qs += [("get_edges", lambda: obj.get_edges().proj_data, "proj"), ("get_vertices", lambda: obj.get_vertices().proj_data, "proj"),
               ("edges_ideal", lambda: obj.get_edges().ideal_endpoint_coords("projective"), "pairs"), ("edges_shape", lambda: np.array(obj.get_edges().shape), "val")]
        if n == 2:
            qs.append(("edge_circles", lambda: obj.get_edges().circle_parameters(model="poincare"), "circle"))
    elif kind in ("polygon", "ppolygon"):
        qs += [("get_edges", lambda: obj.get_edges().proj_data, "proj"), ("get_vertices", lambda: obj.get_vertices().proj_data, "proj")]
    elif kind == "tangent":
        def origin_contract():
            # origin_to is "not uniquely determined": what is specified is where the origin tangent goes (first two rows, as a point and as a
            # direction) and that the matrix preserves the form
            M = np.asarray(obj.origin_to().matrix, dtype=float)
            J = np.diag([-1.0] + [1.0] * (M.shape[-1] - 1))
            return (M[..., 0, :], M[..., 1, :], np.einsum("...ij,jk,...lk->...il", M, J, M) - J)
        qs += [("vector", lambda: np.array(obj.vector), "pos"), ("point", lambda: np.array(obj.point), "proj"),
               ("normalized", lambda: obj.normalized().aux_data, "tangent"), ("origin_to", origin_contract, "iso"),
               ("point_along", lambda: obj.point_along(0.5).proj_data, "proj"), ("vector_again", lambda: np.array(obj.vector), "pos")]
    elif kind == "horosphere":
        qs += [("sphere_parameters", lambda: obj.sphere_parameters(model="poincare"), "val"), ("center_coords", lambda: obj.center_coords("klein"), "val")]
    elif kind == "subspace" and hyp:
        qs += [("ideal_basis_coords", lambda: obj.ideal_basis_coords("klein"), "val"), ("sphere_parameters", lambda: obj.sphere_parameters(model="poincare"), "val")]
    elif kind == "hyperplane":
        qs += [("spacelike_vector", lambda: np.array(obj.spacelike_vector), "proj")]        # (the ideal basis is any basis of the hyperplane)
    elif kind == "transformation":
        qs += [("inv", lambda: obj.inv().matrix, "mat")]
        if isinstance(obj, H.Isometry) and n == 2:
            qs += [("fixed_point_pair", lambda: obj.fixed_point_pair().proj_data, "proj"), ("fixed_point", lambda: obj.fixed_point().proj_data, "proj"),
                   ("axis", lambda: obj.axis().proj_data, "proj")]
    elif kind == "simplex":
        qs += [("skeleton", lambda: obj.skeleton(2).proj_data, "proj"), ("vertices", lambda: obj.vertices().proj_data, "proj")]
    return qs


def _run_q(f):
    with np.errstate(all="ignore"):
        try:
            r = f()
        except Exception as e:
            return ("exc", type(e).__name__)
    return r if isinstance(r, tuple) else (r,)


def _cmp_q(a, b, how, tol):
    ea = len(a) == 2 and isinstance(a[0], str) and a[0] == "exc"
    eb = len(b) == 2 and isinstance(b[0], str) and b[0] == "exc"
    if ea or eb:
        return ea and eb and a[1] == b[1]
    if len(a) != len(b):
        return False
    for pos, (x, y) in enumerate(zip(a, b)):
        x, y = np.asarray(x), np.asarray(y)
        if x.shape != y.shape:
            return False
        if x.size == 0:
            continue
        if how == "circle":
            # a geodesic through the origin is a "circle" of infinite radius: centre, radius and angles are then meaningless on both sides
            ra, rb = np.real(np.asarray(a[1], dtype=complex)), np.real(np.asarray(b[1], dtype=complex))
            deg = ~np.isfinite(ra) | ~np.isfinite(rb) | (np.abs(ra) > 1e6) | (np.abs(rb) > 1e6)
            if np.any(deg):
                keep = ~deg
                x = x[keep] if x.shape[:keep.ndim] == keep.shape else x
                y = y[keep] if y.shape[:keep.ndim] == keep.shape else y
                if x.size == 0:
                    continue
            if pos == 2:            # angles in degrees: equal modulo a full turn
                xr, yr = np.deg2rad(np.real(x)), np.deg2rad(np.real(y))
                ux, uy = np.stack([np.cos(xr), np.sin(xr)], -1), np.stack([np.cos(yr), np.sin(yr)], -1)
                if ux.ndim >= 2 and ux.shape[-2] == 2:
                    # the two end angles of each arc, as a pair (which one comes first is decided by a comparison that ties for half circles)
                    ux2, uy2 = ux.reshape(-1, 2, 2), uy.reshape(-1, 2, 2)
                    for p_, q_ in zip(ux2, uy2):
                        if not (same_val(p_, q_, 1e-6) or same_val(p_, q_[::-1], 1e-6)):
                            return False
                elif not same_val(ux, uy, 1e-6):
                    return False
            elif not same_val(np.real(x), np.real(y), tol):
                return False
            continue
        if how == "iso":
            if pos == 0:
                ok = rows_proj_eq(x, y, tol)
            elif pos == 1:
                from props._hist import rows_pos_eq
                ok = rows_pos_eq(x, y, tol)
            else:
                ok = same_val(x, y, 1e-6)
            if not ok:
                return False
            continue
        if how == "mat":
            if not mats_proj_eq(x, y, tol):
                return False
            continue
        if how == "tangent" and x.ndim >= 2 and x.shape[-2] == 2 and np.all(np.isfinite(x)) and np.all(np.isfinite(y)):
            from props._hist import rows_pos_eq
            if not (rows_proj_eq(x[..., 0, :], y[..., 0, :], tol) and rows_pos_eq(x[..., 1, :], y[..., 1, :], tol)):
                return False
            continue
        if how == "pairs" and x.ndim >= 2 and np.all(np.isfinite(x)) and np.all(np.isfinite(y)):
            # an unordered pair of points per unit (ideal endpoints), each up to scale
            for idx in np.ndindex(*x.shape[:-2]):
                if not (rows_proj_eq(x[idx], y[idx], tol) or rows_proj_eq(x[idx], y[idx][::-1], tol)):
                    return False
            continue
        if how in ("val", "pairs", "tangent") or x.ndim == 0:
            ok = same_val(np.real(x), np.real(y), tol) and same_val(np.imag(x), np.imag(y), tol)
        elif not (np.all(np.isfinite(x)) and np.all(np.isfinite(y))):
            ok = same_val(np.real(x), np.real(y), tol)
        elif how == "proj":
            ok = rows_proj_eq(x, y, tol)
        else:
            from props._hist import rows_pos_eq
            ok = rows_pos_eq(x, y, tol)
        if not ok:
            return False
    return True


def fresh_diff(kind, obj, n, tol=1e-6, mutate=False):
    """G1: every query on an object with a history equals the same query on a FRESH object built from its current primary data.
    G2 (mutate=True): the arrays/objects a query hands out are then overwritten in place and the queries are run again.
    returns None or the name of the first query that differs"""
    if np.iscomplexobj(obj.proj_data) and isinstance(obj, H.HyperbolicObject):
        return None
    for rnd in range(2 if mutate else 1):
        with np.errstate(all="ignore"):
            fr = type(obj)(np.array(obj.proj_data))
        handed = []
        for (name, f, how), (_, f2, _) in zip(query_set(kind, obj, n), query_set(kind, fr, n)):
            a, b = _run_q(f), _run_q(f2)
            if not _cmp_q(a, b, how, tol):
                return name + (" (after overwriting the arrays returned by earlier queries)" if rnd else "")
            handed += [x for x in a if isinstance(x, np.ndarray)]
        if mutate and rnd == 0:
            own = [obj.proj_data] + ([obj.aux_data] if obj.aux_data is not None else [])
            for x in handed:
                if x.flags.writeable and not any(x is o or (x.base is not None and np.shares_memory(x, o)) for o in own):
                    try:
                        x[...] = 0
                    except Exception:
                        pass
            for acc in ("get_edges", "get_vertices", "get_endpoints"):
                if hasattr(obj, acc):
                    try:
                        d = getattr(obj, acc)()
                        if not any(np.shares_memory(d.proj_data, o) for o in own):
                            d.proj_data[...] = 0
                    except Exception:
                        pass
    return None


def ref_segment_ideal(proj):
    """the two null points on the line through the endpoints of each unit, by the cancellation-free homogeneous quadratic (independent of the library)"""
    proj = np.asarray(np.real(proj), dtype=float)
    n1 = proj.shape[-1]
    J = np.diag([-1.0] + [1.0] * (n1 - 1))
    out = np.empty_like(proj)
    for idx in np.ndindex(*proj.shape[:-2]):
        x1, x2 = proj[idx]
        A, B, C = x1 @ J @ x1, x1 @ J @ x2, x2 @ J @ x2
        d = math.sqrt(max(B * B - A * C, 0.0))
        q = -(B + (d if B >= 0 else -d))
        out[idx] = [q * x1 + A * x2, C * x1 + q * x2]
    return out


def mixed_isometries(g, shape, n=2, top=25.0):
    """a composite Isometry whose members are of different kinds: elliptic, ordinary loxodromic, nearly parabolic (tiny translation), and
    loxodromic with a large / huge multiplier (log of the eigenvalue up to `top`), each conjugated by its own isometry; returns (composite, list of
    unit matrices)"""
    cnt = int(np.prod(shape)) if len(shape) else 1
    mats = []
    order = g.permutation(np.array([0.1, 0.4, 0.6, 0.8, 0.9]))        # every kind occurs as soon as there are enough members
    for r in range(cnt):
        T = np.array(isometries(g, (), n).proj_data)
        c = float(order[r % 5]) if cnt >= 2 else g.random()
        if c < 0.25:
            L = np.array(H.Isometry.standard_rotation(float(g.uniform(0.3, 2.8)), dimension=n).proj_data)
        elif c < 0.55:
            L = np.array(H.Isometry.standard_loxodromic(n, float(g.uniform(1.5, 4.0))).proj_data)
        elif c < 0.7:
            L = np.array(H.Isometry.standard_loxodromic(n, 1.0 + float(g.uniform(1e-4, 1e-2))).proj_data)
        elif c < 0.85 or top <= 16.0:
            L = np.array(H.Isometry.standard_loxodromic(n, float(np.exp(g.uniform(min(8.0, top / 2), min(16.0, top))))).proj_data)    # large translation length
        else:
            L = np.array(H.Isometry.standard_loxodromic(n, float(np.exp(g.uniform(16.0, top)))).proj_data)       # huge: eigenvalue up to e^25
        mats.append(np.linalg.inv(T) @ L @ T)
    M = np.array(mats).reshape(tuple(shape) + (n + 1, n + 1))
    return H.Isometry(M), mats


# ------------------------------------------------------------------ C04 oracles
def gen_points(rng, n):
    for c in range(n):
        yield {"op": ["coords", "distance", "origin_to"][c % 3], "shape": rng.choice(SHAPES), "n": rng.choice([1, 2, 2, 3, 4]) if c % 3 != 2 else rng.choice([2, 3, 4]),
               "seed": rng.randrange(10 ** 9), "ideal": rng.random() < 0.15, "bshape": rng.random() < 0.4, "special": rng.random() < 0.35}


def run_points(inp):
    g = G(inp["seed"])
    shape, n = tuple(inp["shape"]), inp["n"]
    bad = []
    def special(kk):
        """a composite of ordinary points with measure-zero special elements mixed in: exactly ideal points, the origin, repeated points"""
        flat = kk.reshape(-1, n).copy()
        idl = ideal(g, (flat.shape[0],), n, exact=0.7)
        for r in range(flat.shape[0]):
            c = g.random()
            if c < 0.25:
                flat[r] = idl[r]
            elif c < 0.35:
                flat[r] = 0.0
            elif c < 0.45 and r > 0:
                flat[r] = flat[r - 1]
        return flat.reshape(kk.shape)

    if inp["op"] == "coords" and inp.get("special"):
        k = special(klein(g, shape, n, 0.9))
        for m in MODELS:
            Pt = H.Point(k.copy(), model="klein")
            with np.errstate(all="ignore"):
                c = np.array(Pt.coords(m))
            if c.shape[:-1] != shape:
                bad.append({"what": "shape", "model": m, "got": list(c.shape)})
                continue
            for idx in np.ndindex(*shape):
                with np.errstate(all="ignore"):
                    u = np.array(H.Point(k[idx].copy(), model="klein").coords(m))
                # a point on the sphere only up to rounding (1 - |k|^2 ~ 1e-16, not 0): its Poincare / half-space coordinates contain
                # sqrt(1 - |k|^2), i.e. are determined to ~1e-8 only (the order of summation in |k|^2 already changes them): conditioning
                gap = abs(1.0 - float(np.sum(k[idx] ** 2)))
                tolu = 1e-9 if (gap > 1e-6 or np.count_nonzero(k[idx]) <= 1) else 1e-6
                ok = (rows_proj_eq(c[idx], u, tolu) if np.all(np.isfinite(u)) and np.all(np.isfinite(c[idx])) else same_val(c[idx], u)) \
                    if m in ("projective", "hyperboloid") else same_val(c[idx], u, tolu)
                if not ok:
                    bad.append({"what": "coords_special", "model": m, "idx": list(idx), "composite": c[idx].tolist(), "unit": u.tolist(),
                                "expected": "entry of the composite result = result on the unit, also next to exactly ideal / repeated / origin elements"})
                    break
    elif inp["op"] == "distance" and inp.get("special"):
        k1, k2 = special(klein(g, shape, n, 0.9)), special(klein(g, shape, n, 0.9))
        if len(shape) and g.random() < 0.5:
            k2.reshape(-1, n)[0] = k1.reshape(-1, n)[0]          # a coinciding pair
        with np.errstate(all="ignore"):
            d = np.array(H.Point(k1.copy(), model="klein").distance(H.Point(k2.copy(), model="klein")))
        if d.shape != shape:
            bad.append({"what": "shape", "got": list(d.shape)})
        else:
            for idx in np.ndindex(*shape):
                with np.errstate(all="ignore"):
                    u = np.asarray(H.Point(k1[idx].copy(), model="klein").distance(H.Point(k2[idx].copy(), model="klein"))).reshape(-1)[0]
                if not same_val(d[idx], u, 1e-7):
                    bad.append({"what": "distance_special", "idx": list(idx), "composite": float(d[idx]), "unit": float(u),
                                "expected": "entry of the composite result = result on the unit, also next to exactly ideal / coinciding elements"})
                    break
    elif inp["op"] == "coords":
        k = ideal(g, shape, n) if inp["ideal"] else klein(g, shape, n, 0.9)
        for m in MODELS:
            if inp["ideal"] and m in ("hyperboloid", "halfspace"):
                continue
            Pt = H.Point(k.copy(), model="klein")
            c = np.array(Pt.coords(m))
            if c.shape[:-1] != shape:
                bad.append({"what": "shape", "model": m, "got": list(c.shape)})
                continue
            for idx in np.ndindex(*shape):
                u = np.array(H.Point(k[idx].copy(), model="klein").coords(m))
                # points that are ideal only up to rounding: Poincare coordinates contain sqrt(1 - |k|^2) and are determined to ~1e-8 only
                tolc = 1e-6 if inp["ideal"] else 1e-9
                ok = rows_proj_eq(c[idx], u, tolc) if m == "projective" else allclose(c[idx], u, tolc)
                if not ok:
                    bad.append({"what": "coords", "model": m, "idx": list(idx), "composite": c[idx].tolist(), "unit": u.tolist()})
                    break
            # setter path: Point(coords, model=m) on a composite = per unit
            if not inp["ideal"]:
                P2 = H.Point(c.copy(), model=m)
                for idx in np.ndindex(*shape):
                    u = H.Point(np.array(c[idx]), model=m)
                    if not rows_proj_eq(P2.proj_data[idx], u.proj_data, 1e-9):
                        bad.append({"what": "set_coords", "model": m, "idx": list(idx)})
                        break
    elif inp["op"] == "distance":
        k1 = klein(g, shape, n, 0.9)
        s2 = shape
        if inp["bshape"] and len(shape):
            s2 = tuple(1 if g.random() < 0.5 else d for d in shape)[int(g.integers(0, len(shape))):]
        k2 = klein(g, s2, n, 0.9)
        d = np.array(H.Point(k1.copy(), model="klein").distance(H.Point(k2.copy(), model="klein")))
        b1, b2 = np.broadcast_arrays(k1[..., None, :], k2[..., None, :])
        if d.shape != b1.shape[:-2]:
            bad.append({"what": "shape", "got": list(d.shape), "expected": list(b1.shape[:-2])})
        else:
            for idx in np.ndindex(*d.shape):
                u = float(np.asarray(H.Point(b1[idx][0].copy(), model="klein").distance(H.Point(b2[idx][0].copy(), model="klein"))).reshape(-1)[0])
                if not allclose(d[idx], u, 1e-7):
                    bad.append({"what": "distance", "idx": list(idx), "composite": float(d[idx]), "unit": u})
                    break
    else:
        k = klein(g, shape, n, 0.8)
        T = H.Point(k.copy(), model="klein").origin_to()
        if tuple(T.shape) != shape:
            bad.append({"what": "shape", "got": list(T.shape)})
        else:
            org = H.Point.get_origin(n)
            for idx in np.ndindex(*shape):
                u = H.Point(k[idx].copy(), model="klein").origin_to()
                M = T.proj_data[idx]
                # what the operation promises on a unit: an isometry taking the origin to the point; and the composite
                # entry is literally what the unit call returns (same LAPACK routine on the same matrix)
                img = (H.Isometry(M) @ org).coords("klein")
                J = np.diag([-1.0] + [1.0] * n)
                if not (allclose(img, k[idx], 1e-7) and allclose(M @ J @ M.T, J, 1e-7)):
                    bad.append({"what": "origin_to_target", "idx": list(idx)})
                    break
                # (the matrix itself is "not uniquely determined": unit and composite are compared through the contract only)
                imgu = (u @ org).coords("klein")
                if not allclose(imgu, k[idx], 1e-7):
                    bad.append({"what": "origin_to_unit_target", "idx": list(idx)})
                    break
    return {"bad": bad}


def gen_apply(rng, n):
    for c in range(n):
        mode = ["elementwise", "pairwise", "pairwise_reversed"][c % 3]
        kind = KINDS[(c // 3) % len(KINDS)]
        cx = kind in CX_KINDS and rng.random() < 0.3
        xs = rng.choice(SHAPES)
        if mode == "elementwise":
            from props import _nd as N
            ts = N.bcast_partner(rng, xs)
            if rng.random() < 0.3:
                ts = []
        else:
            ts = rng.choice(SHAPES[:8])
        yield {"op": "apply", "mode": mode, "kind": kind, "cx": cx, "xshape": xs, "tshape": ts, "n": rng.choice([2, 2, 3]),
               "seed": rng.randrange(10 ** 9), "raw": True, "prequery": c % 2 == 0}


def run_apply(inp):
    g = G(inp["seed"])
    kind, n, cx, mode = inp["kind"], inp["n"], inp["cx"], inp["mode"]
    X = mk(kind, g, inp["xshape"], n, cx, scale=0.3)
    T = transformations(g, inp["tshape"], n, kind, cx, mixed=0.3 if inp.get("mixed", True) else 0.0)
    xs, ts = tuple(X.shape), tuple(T.shape)
    bad = []
    if inp.get("prequery") and not cx:
        # the object (and the transformation) have been looked at before: whatever they remember must not travel onto the image
        for _, f, _ in query_set(kind, X, n) + query_set("transformation", T, n):
            _run_q(f)
        Rq = T.apply(X, broadcast=mode)
        for who, o, k in (("image", Rq, kind), ("original", X, kind), ("transformation", T, "transformation")):
            why = fresh_diff(k, o, n, 1e-6, mutate=True)
            if why:
                bad.append({"what": "differs_from_fresh_object", "object": who, "query": why,
                            "expected": "a query on an object with a history = the same query on a fresh object with the same primary data"})
                return {"bad": bad}
    if inp.get("raw") and kind == "point":
        # the same call on a plain array of row vectors (apply wraps the result in a generic object)
        Rr = T.apply(np.array(X.proj_data), broadcast=mode)
        Ro = T.apply(X, broadcast=mode)
        if not hasattr(Rr, "proj_data") or np.asarray(Rr.proj_data).shape != np.asarray(Ro.proj_data).shape \
                or not rows_proj_eq(Rr.proj_data, Ro.proj_data, 1e-9):
            bad.append({"what": "raw_array_argument", "expected": "T.apply(array, mode) has the data of T.apply(Point(array), mode)",
                        "got": list(np.asarray(getattr(Rr, "proj_data", np.zeros(0))).shape), "want": list(np.asarray(Ro.proj_data).shape)})
    R = T.apply(X, broadcast=mode)
    if type(R) is not type(X):
        bad.append({"what": "type", "got": type(R).__name__, "expected": type(X).__name__})
    # G17 / G13: the same transformation entered as column matrices, every broadcast mode; and the operator form of the default mode
    Rc = type(T)(np.array(T.proj_data).swapaxes(-1, -2), column_vectors=True).apply(X, broadcast=mode)
    if tuple(Rc.shape) != tuple(R.shape) or not data_proj_eq(kind, Rc.proj_data, R.proj_data, 1e-12) \
            or (R.aux_data is not None and not aux_proj_eq(kind, Rc.aux_data, R.aux_data, 1e-9)):
        bad.append({"what": "column_vectors_option", "mode": mode, "expected": "T(M^T, column_vectors=True).apply(X, mode) = T(M).apply(X, mode)"})
    if mode == "elementwise":
        Rm = T @ X
        if tuple(Rm.shape) != tuple(R.shape) or not data_proj_eq(kind, Rm.proj_data, R.proj_data, 1e-12):
            bad.append({"what": "operator_vs_apply", "expected": "T @ X = T.apply(X)"})
    if mode == "elementwise":
        exp = tuple(np.broadcast_shapes(xs, ts))
    elif mode == "pairwise":
        exp = xs + ts
    else:
        exp = ts + xs
    if tuple(R.shape) != exp:
        bad.append({"what": "shape", "got": list(R.shape), "expected": list(exp)})
        return {"bad": bad}
    if R.aux_data is not None and tuple(np.asarray(R.aux_data).shape[:len(exp)]) != exp:
        bad.append({"what": "aux_shape", "got": list(np.asarray(R.aux_data).shape), "expected_outer": list(exp)})
        return {"bad": bad}
    if R.aux_data is not None and np.asarray(R.aux_data).ndim != len(exp) + X.aux_ndims:
        bad.append({"what": "aux_shape", "got": list(np.asarray(R.aux_data).shape), "expected_outer": list(exp)})
        return {"bad": bad}
    Tcls = type(T)
    for idx in np.ndindex(*exp):
        if mode == "elementwise":
            pad_x = (0,) * 0
            xi = tuple(0 if d == 1 else i for d, i in zip(xs, idx[len(idx) - len(xs):]))
            ti = tuple(0 if d == 1 else i for d, i in zip(ts, idx[len(idx) - len(ts):]))
        elif mode == "pairwise":
            xi, ti = idx[:len(xs)], idx[len(xs):]
        else:
            ti, xi = idx[:len(ts)], idx[len(ts):]
        U = Tcls(np.array(T.proj_data[ti])) @ unit_of(X, xi)
        if not data_proj_eq(kind, R.proj_data[idx], U.proj_data, 1e-8):
            bad.append({"what": "proj", "idx": list(idx), "unit_x": list(xi), "unit_t": list(ti)})
            break
        if (R.aux_data is None) != (U.aux_data is None) or (R.aux_data is not None and not aux_proj_eq(kind, R.aux_data[idx], U.aux_data, 1e-6)):
            bad.append({"what": "aux", "idx": list(idx), "unit_x": list(xi), "unit_t": list(ti)})
            break
    return {"bad": bad}


def gen_construct(rng, n):
    ops = ["segment", "polygon", "tangent", "pair", "circle_segment", "circle_geodesic", "circle_polygon", "horosphere",
           "fixed_points", "sl2", "ideal_endpoints", "tangent_ops", "dtype_mix", "derived_then_original",
           "mixed_isometries", "special_positions", "options", "far_points", "error_paths"]
    ops += ["mixed_kinds", "hyperplane_family", "mixed_kinds", "hyperplane_family"]
    for c in range(n):
        op = ops[c % len(ops)]
        dim = 2 if op.startswith("circle") or op in ("sl2", "fixed_points") else rng.choice([2, 3])
        shape = rng.choice(SHAPES)
        if op in ("mixed_kinds", "hyperplane_family"):
            dim = rng.choice([2, 2, 3, 4])
        if op in ("mixed_kinds", "hyperplane_family") or rng.random() < 0.3:
            # G16: the (n, n) ambiguity -- composites whose LAST axis has exactly dim+1 members, and square (m, m) tables
            shape = rng.choice([[dim + 1], [2, dim + 1], [dim + 1, dim + 1], [dim, dim], [1, dim + 1], [dim + 1, 1], [dim + 1, dim], [2], [dim + 2]])
        yield {"op": op, "shape": shape, "n": dim, "seed": rng.randrange(10 ** 9), "model": rng.choice(["poincare", "halfspace"])}


def _cmp_tuple(bad, what, comp, unit, idx, tol=1e-6):
    for k, (a, b) in enumerate(zip(comp, unit)):
        if not allclose(np.asarray(a)[idx], b, tol):
            bad.append({"what": what, "part": k, "idx": list(idx), "composite": np.asarray(a)[idx].tolist(), "unit": np.asarray(b).tolist()})
            return False
    return True


def run_construct(inp):
    g = G(inp["seed"])
    shape, n, op = tuple(inp["shape"]), inp["n"], inp["op"]
    bad = []
    if op in ("segment", "pair", "ideal_endpoints"):
        a, b = klein(g, shape, n), klein(g, shape, n)
        a = a + 0.15 * np.sign(a - b)      # keep endpoints apart
        a = np.clip(a, -0.65, 0.65)
        cls = H.Segment if op != "pair" else H.PointPair
        S = cls(H.Point(a.copy(), model="klein"), H.Point(b.copy(), model="klein"))
        if tuple(S.shape) != shape:
            bad.append({"what": "shape", "got": list(S.shape)})
        for idx in np.ndindex(*shape):
            U = cls(H.Point(a[idx].copy(), model="klein"), H.Point(b[idx].copy(), model="klein"))
            if not rows_proj_eq(S.proj_data[idx], U.proj_data, 1e-9):
                bad.append({"what": "proj", "idx": list(idx)})
                break
            if op != "pair" and not rows_proj_eq(S.aux_data[idx], U.aux_data, 1e-7):
                bad.append({"what": "aux", "idx": list(idx)})
                break
            if op == "ideal_endpoints":
                ce = np.array(S.ideal_endpoint_coords("klein"))[idx]
                ue = np.array(U.ideal_endpoint_coords("klein"))
                if not allclose(ce, ue, 1e-7):
                    bad.append({"what": "ideal_endpoint_coords", "idx": list(idx)})
                    break
    elif op == "polygon":
        k = klein(g, shape + (4,), n)
        Pg = H.Polygon(H.Point(k.copy(), model="klein"))
        Pp = P.Polygon(Pg.proj_data.copy())
        for idx in np.ndindex(*shape):
            U = H.Polygon(H.Point(k[idx].copy(), model="klein"))
            if not (rows_proj_eq(Pg.proj_data[idx], U.proj_data, 1e-9) and rows_proj_eq(Pg.aux_data[idx], U.aux_data, 1e-9)
                    and rows_proj_eq(Pp.aux_data[idx], P.Polygon(U.proj_data.copy()).aux_data, 1e-9)):
                bad.append({"what": "polygon", "idx": list(idx)})
                break
            ce = Pg.get_edges()
            if tuple(ce.shape) != shape + (4,):
                bad.append({"what": "edges_shape", "got": list(ce.shape)})
                break
    elif op in ("tangent", "tangent_ops"):
        k = klein(g, shape, n)
        v = g.normal(size=shape + (n + 1,))
        TV = H.TangentVector(H.Point(k.copy(), model="klein"), v.copy())
        k2 = klein(g, shape, n)
        v2 = g.normal(size=shape + (n + 1,))
        for idx in np.ndindex(*shape):
            U = H.TangentVector(H.Point(k[idx].copy(), model="klein"), v[idx].copy())
            if not (rows_proj_eq(TV.proj_data[idx], U.proj_data, 1e-9) and _cmp_q((TV.aux_data[idx],), (U.aux_data,), "tangent", 1e-9)):
                bad.append({"what": "tangent", "idx": list(idx)})
                break
        if op == "tangent_ops" and not bad:
            # base points given by representatives of either sign and any scale; the queries one after another on ONE object
            pr = np.concatenate([np.ones(shape + (1,)), k], axis=-1) * (unit_scale(g, shape, -20, 20) * g.choice([-1.0, 1.0], shape))[..., None]
            TH = H.TangentVector(np.stack([pr, v], axis=-2))
            TH.origin_to()
            TH.point_along(0.3)
            TH.normalized()
            why = fresh_diff("tangent", TH, n, 1e-6)
            if why:
                bad.append({"what": "tangent_after_queries_differs_from_fresh", "query": why})
            for idx in np.ndindex(*shape):
                if bad:
                    break
                U = H.TangentVector(np.stack([pr[idx], v[idx]], axis=-2))
                from props._hist import rows_pos_eq
                if not rows_pos_eq(np.array(TH.vector)[idx], np.array(U.vector), 1e-7) or \
                        not rows_pos_eq(TH.normalized().aux_data[idx], U.normalized().aux_data, 1e-7):
                    bad.append({"what": "tangent_unit_after_queries", "idx": list(idx), "expected": "unit idx of the queried composite = fresh unit (same direction)"})
            TV = H.TangentVector(H.Point(k.copy(), model="klein"), v.copy())
            TW = H.TangentVector(H.Point(k.copy(), model="klein"), v2.copy())
            nrm = fresh(TV).normalized()
            ang = np.array(fresh(TV).angle(fresh(TW)))
            ot = fresh(TV).origin_to()
            pa = fresh(TV).normalized().point_along(0.7)
            for idx in np.ndindex(*shape):
                U = H.TangentVector(H.Point(k[idx].copy(), model="klein"), v[idx].copy())
                W = H.TangentVector(H.Point(k[idx].copy(), model="klein"), v2[idx].copy())
                if not _cmp_q((nrm.aux_data[idx],), (fresh(U).normalized().aux_data,), "tangent", 1e-8):
                    bad.append({"what": "normalized", "idx": list(idx)})
                    break
                if not allclose(ang[idx], np.array(fresh(U).angle(fresh(W))), 1e-7):
                    bad.append({"what": "angle", "idx": list(idx)})
                    break
                from props._hist import rows_pos_eq
                Mo = np.asarray(ot.proj_data[idx], dtype=float)
                Jm = np.diag([-1.0] + [1.0] * n)
                if not (rows_proj_eq(Mo[0], U.aux_data[0], 1e-7) and rows_pos_eq(Mo[1], U.aux_data[1], 1e-7) and allclose(Mo @ Jm @ Mo.T, Jm, 1e-7)):
                    bad.append({"what": "tangent_origin_to", "idx": list(idx), "expected": "origin tangent goes to the unit's tangent vector, form preserved"})
                    break
                if not rows_proj_eq(pa.proj_data[idx], fresh(U).normalized().point_along(0.7).proj_data, 1e-7):
                    bad.append({"what": "point_along", "idx": list(idx)})
                    break
    elif op in ("circle_segment", "circle_geodesic", "circle_polygon"):
        m = inp["model"]
        kind = {"circle_segment": "segment", "circle_geodesic": "geodesic", "circle_polygon": "polygon"}[op]
        X = mk(kind, g, shape, 2)
        if kind == "polygon":
            # (hyperbolic.Polygon.circle_parameters itself raises TypeError for every polygon, unit or composite: it passes
            #  `short_arc` positionally to Segment.circle_parameters, which has no such parameter — outside C04, reported)
            comp = fresh(X).get_edges().circle_parameters(model=m)
            oshape = shape + (4,)
            units = lambda idx: H.Segment(np.array(X.aux_data[idx])).circle_parameters(model=m)
        else:
            comp = fresh(X).circle_parameters(model=m)
            oshape = shape
            units = lambda idx: unit_of(X, idx).circle_parameters(model=m)
        if np.asarray(comp[1]).shape != oshape:
            bad.append({"what": "shape", "got": list(np.asarray(comp[1]).shape), "expected": list(oshape)})
        else:
            for idx in np.ndindex(*oshape):
                u = units(idx)
                if not all(np.all(np.isfinite(np.asarray(x))) for x in u):
                    continue      # (half-space) vertical geodesic: infinite radius, nothing to compare
                if not _cmp_tuple(bad, op, comp, u, idx, 1e-5):
                    break
    elif op == "horosphere":
        X = mk("horosphere", g, shape, n)
        m = inp["model"]
        comp = fresh(X).sphere_parameters(model=m)
        for idx in np.ndindex(*shape):
            u = unit_of(X, idx).sphere_parameters(model=m)
            if not all(np.all(np.isfinite(np.asarray(x))) for x in u):
                continue
            if not _cmp_tuple(bad, "horosphere", comp, u, idx, 1e-6):
                break
    elif op == "fixed_points":
        # loxodromic isometries with well separated eigenvalues: conjugates of a standard loxodromic
        T = isometries(g, shape, 2)
        L = H.Isometry.standard_loxodromic(2, float(g.uniform(1.5, 3.0)))
        X = H.Isometry(utils.matrix_product(utils.matrix_product(utils.invert(T.proj_data), L.proj_data), T.proj_data))
        D = T @ X
        Fl = X.flatten_to_unit()
        for o in (D, Fl, X):            # the derived objects are asked first
            why = fresh_diff("transformation", o, 2, 1e-6)
            if why:
                bad.append({"what": "fixed_points_differ_from_fresh_object", "query": why})
                break
        fp = X.fixed_point_pair()
        f1 = X.fixed_point()
        ax = X.axis()
        if tuple(fp.shape) != shape or tuple(f1.shape) != shape:
            bad.append({"what": "shape", "got": [list(fp.shape), list(f1.shape)]})
        else:
            for idx in np.ndindex(*shape):
                U = H.Isometry(np.array(X.proj_data[idx]))
                if not rows_proj_eq(fp.proj_data[idx], U.fixed_point_pair().proj_data, 1e-6):
                    bad.append({"what": "fixed_point_pair", "idx": list(idx)})
                    break
                if not rows_proj_eq(f1.proj_data[idx], U.fixed_point().proj_data, 1e-6):
                    bad.append({"what": "fixed_point", "idx": list(idx)})
                    break
                if not rows_proj_eq(ax.proj_data[idx], U.axis().proj_data, 1e-6):
                    bad.append({"what": "axis", "idx": list(idx)})
                    break
    elif op == "dtype_mix":
        # G4: the same object from parts of different dtypes, in every order, against the all-float64 construction
        ka, kb = klein(g, shape, n), klein(g, shape, n)
        A = np.concatenate([np.full(shape + (1,), 4.0), np.round(ka * 4)], axis=-1)        # integral coordinates, interior
        B = np.concatenate([np.ones(shape + (1,)), kb], axis=-1) * 1.37
        v = np.round(g.normal(size=shape + (n + 1,)) * 3) + np.eye(n + 1)[1]
        dts = [np.int64, np.float64, np.float32, np.int32]
        for cls, second in ((H.Segment, B), (H.PointPair, B), (H.TangentVector, None)):
            for d1, d2 in ((np.int64, np.float64), (np.float64, np.int64), (np.int32, np.float32), (np.float32, np.float64), (np.int64, np.int64)):
                try:
                    if cls is H.TangentVector:
                        first, sec = B if d1 != np.int64 and d1 != np.int32 else A, v + 0.25 * (d2 in (np.float64, np.float32))
                        obj = cls(H.Point(first.astype(d1)), sec.astype(d2))
                        ref = cls(H.Point(first.astype(d1).astype(float)), sec.astype(d2).astype(float))
                    else:
                        obj = cls(H.Point(A.astype(d1)), H.Point(second.astype(d2)))
                        ref = cls(H.Point(A.astype(d1).astype(float)), H.Point(second.astype(d2).astype(float)))
                except Exception as e:
                    bad.append({"what": "dtype_mix_raised", "cls": cls.__name__, "dtypes": [np.dtype(d1).name, np.dtype(d2).name], "exc": type(e).__name__})
                    continue
                tol = 1e-5 if np.float32 in (d1, d2) else 1e-9
                if not allclose(np.asarray(obj.proj_data, dtype=float), np.asarray(ref.proj_data, dtype=float), tol) or \
                        (ref.aux_data is not None and np.all(np.isfinite(ref.aux_data)) and
                         not aux_proj_eq({"Segment": "segment", "TangentVector": "tangent"}.get(cls.__name__, "pair"), obj.aux_data, ref.aux_data, max(tol, 1e-6))):
                    bad.append({"what": "dtype_mix", "cls": cls.__name__, "dtypes": [np.dtype(d1).name, np.dtype(d2).name],
                                "expected": "parts of different dtypes give the object of the widest dtype (nothing truncated)"})
                    break
        # stacking units of different dtypes, both orders
        if not bad:
            u1, u2 = H.Point(A.astype(np.int64)), H.Point(B)
            for order in ((u1, u2), (u2, u1)):
                S = H.Point(list(order))
                want = np.stack([np.asarray(o.proj_data, dtype=float) for o in order])
                if not allclose(np.asarray(S.proj_data, dtype=float), want, 1e-12):
                    bad.append({"what": "dtype_mix_stack", "expected": "stacking int and float units keeps the float coordinates"})
                    break
    elif op == "derived_then_original":
        # G1/G3: derive an object, look at the DERIVED one first, then at the original (and the other way round): both answer as fresh objects do
        kind = ["transformation", "polygon", "segment", "tangent"][int(g.integers(0, 4))]
        X = mk(kind, g, shape, 2 if kind == "transformation" else n)
        nn = 2 if kind == "transformation" else n
        T = isometries(g, (), nn)
        for first in ("derived", "original"):
            ders = [("apply", T @ X), ("flatten", X.flatten_to_unit())] + ([("reshape", X.reshape(shape[::-1]))] if shape else [])
            if kind == "transformation":
                ders.append(("compose", X @ T))
            order = ([(nm, D) for nm, D in ders] + [("original", X)]) if first == "derived" else ([("original", X)] + ders)
            for nm, D in order:
                why = fresh_diff(kind, D, nn, 1e-6)
                if why:
                    bad.append({"what": "differs_from_fresh_object", "object": nm, "looked_at_first": first, "query": why, "kind": kind})
                    break
            if bad:
                break
    elif op == "mixed_isometries":
        # G16: one composite with elliptic, ordinary, nearly parabolic and huge-multiplier members: member i answers as the single object does
        X, mats = mixed_isometries(g, shape, 2)
        calls = [("fixed_point_pair", lambda o: o.fixed_point_pair().proj_data), ("fixed_point", lambda o: o.fixed_point().proj_data),
                 ("fixed_point(max_eigval=False)", lambda o: o.fixed_point(max_eigval=False).proj_data),
                 ("fixed_point_pair(sort_eigvals=False)", lambda o: o.fixed_point_pair(sort_eigvals=False).proj_data),
                 ("axis", lambda o: o.axis().proj_data), ("inv", lambda o: o.inv().matrix)]
        for name, f in calls:
            comp = _run_q(lambda: f(X))
            units = [_run_q(lambda: f(H.Isometry(np.array(mats[r])))) for r in range(len(mats))]
            if len(comp) == 2 and isinstance(comp[0], str):
                # the composite refuses (e.g. a numerically singular member): legitimate exactly when some member refuses the same way on its own
                if not any(_cmp_q(comp, u, "val", 0) for u in units if len(u) == 2 and isinstance(u[0], str)):
                    bad.append({"what": "mixed_composite", "query": name, "composite_raises": comp[1], "expected": "no member raises on its own, so the composite must not raise"})
                    break
                continue
            for r, idx in enumerate(np.ndindex(*shape)):
                unit = units[r]
                cu = (np.asarray(comp[0])[idx],)
                how = "mat" if name == "inv" else "proj"
                if not _cmp_q(cu, unit, how, 1e-6):
                    bad.append({"what": "mixed_composite", "query": name, "idx": list(idx),
                                "expected": "member i of the composite answer = the single-object answer for member i (members of different kinds / magnitudes)"})
                    break
            if bad:
                break
    elif op == "special_positions":
        # G8: exact special positions among ordinary units: an endpoint / vertex exactly at the origin of the ball (first or second), stored with
        # first coordinate 1; the stored ideal endpoints are checked against an independent reference (null, on the line), not against the library
        cnt = int(np.prod(shape)) if len(shape) else 1
        a = np.concatenate([np.ones(shape + (1,)), klein(g, shape, n)], axis=-1)
        b = np.concatenate([np.ones(shape + (1,)), klein(g, shape, n) * -1.0], axis=-1)
        fa, fb = a.reshape(-1, n + 1), b.reshape(-1, n + 1)
        for r in range(cnt):
            c = g.random()
            if c < 0.35:
                fb[r, 1:] = 0.0                # second endpoint at the origin
            elif c < 0.6:
                fa[r, 1:] = 0.0                # first endpoint at the origin
        raw = np.stack([fa.reshape(a.shape), fb.reshape(b.shape)], axis=-2)
        with np.errstate(all="ignore"):
            S = H.Segment(raw.copy())
            ref = ref_segment_ideal(raw)
        if not aux_proj_eq("segment", S.aux_data, ref, 1e-7):
            bad.append({"what": "segment_special_position", "expected": "ideal endpoints = the two null points on the line through the endpoints (endpoint at the origin included)"})
        if not bad:
            verts = np.concatenate([np.ones(shape + (4, 1)), klein(g, shape + (4,), n)], axis=-1)
            verts[..., int(g.integers(0, 4)), 1:] = 0.0          # one vertex exactly at the origin
            with np.errstate(all="ignore"):
                Pg = H.Polygon(verts.copy())
                E = Pg.get_edges()
            edges = np.stack([verts, np.roll(verts, -1, axis=-2)], axis=-2)
            if not aux_proj_eq("segment", E.aux_data, ref_segment_ideal(edges), 1e-7):
                bad.append({"what": "polygon_edge_special_position", "expected": "ideal endpoints of every edge, a vertex at the origin included"})
            if not bad and n == 2:
                with np.errstate(all="ignore"):
                    cp = E.circle_parameters(model="poincare")
                for idx in np.ndindex(*(shape + (4,))):
                    with np.errstate(all="ignore"):
                        u = H.Segment(edges[idx].copy()).circle_parameters(model="poincare")
                    if not _cmp_q(tuple(np.asarray(c_)[idx] for c_ in cp), u, "circle", 1e-6):
                        bad.append({"what": "edge_circle_special_position", "idx": list(idx)})
                        break
    elif op == "options":
        # G17 / G13: every option x option of the vectorised queries, enum members vs strings vs aliases, degrees vs radians, flatten=True vs reshaping
        Pg = mk("polygon", g, shape, 2)
        Sg = mk("segment", g, shape, 2)
        for model, alias in ((H.Model.POINCARE, "poincare"), (H.Model.HALFSPACE, "halfplane"), (H.Model.HALFSPACE, "HALFSPACE")):
            for degrees in (True, False):
                for short_arc in (True, False):
                    with np.errstate(all="ignore"):
                        ref = Pg.get_edges().circle_parameters(degrees=degrees, model=model)                 # the edges, one by one, are the reference
                        f0 = Pg.circle_parameters(short_arc=short_arc, degrees=degrees, model=alias, flatten=False)
                        f1 = Pg.circle_parameters(short_arc=short_arc, degrees=degrees, model=alias, flatten=True)
                    nE = int(np.prod(shape + (4,)))
                    scale = 1.0 if degrees else 180.0 / np.pi
                    r0 = (np.asarray(f0[0]), np.asarray(f0[1]), np.asarray(f0[2]) * scale)
                    r1 = (np.asarray(f1[0]), np.asarray(f1[1]), np.asarray(f1[2]) * scale)
                    rr = (np.asarray(ref[0]), np.asarray(ref[1]), np.asarray(ref[2]) * scale)
                    flat = tuple(x.reshape((nE,) + x.shape[len(shape) + 1:]) for x in rr)
                    if not _cmp_q(r0, rr, "circle", 1e-6):
                        bad.append({"what": "polygon_circle_options", "flatten": False, "model": str(alias), "degrees": degrees, "short_arc": short_arc})
                    elif tuple(np.asarray(r1[1]).shape) != (nE,) or not _cmp_q(r1, flat, "circle", 1e-6):
                        bad.append({"what": "polygon_circle_options", "flatten": True, "model": str(alias), "degrees": degrees, "short_arc": short_arc,
                                    "expected": "flatten=True = the flatten=False answer, edges listed in row-major order, same model"})
                    if bad:
                        break
                if bad:
                    break
                with np.errstate(all="ignore"):
                    sd = Sg.circle_parameters(degrees=True, model=model)
                    sr = Sg.circle_parameters(degrees=False, model=alias)
                if not _cmp_q((sd[0], sd[1], sd[2]), (sr[0], sr[1], np.asarray(sr[2]) * 180.0 / np.pi), "circle", 1e-6):
                    bad.append({"what": "segment_circle_options", "model": str(alias)})
            if bad:
                break
        if not bad:
            Pt = mk("point", g, shape, n)
            for member, names in ((H.Model.KLEIN, ("klein", "KLEIN", "affine", "kleinian")), (H.Model.HALFSPACE, ("halfspace", "halfplane")),
                                  (H.Model.POINCARE, ("poincare", "Poincare")), (H.Model.HYPERBOLOID, ("hyperboloid",)), (H.Model.PROJECTIVE, ("projective",))):
                base = np.array(fresh(Pt).coords(member))
                for nm in names:
                    if not same_val(np.array(fresh(Pt).coords(nm)), base, 1e-12):
                        bad.append({"what": "model_alias", "name": nm})
                c2 = np.array(H.get_point(np.array(fresh(Pt).coords(H.Model.KLEIN)), model="klein").coords(member))
                if member is not H.Model.PROJECTIVE and member is not H.Model.HYPERBOLOID and not same_val(c2, base, 1e-9):
                    bad.append({"what": "get_point_vs_Point", "model": str(member)})
            A2 = g.normal(size=shape + (2, 2))
            A2 = A2 / np.sqrt(np.abs(A2[..., 0, 0] * A2[..., 1, 1] - A2[..., 0, 1] * A2[..., 1, 0]))[..., None, None]
            if not allclose(H.Isometry.from_sl2(A2.copy()).proj_data, H.sl2_iso(A2.copy()).proj_data, 1e-12):
                bad.append({"what": "from_sl2_vs_sl2_iso"})
    elif op == "far_points":
        # G12: coordinates far from the origin (hyperbolic distance up to 12) and per-unit magnitudes 1e-9..1e9: composite = per unit
        d = g.uniform(6.0, 12.0, shape)          # beyond ~13 the Minkowski norm of the float coordinates is no longer determined (conditioning, not a defect)
        u = ideal(g, shape, n, exact=0.0)
        hyp = np.concatenate([np.cosh(d)[..., None], np.sinh(d)[..., None] * u], axis=-1) * (10.0 ** g.integers(-9, 10, size=shape))[..., None]
        Pt = H.Point(hyp.copy())
        for m in MODELS:
            with np.errstate(all="ignore"):
                c = np.array(H.Point(hyp.copy()).coords(m))
            for idx in np.ndindex(*shape):
                with np.errstate(all="ignore"):
                    uu = np.array(H.Point(hyp[idx].copy()).coords(m))
                ok = rows_proj_eq(c[idx], uu, 1e-9) if m in ("projective", "hyperboloid") and np.all(np.isfinite(uu)) else same_val(c[idx], uu, 1e-9)
                if not ok:
                    bad.append({"what": "far_point_coords", "model": m, "idx": list(idx)})
                    break
        with np.errstate(all="ignore"):
            dd = np.array(H.Point(hyp.copy()).distance(H.Point.get_origin(n, shape)))
        if not same_val(dd, d, 1e-4):
            bad.append({"what": "far_point_distance", "expected": "distance to the origin = the parameter the point was built from (1e-4)"})
    elif op == "error_paths":
        # G15: what must raise still raises (and the borderline valid input does not)
        Pt = mk("point", g, shape if shape else (2,), n)
        Tm = isometries(g, (3,), n)
        X5 = mk("point", g, (2,), n)
        def raises(f, *classes):
            try:
                f()
            except classes:
                return True
            except Exception:
                return False
            return False
        from geometry_tools.base import GeometryError
        if not raises(lambda: Pt.coords("no-such-model"), GeometryError):
            bad.append({"what": "invalid_model_name_does_not_raise_GeometryError"})
        if not raises(lambda: Tm.apply(X5, "elementwise"), ValueError):
            bad.append({"what": "elementwise_apply_of_non_broadcastable_shapes_does_not_raise"})
        if not raises(lambda: Pt[len(Pt)], IndexError):
            bad.append({"what": "index_out_of_range_does_not_raise"})
        if not raises(lambda: len(unit_of(Pt, (0,) * len(Pt.shape))), TypeError):
            bad.append({"what": "len_of_unit_does_not_raise"})
        if not raises(lambda: H.Point(np.array([0.0] + [1.0] * n)).coords("klein"), GeometryError):
            bad.append({"what": "point_outside_chart_does_not_raise"})
        if raises(lambda: H.Point(np.array([1e-300] + [1.0] * n)).coords("klein"), Exception):
            bad.append({"what": "borderline_valid_point_raises"})
    elif op == "mixed_kinds":
        # G16: one composite whose members are of different kinds -- ordinary ones, one exactly through the point at infinity of the half-space model
        # (Klein (1, 0, .., 0)), one exactly through the centre of the ball -- in BOTH models: member i of the composite answer = the single-object answer
        cnt = int(np.prod(shape)) if len(shape) else 1
        kind = ["geodesic", "segment", "subspace", "horosphere", "point"][int(g.integers(0, 5))]
        e1 = np.zeros(n)
        e1[0] = 1.0
        A, B, kinds = np.zeros((cnt, n)), np.zeros((cnt, n)), []
        order = g.permutation(np.array(["ordinary", "infinity", "ordinary", "centre"]))
        for r in range(cnt):
            kk = str(order[r % 4]) if cnt >= 2 else "ordinary"
            while True:
                a, b = ideal(g, (), n, exact=0.0), ideal(g, (), n, exact=0.0)
                if np.linalg.norm(a - b) > 0.4 and np.linalg.norm(a + b) > 0.4 and a[0] < 0.8 and b[0] < 0.8:
                    break
            if kind in ("segment", "point"):
                t1, t2 = g.uniform(0.1, 0.45), g.uniform(0.55, 0.9)
                a, b = t1 * b + (1 - t1) * a, t2 * b + (1 - t2) * a              # interior points of the chord
                if kk == "infinity" and kind == "point":
                    a = e1.copy()
                elif kk == "centre":
                    a = np.zeros(n)
                elif kk != "ordinary":
                    kk = "ordinary"
            elif kk == "infinity":
                a, b = (e1.copy(), b) if g.random() < 0.5 else (a, e1.copy())
                if kind == "horosphere":
                    a = e1.copy()
            elif kk == "centre" and kind != "horosphere":
                b = -a                                                             # a diameter of the ball
            else:
                kk = "ordinary"
            A[r], B[r] = a, b
            kinds.append(kk)
        A, B = A.reshape(shape + (n,)), B.reshape(shape + (n,))

        def build(a, b):
            pa, pb = H.Point(np.array(a), model="klein"), H.Point(np.array(b), model="klein")
            if kind == "geodesic":
                return H.Geodesic(H.IdealPoint(pa), H.IdealPoint(pb))
            if kind == "segment":
                return H.Segment(pa, pb)
            if kind == "subspace":
                return H.Subspace(np.stack([pa.proj_data, pb.proj_data], axis=-2))
            if kind == "horosphere":
                return H.Horosphere(H.IdealPoint(pa), H.Point(0.5 * np.array(b), model="klein"))
            return pa

        def answers(o):
            out = []
            with np.errstate(all="ignore"):
                for m in ("poincare", "halfspace"):
                    if kind == "point":
                        out.append(("coords(%s)" % m, np.array(o.coords(m), dtype=float), 1))
                        continue
                    c, r = o.sphere_parameters(model=m)
                    out += [("sphere_parameters(%s)[0]" % m, np.array(c, dtype=float), 1), ("sphere_parameters(%s)[1]" % m, np.array(r, dtype=float), 0)]
                    if kind in ("geodesic", "subspace"):
                        out.append(("ideal_basis_coords(%s)" % m, np.array(o.ideal_basis_coords(m), dtype=float), 2))
                    if kind in ("geodesic", "segment"):
                        out.append(("endpoint_coords(%s)" % m, np.array(o.endpoint_coords(m), dtype=float), 2))
                        if n == 2:
                            c2, r2, th = o.circle_parameters(model=m, degrees=False)
                            th = np.array(th, dtype=float)
                            out += [("circle_parameters(%s)[0]" % m, np.array(c2, dtype=float), 1), ("circle_parameters(%s)[1]" % m, np.array(r2, dtype=float), 0),
                                    ("circle_parameters(%s)[2]:cos" % m, np.cos(th), 1), ("circle_parameters(%s)[2]:sin" % m, np.sin(th), 1)]
                    if kind == "horosphere":
                        out.append(("center_coords(%s)" % m, np.array(o.center_coords(m), dtype=float), 1))
            return out

        def tryq(a, b):
            try:
                return answers(build(a, b))
            except Exception as e:
                return type(e).__name__

        comp = tryq(A, B)
        if isinstance(comp, str):
            if not any(isinstance(tryq(A[idx], B[idx]), str) for idx in np.ndindex(*shape)):
                bad.append({"what": "mixed_kinds_composite_raises", "kind": kind, "members": kinds, "exc": comp,
                            "expected": "no member raises on its own, so the composite must not raise"})
            return {"bad": bad}
        for r, idx in enumerate(np.ndindex(*shape)):
            unit = tryq(A[idx], B[idx])
            if isinstance(unit, str):
                continue                      # this member is refused on its own: nothing is defined for it
            for (name, cv, urank), (_, uv, _) in zip(comp, unit):
                if cv.shape[:len(shape)] != shape or cv.shape[len(shape):] != uv.shape:
                    bad.append({"what": "mixed_kinds_shape", "query": name, "kind": kind, "got": list(cv.shape), "unit": list(uv.shape), "members": kinds})
                    return {"bad": bad}
                a_, b_ = cv[idx], uv
                fa, fb = np.isfinite(a_), np.isfinite(b_)
                if not np.array_equal(fa, fb) or (fa.any() and not np.all(np.abs(a_[fa] - b_[fb]) <= 1e-7 * (1 + np.abs(b_[fb])))):
                    bad.append({"what": "mixed_kinds", "query": name, "kind": kind, "idx": list(idx), "member": kinds[r], "members": kinds,
                                "composite": np.asarray(a_).tolist(), "single": np.asarray(b_).tolist(),
                                "expected": "member i of the composite answer = the single-object answer for member i (finite exactly where that is finite)"})
                    return {"bad": bad}
    elif op == "hyperplane_family":
        # the vectorised constructors and queries of the hyperplane / reflection family on composites, in particular with exactly dim+1 members in the
        # last axis (where an array of normals has the shape (.., n, n) of ONE hyperplane's full data) and square tables: composite = per unit
        nrm = g.normal(size=shape + (n + 1,))
        nrm[..., 0] = 0.5 * np.linalg.norm(nrm[..., 1:], axis=-1) * g.uniform(-1, 1, shape)          # spacelike normals
        J = np.diag([-1.0] + [1.0] * n)

        def fam(v):
            """every way of getting the same composite of hyperplanes, and what is derived from it"""
            Hp = H.Hyperplane(np.array(v), normals_only=True)
            R = Hp.reflection_across()
            out = {"Hyperplane(normals, normals_only=True)": Hp, "Hyperplane.from_reflection(reflections)": H.Hyperplane.from_reflection(R),
                   "Hyperplane.from_reflection(matrices)": H.Hyperplane.from_reflection(np.array(R.proj_data)),
                   "Hyperplane(Hyperplane)": H.Hyperplane(Hp), "Hyperplane(full data)": H.Hyperplane(np.array(Hp.proj_data)),
                   "Hyperplane(DualPoint)": H.Hyperplane(H.DualPoint(np.array(v)), normals_only=True)}
            if n == 2:
                out["Geodesic.from_reflection(reflections)"] = H.Geodesic.from_reflection(R)
            return out, R

        comp, R = fam(nrm)
        if tuple(R.shape) != shape:
            bad.append({"what": "reflection_across_shape", "got": list(R.shape), "expected": list(shape)})
        for name, C in comp.items():
            if bad:
                break
            if tuple(C.shape) != shape:
                bad.append({"what": "hyperplane_family_shape", "constructor": name, "got": list(C.shape), "expected": list(shape),
                            "expected_text": "one hyperplane per member of the composite it was built from"})
                break
            for idx in np.ndindex(*shape):
                v = nrm[idx]
                if isinstance(C, H.Hyperplane):
                    sv, ib = np.array(C.spacelike_vector)[idx], np.array(C.ideal_basis)[idx]
                    ok = rows_proj_eq(sv, v, 1e-7) and ib.shape == (n, n + 1) and np.abs(ib @ J @ v).max() <= 1e-7 * (1 + np.abs(ib).max()) * np.abs(v).max() \
                        and np.abs(np.einsum("ki,ij,kj->k", ib, J, ib)).max() <= 1e-7 * (1 + np.abs(ib).max() ** 2) and np.linalg.matrix_rank(ib, tol=1e-7) == n
                else:
                    ib = np.array(C.proj_data)[idx]
                    ok = ib.shape == (2, n + 1) and np.abs(ib @ J @ v).max() <= 1e-7 * (1 + np.abs(ib).max()) * np.abs(v).max() and np.linalg.matrix_rank(ib, tol=1e-7) == 2
                if not ok:
                    bad.append({"what": "hyperplane_family_unit", "constructor": name, "idx": list(idx),
                                "expected": "member idx is the hyperplane with the idx-th normal: that normal, and n independent lightlike vectors orthogonal to it"})
                    break
        if not bad:
            Rm = np.array(R.proj_data)
            for idx in np.ndindex(*shape):
                v = nrm[idx]
                want = np.identity(n + 1) - 2 * np.outer(J @ v, v) / (v @ J @ v)          # row convention: x -> x - 2<x,v>/<v,v> v
                U = H.Hyperplane(np.array(v)).reflection_across()
                if not (mats_proj_eq(Rm[idx], want, 1e-7) and mats_proj_eq(np.array(U.proj_data), want, 1e-7)):
                    bad.append({"what": "reflection_across_unit", "idx": list(idx), "expected": "member idx = the reflection in the idx-th normal"})
                    break
        if not bad:
            Hp = comp["Hyperplane(normals, normals_only=True)"]
            queries = [("spacelike_complement", lambda o: o.spacelike_complement().proj_data, "proj")] + \
                      [("sphere_parameters(%s)[%d]" % (m, k), (lambda o, m=m, k=k: o.sphere_parameters(model=m)[k]), "val") for m in ("poincare", "halfspace") for k in (0, 1)] + \
                      [("ideal_basis_coords(%s)" % m, (lambda o, m=m: o.ideal_basis_coords(m)), "val") for m in ("klein", "poincare")]
            for name, f, how in queries:
                with np.errstate(all="ignore"):
                    cv = np.array(f(fresh(Hp)), dtype=float)
                for idx in np.ndindex(*shape):
                    with np.errstate(all="ignore"):
                        uv = np.array(f(H.Hyperplane(np.array(Hp.proj_data[idx]))), dtype=float)
                    ok = cv.shape[:len(shape)] == shape and cv[idx].shape == uv.shape and \
                        (rows_proj_eq(cv[idx], uv, 1e-7) if how == "proj" else same_val(cv[idx], uv, 1e-6))
                    if not ok:
                        bad.append({"what": "hyperplane_query", "query": name, "idx": list(idx), "expected": "entry of the composite answer = the answer of the unit"})
                        break
                if bad:
                    break
    elif op == "sl2":
        A = g.normal(size=shape + (2, 2))
        det = A[..., 0, 0] * A[..., 1, 1] - A[..., 0, 1] * A[..., 1, 0]
        A = A / np.sqrt(np.abs(det))[..., None, None]
        maps = [("sl2_to_so21", lie.sl2_to_so21)] + [("sl2_irrep%d" % d, (lambda M, d=d: lie.sl2_irrep(M, d))) for d in (2, 3, 4, 5)] + \
               [("sl2_iso", lambda M: H.sl2_iso(M).proj_data), ("slc_to_slr", lie.slc_to_slr)]
        for name, f in maps:
            comp = np.asarray(f(A.copy()))
            if comp.shape[:-2] != shape:
                bad.append({"what": name + "_shape", "got": list(comp.shape)})
                continue
            for idx in np.ndindex(*shape):
                if not allclose(comp[idx], np.asarray(f(A[idx].copy())), 1e-9):
                    bad.append({"what": name, "idx": list(idx)})
                    break
    return {"bad": bad}


def gen_struct(rng, n):
    for c in range(n):
        kind = KINDS[c % len(KINDS)]
        cx = kind in CX_KINDS and rng.random() < 0.25
        shape = rng.choice([s for s in SHAPES if s])
        tot = int(np.prod(shape))
        facs = [f for f in ([tot], [1, tot], [tot, 1], [2, tot // 2] if tot % 2 == 0 else [tot], [3, tot // 3] if tot % 3 == 0 else [tot], [1, 1, tot])]
        yield {"op": "struct", "kind": kind, "cx": cx, "shape": shape, "n": rng.choice([2, 3]), "seed": rng.randrange(10 ** 9),
               "newshape": rng.choice(facs)}


def run_struct(inp):
    g = G(inp["seed"])
    kind, n, cx, shape = inp["kind"], inp["n"], inp["cx"], tuple(inp["shape"])
    X = mk(kind, g, shape, n, cx, scale=0.3)
    bad = []
    pd = np.array(X.proj_data)
    ad = None if X.aux_data is None else np.array(X.aux_data)
    u, au = X.unit_ndims, X.aux_ndims
    flat_idx = list(np.ndindex(*shape))

    def same_unit(obj, oidx, idx, what):
        if type(obj) is not type(X):
            bad.append({"what": what + "_type", "got": type(obj).__name__})
            return False
        if not data_proj_eq(kind, np.asarray(obj.proj_data)[oidx], pd[idx], 1e-12):
            bad.append({"what": what + "_proj", "idx": list(idx)})
            return False
        if ad is not None and not aux_proj_eq(kind, np.asarray(obj.aux_data)[oidx], ad[idx], 1e-7):
            bad.append({"what": what + "_aux", "idx": list(idx)})
            return False
        return True

    # flatten: unit number k of the flat object is the k-th unit in row-major order
    Fl = X.flatten_to_unit()
    if tuple(Fl.shape) != (len(flat_idx),):
        bad.append({"what": "flatten_shape", "got": list(Fl.shape)})
    else:
        for k, idx in enumerate(flat_idx):
            if not same_unit(Fl, (k,), idx, "flatten"):
                break
    # reshape
    ns = tuple(inp["newshape"])
    Rs = X.reshape(ns)
    if tuple(Rs.shape) != ns:
        bad.append({"what": "reshape_shape", "got": list(Rs.shape)})
    else:
        for nidx, idx in zip(np.ndindex(*ns), flat_idx):
            if not same_unit(Rs, nidx, idx, "reshape"):
                break
    # memory layouts (wave 6): an object built from a Fortran-ordered / strided / transposed view of the same coordinates
    # has the same units in the same (logical, row-major) order under flatten and reshape
    if not bad:
        tr = np.moveaxis(np.ascontiguousarray(np.moveaxis(pd, 0, -1)), -1, 0)      # coordinate-first storage, viewed units-first
        for lay, arr in (("fortran", np.asfortranarray(pd)), ("strided", np.repeat(pd, 2, axis=0)[::2]), ("transposed_view", tr)):
            with np.errstate(all="ignore"):
                Xl = type(X)(arr)
            for opn, D, dshape in (("flatten", Xl.flatten_to_unit(), (len(flat_idx),)), ("reshape", Xl.reshape(ns), ns)):
                if tuple(D.shape) != tuple(dshape):
                    bad.append({"what": opn + "_shape_layout", "layout": lay, "got": list(D.shape)})
                    continue
                for nidx, idx in zip(np.ndindex(*dshape), flat_idx):
                    if not data_proj_eq(kind, np.asarray(D.proj_data)[nidx], pd[idx], 1e-12):
                        bad.append({"what": opn + "_proj_layout", "layout": lay, "idx": list(idx),
                                    "expected": "units in row-major order whatever the memory layout of the array the object was built from"})
                        break
                    if ad is not None and D.aux_data is not None and not aux_proj_eq(kind, np.asarray(D.aux_data)[nidx], ad[idx], 1e-7):
                        bad.append({"what": opn + "_aux_layout", "layout": lay, "idx": list(idx)})
                        break
    # len / index / iterate
    if len(X) != shape[0]:
        bad.append({"what": "len", "got": len(X)})
    items = list(X)
    if len(items) != shape[0]:
        bad.append({"what": "iter_len", "got": len(items)})
    for k, it in enumerate(items):
        sub = X[k]
        if tuple(it.shape) != shape[1:] or tuple(sub.shape) != shape[1:]:
            bad.append({"what": "item_shape", "k": k, "got": list(it.shape)})
            break
        for ridx in np.ndindex(*shape[1:]):
            if not (same_unit(it, ridx, (k,) + ridx, "iter") and same_unit(sub, ridx, (k,) + ridx, "index")):
                break
    if len(shape) >= 2:
        idx = tuple(int(g.integers(0, d)) for d in shape)
        if not same_unit(X[idx], (), idx, "index_full"):
            pass
    # derived objects are objects of their own: editing one (item assignment, in-place queries) leaves the ORIGINAL's units and derived data alone
    if not cx:
        derived = [("flatten", X.flatten_to_unit()), ("reshape", X.reshape(ns)), ("copy", type(X)(X)), ("index", X[0]), ("iter", list(X)[-1])]
        if hasattr(X, "get_vertices"):
            derived.append(("get_vertices", X.get_vertices()))
        if hasattr(X, "get_endpoints"):
            derived.append(("get_endpoints", X.get_endpoints()))
        if kind not in ("transformation",):
            derived.append(("Point(obj)", (H.Point if isinstance(X, H.HyperbolicObject) else P.Point)(X)))
        circ0 = None
        if kind in ("segment", "geodesic") and n == 2:
            circ0 = [np.array(c) for c in fresh(X).circle_parameters()]
        for name, D in derived:
            try:
                src = np.array(D.proj_data)
                if tuple(D.shape):
                    D[0] = type(D)(np.array(src[-1]) * 2.0)      # an object as value
                    D[0] = np.array(src[-1]) * -1.5              # a raw array as value
                else:
                    D[...] = src * 2.5
                if hasattr(D, "hyperboloid_coords") and kind in ("point", "pair", "polygon", "simplex"):
                    D.hyperboloid_coords()
            except Exception as e:
                bad.append({"what": "derived_edit_raised", "derived": name, "exc": type(e).__name__, "msg": str(e)[:100]})
                continue
            if not rows_proj_eq(np.asarray(X.proj_data), pd, 1e-12) if kind != "transformation" else not np.array_equal(np.asarray(X.proj_data), pd):
                bad.append({"what": "original_changed_by_editing_derived", "derived": name, "block": "proj",
                            "expected": "the units of the original are unchanged after editing an object derived from it"})
                break
            if ad is not None and not aux_proj_eq(kind, np.asarray(X.aux_data), ad, 1e-9):
                bad.append({"what": "original_changed_by_editing_derived", "derived": name, "block": "aux"})
                break
            if ad is not None and not aux_proj_eq(kind, np.asarray(X.aux_data), fresh(X).aux_data, 1e-7):
                bad.append({"what": "original_aux_stale_after_editing_derived", "derived": name})
                break
        if not bad:
            why = fresh_diff(kind, X, n, 1e-6, mutate=True)
            if why:
                bad.append({"what": "original_differs_from_fresh_after_derived_objects", "query": why})
        if circ0 is not None and not bad:
            circ1 = [np.array(c) for c in fresh(X).circle_parameters()]
            if not all(same_val(a, b, 1e-7) for a, b in zip(circ0, circ1)):
                bad.append({"what": "original_circle_parameters_changed", "expected": "circle parameters of the original unchanged"})
    # stack: Cls([items...]) has the items as its units, in order
    St = type(X)(items)
    if tuple(St.shape) != shape:
        bad.append({"what": "stack_shape", "got": list(St.shape)})
    else:
        for idx in flat_idx:
            if not same_unit(St, idx, idx, "stack"):
                break
    return {"bad": bad}


def c04_oracles():
    return [
        Clause("points_per_unit", "oracle", gen_points, run_points, judge_bad, site="hyperbolic.Point.coords/distance/origin_to",
               budget={"quick": 150, "thorough": 3000},
               what="coords in each of the 5 models (get and set), distance (incl. broadcasting shapes), origin_to on composite points of rank 0-3 = per-unit loop"),
        Clause("apply_per_unit", "oracle", gen_apply, run_apply, judge_bad, site="projective.Transformation.apply",
               budget={"quick": 330, "thorough": 6000},
               what="T.apply(X, elementwise|pairwise|pairwise_reversed) for all 11 object kinds (real; complex for projective classes): type, composite shape law, "
                    "and result[idx] (primary and derived data) = transformation unit applied to object unit; pairwise entry [i][j] = transformation j on unit i"),
        Clause("vectorised_per_unit", "oracle", gen_construct, run_construct, judge_bad, site="hyperbolic.Segment/Polygon/TangentVector/Hyperplane/circle_parameters/sphere_parameters/fixed points, lie.sl2_*",
               budget={"quick": 240, "thorough": 4000},
               what="Segment/PointPair/Polygon/TangentVector construction, ideal endpoints, normalized/angle/origin_to/point_along, circle_parameters (segment, geodesic, polygon; "
                    "Poincare and half-space), horosphere sphere_parameters, fixed points/axis, vectorised sl2 maps: composite = per-unit loop; "
                    "mixed_kinds: composites of geodesics / segments / subspaces / horospheres / points mixing ordinary members with one exactly through the half-space point at "
                    "infinity and one exactly through the centre of the ball, sphere/circle parameters, ideal-basis, endpoint and point coordinates in BOTH models, member = single object "
                    "(finite exactly where the single answer is finite); hyperplane_family: Hyperplane(normals_only) / from_reflection (objects and matrices) / Geodesic.from_reflection / "
                    "reflection_across / copies, and their queries, per unit; every op also on composites whose last axis has exactly dim+1 members and on square (m,m) tables"),
        Clause("structure_units", "oracle", gen_struct, run_struct, judge_bad, site="projective.ProjectiveObject.flatten_to_unit/reshape/__getitem__/__len__/_construct_from_object",
               budget={"quick": 220, "thorough": 4000},
               what="flatten_to_unit, reshape, len, iteration, integer/tuple indexing, stacking Cls([items]) preserve units (primary and derived data) and row-major order, all 11 kinds"),
    ]
