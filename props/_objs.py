def c04_oracles():
    return []
