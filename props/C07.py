"""C07 — Coxeter automata accept exactly the geodesic / shortlex normal forms (DESIGN §4 C07).

LEVEL = "other": the central clause (accepted <=> reduced, for every Coxeter matrix) is NOT proved;
it is validated by a bounded comparison with an independent word-problem solver, which is a test.
"""
import math, itertools, time
from fractions import Fraction as F
import numpy as np
from vlib.runner import Clause
from vlib import q as Q
from props import _cox as X
from geometry_tools.automata import coxeter_automaton as CA

LEVEL = "other"
EXPLANATION = (
    "PROVED in Lean (structural clauses only): the model automaton is a partial DFA on states 0..N-1 with every "
    "target in range and is the tabulation of the run on small-root sets; no accepted word contains kk; every "
    "shortlex-accepted word is geodesic-accepted; the even-length variant (automaton_multiple's BFS included) accepts "
    "exactly the even-length accepted words; braid moves and ss-deletions preserve wordProd in Mathlib's "
    "CoxeterSystem and the executable certificate checker is sound, so a shortening move sequence certifies "
    "non-reducedness (discrepancies are replayed with a Lean-checked certificate). "
    "RANK 2 PROVED: accepted <=> reduced and shortlex = one lexicographically least word per element, for every m >= 2 "
    "and m = inf at the automaton level (hypothesis DihedralNb on the small-root table), end to end incl. findSmallRoots "
    "for m in {2,3,inf}. "
    "NOT PROVED for rank >= 3 (bounded TEST only): accepted <=> reduced, shortlex uniqueness/minimality, growth series, "
    "injectivity of the canonical images. The test compares the implementation's automata, for all words up to "
    "length L, with an independent Tits braid-move solver cross-checked against enumeration of the canonical "
    "representation. Correspondence: Python automaton == Lean model automaton up to BFS renumbering.")
ASSUMPTIONS = [
    "termination of find_small_roots (Brink-Howlett finiteness) is not proved: the model takes fuel",
    "for labels outside {2,3,inf} the model runs on the doubles math.cos produced (exactly converted), thresholds "
    "eps bracketed by 0.5e-6 and 2e-6; cases where the bracket runs differ are discarded as near-threshold",
    "the bounded oracle is a test: words up to length L only (L=8 rank<=3, 6 rank 4, 5 rank 5; +2 thorough)",
    "float canonical-representation keys rounded to 1e-6 (cross-check only; the primary solver is combinatorial)",
]

EPS = [F(1, 10 ** 6), F(1, 2 * 10 ** 6), F(2, 10 ** 6)]
ALPHA = [2, 3, 4, 5, 6, 7, 0]
R2 = X.all_matrices_up_to_relabelling(2, ALPHA)
R3 = X.all_matrices_up_to_relabelling(3, ALPHA)
MAX_MODEL_STATES = 1500
EVEN_CPU_LIMIT = 1.5
# CPU limits for building one automaton.  Rank <= 3: the construction takes < 0.1 s on every matrix over {2..7,inf}; a case
# exceeding 10 s is reported as a failure ("no automaton"; after the first such case the limit drops to 2 s, then 0.2 s, so
# that a tree on which the construction hangs everywhere is still reported within the time budget).  Rank >= 4: automata
# can legitimately have 10^4..10^5 states (25 s); a case exceeding 3 s (0.7 s after eight such cases) is *skipped* and counted, never reported.
_AUT = {"limit": 10.0, "hits": 0, "skips": 0}
BIG_CPU_LIMIT = 3.0


class NoAutomaton(Exception):
    pass


class Skipped(Exception):
    pass


def even_limited(factor, fn):
    """CPU-limited construction of even automata; after five cases that hit the limit the limit drops to 0.3 s, so that a
    tree on which automaton_multiple degenerates everywhere still finishes inside the time budget"""
    lim = factor * EVEN_CPU_LIMIT if _AUT.get("even_hits", 0) < 5 else 0.3
    done, val = X.limited(lim, fn)
    if not done:
        _AUT["even_hits"] = _AUT.get("even_hits", 0) + 1
    return done, val


def build_automaton(G, shortlex):
    rank = len(G.ordered_gens)
    if rank >= 4:
        lim = BIG_CPU_LIMIT if _AUT["skips"] < 8 else 0.7
        done, aut = X.limited(lim, lambda: G.automaton(shortlex=shortlex, even_length=False))
        if not done:
            _AUT["skips"] += 1
            raise Skipped()
        return aut
    done, aut = X.limited(_AUT["limit"], lambda: G.automaton(shortlex=shortlex, even_length=False))
    if not done:
        _AUT["hits"] += 1
        _AUT["limit"] = 2.0 if _AUT["hits"] < 10 else 0.2
        raise NoAutomaton("automaton construction exceeded the CPU limit (does find_small_roots terminate?)")
    return aut


def _variants(rng, M):
    """same matrix, infinite label written 0 / -1 / -3 at random"""
    return [[(rng.choice(X.INF) if x <= 0 else x) for x in row] for row in M]


def _sym(M):
    n = len(M)
    return [[M[i][j] if i <= j else M[j][i] for j in range(n)] for i in range(n)]


def _is_small(M):
    """cheap guard against finite/affine types of rank >= 4 whose automata have 10^4 states"""
    if len(M) < 4:
        return True
    p, neg, z, mn = X.signature(M)
    return neg >= 1


R3_LABELLED = [X.sym_matrix(3, list(l)) for l in itertools.product(ALPHA, repeat=3)]   # the shortlex language depends on the generator order


# irreducible and reducible finite (spherical) and affine types of rank 4 with small automata: A4, B4, D4, F4, A1xH3,
# affine A3~, B3~, C3~ (the random rank-4/5 samples are restricted to indefinite forms, because H4, B5, F4~ ... have
# 10^4..10^5 states)
SPECIAL4 = [X.sym_matrix(4, l) for l in ([3, 2, 2, 3, 2, 3], [3, 2, 2, 3, 2, 4], [3, 2, 2, 3, 3, 2], [3, 2, 2, 4, 2, 3],
                                         [2, 2, 2, 3, 2, 5], [3, 2, 3, 3, 2, 3], [2, 3, 2, 3, 2, 4], [4, 2, 2, 3, 2, 4])]


def _big(rng):
    if rng.random() < 0.12:
        M = rng.choice(SPECIAL4)
        p = list(range(4))
        rng.shuffle(p)
        return [[M[p[i]][p[j]] for j in range(4)] for i in range(4)]
    while True:
        r = rng.choice([4, 4, 4, 5])
        M = X.rand_matrix(rng, r, finite=(2, 7), p_inf=0.2, p_two=0.35)
        if _is_small(M):
            return M


def matrices(rng, n, exhaustive3=False):
    """the quantifier: all rank-2 and rank-3 matrices over {2..7,inf} (rank 3: every labelling when `exhaustive3`, else one
    random labelling per class and random further ones), samples of rank 4 and 5; infinity written 0/-1/-3 at random"""
    out = [[[1]]] + [_sym(_variants(rng, M)) for M in R2]       # rank 1 and rank 2 as well
    if exhaustive3:
        out += [_sym(_variants(rng, M)) for M in R3_LABELLED]
        out += SPECIAL4
        while len(out) < n:
            out.append(_big(rng))
        return out
    for M in R3:
        p = list(range(3))
        rng.shuffle(p)
        out.append(_sym(_variants(rng, [[M[p[i]][p[j]] for j in range(3)] for i in range(3)])))
    rng.shuffle(out)
    out = out[:max(0, n - n // 4)]
    while len(out) < n:
        out.append(_big(rng))
    rng.shuffle(out)
    return out


# ------------------------------------------------------------------------------------------------
def graph_of(fsa, names=None):
    """{state: {label: target}} with labels mapped back to generator indices where names are given"""
    g = {}
    inv = {nm: k for k, nm in enumerate(names)} if names else None
    for v, nb in fsa.graph_dict.items():
        g[v] = {(inv[l] if inv else l): t for l, t in nb.items()}
    return g


def canon_graph(g, start=0):
    """BFS renumbering from the start state, letters in sorted order; returns sorted edge list"""
    ids, order, edges = {start: 0}, [start], []
    i = 0
    while i < len(order):
        v = order[i]
        i += 1
        for l in sorted(g.get(v, {})):
            t = g[v][l]
            if t not in ids:
                ids[t] = len(order)
                order.append(t)
            edges.append([ids[v], l, ids[t]])
    return edges


def minimal_form(g, start=0):
    """Canonical form of the LANGUAGE of a partial DFA in which every state accepts and a missing edge rejects: restrict to the
    states reachable from `start`, merge states with the same continuation language (Moore partition refinement), renumber
    breadth-first.  Two such automata accept the same language iff their minimal forms are equal; state names, state numbering,
    vertex order, dict order and the number of states of the input do not matter."""
    reach, todo = {start}, [start]
    while todo:
        v = todo.pop()
        for t in g.get(v, {}).values():
            if t not in reach:
                reach.add(t)
                todo.append(t)
    block = {v: 0 for v in reach}
    while True:
        sig = {v: (block[v], tuple(sorted((repr(l), block[t]) for l, t in g.get(v, {}).items()))) for v in reach}
        ids = {}
        for v in sorted(reach, key=repr):
            ids.setdefault(sig[v], len(ids))
        new = {v: ids[sig[v]] for v in reach}
        if len(ids) == len(set(block.values())):
            break
        block = new
    q = {}
    for v in reach:
        q.setdefault(block[v], {l: block[t] for l, t in g.get(v, {}).items()})
    return canon_graph(q, block[start])


def start_of(aut):
    return aut.start_vertices[0]


def bfs_ids(aut, names):
    """the breadth-first renumbering of the states used by `table_of` (state -> row index)"""
    g = graph_of(aut, names)
    ids, order = {start_of(aut): 0}, [start_of(aut)]
    i = 0
    while i < len(order):
        for l in sorted(g.get(order[i], {})):
            t = g[order[i]][l]
            if t not in ids:
                ids[t] = len(order)
                order.append(t)
        i += 1
    return ids


def table_of(aut, names):
    """transition table (rows = states renumbered breadth-first from the start state, columns = generator indices)"""
    g = graph_of(aut, names)
    ids, order = {start_of(aut): 0}, [start_of(aut)]
    i = 0
    while i < len(order):
        for l in sorted(g.get(order[i], {})):
            t = g[order[i]][l]
            if t not in ids:
                ids[t] = len(order)
                order.append(t)
        i += 1
    n = len(names)
    return [[(ids[g[v][k]] if k in g.get(v, {}) else None) for k in range(n)] for v in order]


def table_graph(tab):
    return {s: {k: t for k, t in enumerate(row) if t is not None} for s, row in enumerate(tab)}


def form_json(M):
    """what generate_automaton_coxeter_matrix computes: -cos(pi/m) (m>0) else -1; exact where rational"""
    out, rational = [], True
    for row in M:
        r = []
        for m in row:
            if m <= 0:
                r.append("-1")
            elif m in (1, 2, 3):
                r.append({1: "1", 2: "0", 3: "-1/2"}[m])
            else:
                rational = False
                r.append(Q.qs(-math.cos(math.pi / m)))
        out.append(r)
    return out, rational


# ------------------------------------------------------------------------------------------------ corr
def gen_aut(rng, n):
    for M in matrices(rng, n):
        spec = X.rand_spec(rng, M, allow_multichar=True)
        yield {"spec": spec, "lex": rng.random() < 0.5}


def run_aut(inp):
    G = X.build_group(inp["spec"])
    names = list(G.ordered_gens)
    try:
        aut = build_automaton(G, inp["lex"])
    except Skipped:
        return {"skipped": "large"}
    g = graph_of(aut, names)
    M = np.asarray(G.coxeter_matrix).tolist()
    # supporting evidence only (internal helper, may be reorganised freely): the small roots, if the helper still exists
    roots = None
    try:
        form = [[-math.cos(math.pi / m) if m > 0 else -1 for m in row] for row in M]
        sr = CA.find_small_roots(form)
        roots = [{"v": [float(x) for x in r.v], "nb": [x.id if x else None for x in r.neighbors]} for r in sr]
    except Exception:
        pass
    return {"M": M, "names": names, "minimal": minimal_form(g, start_of(aut)), "edges": canon_graph(g, start_of(aut)),
            "nstates": len(aut.graph_dict), "roots": roots, "n_starts": len(aut.start_vertices)}


def lean_aut(inp, obs):
    if "exc" in obs or "skipped" in obs or obs["nstates"] > MAX_MODEL_STATES:
        return []
    Mx, _ = X.expected_matrix_and_names(inp["spec"])
    fj, rational = form_json(Mx)
    eps = EPS + ([F(0)] if rational else [])
    return [{"op": "c07.automaton", "n": len(Mx), "form": fj, "eps": Q.qs(e), "lex": inp["lex"], "fuel": 2000,
             "outer": 20000, "bfs": 4 * MAX_MODEL_STATES} for e in eps]


def judge_aut(inp, obs, lr):
    tags = {"lex": inp["lex"], "rank": len(inp["spec"]["M"])}
    if "exc" in obs:
        return {"expected": "an automaton", "observed": obs, "tags": {**tags, "exc": obs["exc"]}, "property_failure": True}
    if "skipped" in obs:
        return None
    Mx, names = X.expected_matrix_and_names(inp["spec"])
    if obs["M"] != Mx or obs["names"] != names:
        return {"expected": {"M": Mx, "names": names}, "observed": {"M": obs["M"], "names": obs["names"]}, "tags": {**tags, "constructor": True}}
    if obs["n_starts"] != 1:
        return {"expected": "one start state", "observed": obs["n_starts"], "tags": {**tags, "start": True}}
    if not lr:
        return None      # too large for the interpreted model: counted in the evidence as not compared
    for r in lr:
        if "err" in r:
            return {"expected": "model automaton", "observed": r, "tags": {**tags, "driver_err": r["err"][:40]}}
    res = [r["ok"] for r in lr]
    mf = [minimal_form(table_graph(r["table"])) for r in res]
    if mf[1] != mf[2]:
        return None      # near-threshold: the bracket runs disagree, case discarded
    if len(res) == 4 and mf[3] != mf[0]:
        return {"expected": "eps=0 and eps=1e-6 agree on rational forms", "observed": "they differ", "tags": {**tags, "eps0": True}}
    # the tie is at the level of the accepted LANGUAGE: minimal DFA of the model = minimal DFA of the implementation
    if mf[0] != obs["minimal"]:
        same_roots = None
        if obs.get("roots") is not None:
            same_roots = [x["nb"] for x in res[0]["roots"]] == [x["nb"] for x in obs["roots"]]
        return {"expected": {"minimal DFA of the model (BFS-renumbered)": mf[0][:40], "states_of_model": res[0]["nstates"]},
                "observed": {"minimal DFA of the implementation": obs["minimal"][:40], "states": obs["nstates"],
                             "supporting: small-root neighbour tables equal": same_roots},
                "tags": {**tags, "what": "automaton-language"}}
    return None


def _rand_word(rng, rank, length):
    """random word in generator indices; two times out of three without immediate repetitions (so that a fair share is accepted)"""
    w, norep = [], rng.random() < 0.67
    for _ in range(length):
        k = rng.randrange(rank)
        if norep and rank > 1 and w and k == w[-1]:
            k = (k + 1 + rng.randrange(rank - 1)) % rank
        w.append(k)
    return w


def gen_even(rng, n):
    for M in matrices(rng, n):
        spec = X.rand_spec(rng, M, allow_multichar=True)
        lex = rng.random() < 0.5
        rank = len(M)
        # words followed in the plain automaton (Table.follow vs follow_word) and sequences of 2-letter labels followed in the
        # even automaton (EvenG.follow / follow2 / unblock vs accepts of the even automaton and follow_word of the plain one)
        words = [[]] + [_rand_word(rng, rank, rng.randrange(1, 8)) for _ in range(5)]
        pairs = [[]] + [[[w[2 * i], w[2 * i + 1]] for i in range(len(w) // 2)]
                        for w in (_rand_word(rng, rank, 2 * rng.randrange(1, 4)) for _ in range(4))]
        yield {"spec": spec, "lex": lex, "words": words, "pairs": pairs}


def run_even(inp):
    G = X.build_group(inp["spec"])
    names = list(G.ordered_gens)
    try:
        aut = build_automaton(G, inp["lex"])
    except Skipped:
        return {"skipped": "large"}
    # automaton_multiple re-expands vertices that are queued more than once: its running time is exponential in the
    # depth for large automata (a performance problem, not a language error) -> CPU-time limit, case skipped when hit
    done, ev = even_limited(1, lambda: G.automaton(shortlex=inp["lex"], even_length=True))
    if not done:
        return {"skipped": "even_automaton exceeded the CPU limit", "nstates": len(aut.graph_dict)}
    n = len(names)
    tab = table_of(aut, names)
    lab = {names[a] + names[b]: a * n + b for a in range(n) for b in range(n)}
    unknown = sorted({str(l) for nb in ev.graph_dict.values() for l in nb if l not in lab})
    if unknown:
        return {"table": tab, "even": None, "unknown_labels": unknown[:5], "n": n}
    g = {v: {lab[l]: t for l, t in nb.items()} for v, nb in ev.graph_dict.items()}
    out = {"table": tab, "even": minimal_form(g, start_of(ev)), "n_starts": len(ev.start_vertices), "n": n}
    if "words" in inp:
        ids = bfs_ids(aut, names)

        def end(a, word):
            try:
                return ids[a.follow_word(word)]
            except Exception as e:
                if type(e).__name__ == "FSAException":
                    return None
                raise
        out["follow"] = [end(aut, [names[k] for k in w]) for w in inp["words"]]
        out["pair_follow"] = [end(aut, [names[k] for p in ps for k in p]) for ps in inp["pairs"]]
        out["even_accepts"] = [bool(ev.accepts([names[a] + names[b] for a, b in ps])) for ps in inp["pairs"]]
    return out


def lean_even(inp, obs):
    if "exc" in obs or "skipped" in obs or len(obs["table"]) > MAX_MODEL_STATES:
        return []
    ops = [{"op": "c07.even", "rank": obs["n"], "table": obs["table"], "fuel": 100000}]
    if "follow" in obs:
        ops.append({"op": "c07.follow", "rank": obs["n"], "table": obs["table"], "fuel": 100000, "words": inp["words"],
                    "pairs": inp["pairs"]})
    return ops


def judge_even(inp, obs, lr):
    if "exc" in obs:
        return {"expected": "even automaton", "observed": obs, "tags": {"exc": obs["exc"]}, "property_failure": True}
    if "unknown_labels" in obs:
        return {"expected": "every label of the even automaton is the concatenation of two generator names of this group",
                "observed": obs["unknown_labels"], "tags": {"what": "even-labels"}, "property_failure": True}
    if not lr or "skipped" in obs:
        return None
    if "err" in lr[0]:
        return {"expected": "model answer", "observed": lr[0], "tags": {"driver_err": lr[0]["err"][:40]}}
    n = obs["n"]
    g = {v: {a * n + b: t for a, b, t in es} for v, es in lr[0]["ok"]}
    if minimal_form(g, 0) != obs["even"] or obs["n_starts"] != 1:
        return {"expected": {"minimal DFA of the model's even automaton": minimal_form(g, 0)[:40]}, "observed": obs["even"][:40],
                "tags": {"what": "even-language"}}
    if len(lr) > 1 and "follow" in obs:
        if "err" in lr[1]:
            return {"expected": "model answer", "observed": lr[1], "tags": {"driver_err": lr[1]["err"][:40], "what": "follow"}}
        r = lr[1]["ok"]
        # Table.follow = follow_word (end state, in the breadth-first numbering of the table)
        if r["follow"] != obs["follow"]:
            return {"expected": {"model Table.follow": r["follow"]}, "observed": {"follow_word": obs["follow"], "words": inp["words"]},
                    "tags": {"what": "follow-word"}}
        for ps, e, pf, acc in zip(inp["pairs"], r["even"] or [], obs["pair_follow"], obs["even_accepts"]):
            flat = [k for p in ps for k in p]
            if e["unblock"] != flat or e["follow2"] != pf or (e["even"] is not None) != acc or e["even"] != e["follow2"]:
                return {"expected": {"model": e}, "observed": {"labels": ps, "follow_word of the concatenation": pf,
                                                               "even automaton accepts": acc},
                        "tags": {"what": "even-follow"}}
    return None


# ------------------------------------------------------------------------------------------------
# independent word-problem solver: Tits' theorem.  A word is reduced iff no word in its braid class
# (braid moves only) contains a square kk; the reduced expressions of one element form one braid class.
def braid_neighbours(w, M):
    n = len(w)
    for p in range(n - 1):
        a, b = w[p], w[p + 1]
        if a == b:
            continue
        m = M[a][b]
        if m <= 0 or p + m > n:
            continue
        if all(w[p + t] == (a if t % 2 == 0 else b) for t in range(m)):
            yield w[:p] + tuple((b if t % 2 == 0 else a) for t in range(m)) + w[p + m:]


def braid_class(w, M):
    seen, todo = {w}, [w]
    while todo:
        u = todo.pop()
        for v in braid_neighbours(u, M):
            if v not in seen:
                seen.add(v)
                todo.append(v)
    return seen


def certificate(w, M):
    """shortest sequence of braid moves from w to a word with a square, then the deletion of that square:
    [["b", pos], ..., ["s", pos]] (positions as the Lean checker `checkCert` expects), or None"""
    w = tuple(w)
    prev, todo = {w: None}, [w]
    while todo:
        nxt = []
        for u in todo:
            if has_square(u):
                steps = [["s", next(i for i in range(len(u) - 1) if u[i] == u[i + 1])]]
                while prev[u] is not None:
                    u, pos = prev[u]
                    steps.append(["b", pos])
                return steps[::-1]
            n = len(u)
            for p in range(n - 1):
                a, b = u[p], u[p + 1]
                if a == b:
                    continue
                m = M[a][b]
                if m <= 0 or p + m > n or not all(u[p + t] == (a if t % 2 == 0 else b) for t in range(m)):
                    continue
                v = u[:p] + tuple((b if t % 2 == 0 else a) for t in range(m)) + u[p + m:]
                if v not in prev:
                    prev[v] = (u, p)
                    nxt.append(v)
        todo = nxt
    return None


def has_square(w):
    return any(w[i] == w[i + 1] for i in range(len(w) - 1))


def tits_solver(M, L):
    """returns list by length of {class (frozenset of reduced words)}; each class = one group element"""
    n = len(M)
    levels = [[frozenset([()])]]
    for ell in range(L):
        seen_words, classes = set(), []
        for cls in levels[-1]:
            # all words of a class are the reduced expressions of ONE element g: g s_k is reduced or not independently of
            # the expression chosen, and the class of u.k contains u'.k for every u' in the class (Matsumoto/Tits)
            u = min(cls)
            for k in range(n):
                w = u + (k,)
                if w in seen_words:
                    continue
                c = braid_class(w, M)
                if any(has_square(v) for v in c):
                    continue          # not reduced (Tits)
                seen_words |= c
                classes.append(frozenset(c))
        levels.append(classes)
    return levels


def oracle_L(rank, tier):
    base = {1: 3, 2: 10, 3: 8, 4: 6}.get(rank, 5)
    return base + (2 if tier == "thorough" else 0)


def _tier():
    import os, sys
    if "--tier" in sys.argv:
        return sys.argv[sys.argv.index("--tier") + 1]
    return os.environ.get("VERIF_TIER", "quick")


def gen_lang(rng, n):
    tier = _tier()
    if tier != "thorough":
        n = min(n, 600)      # the runner's escalated search asks for 10x; the exhaustive part is already in the first 358
    nexh = 1 + len(R2) + len(R3_LABELLED) + len(SPECIAL4)
    ms = matrices(rng, n, exhaustive3=True)
    # a few rank-3 cases through the diagram route as well (the exhaustive block keeps the matrix route, so that every
    # labelling is really visited)
    ms += [rng.choice(R3_LABELLED) for _ in range(15)]
    for idx, M in enumerate(ms):
        # both constructor routes: the solver works on the matrix / generator order the *input* prescribes
        spec = X.rand_spec(rng, M, allow_multichar=False) if (idx >= nexh and rng.random() < 0.6) else \
            {"route": "matrix", "M": M, "style": rng.choice(["alpha", "alphanum"])}
        Mx, _ = X.expected_matrix_and_names(spec)
        yield {"M": Mx, "spec": spec, "style": spec.get("style", "alpha"), "L": oracle_L(len(M), tier),
               "buffer": rng.random() < 0.3, "order": rng.sample(range(3), 3),
               # dtype of the Coxeter matrix handed to the constructor (matrix route): packaging must not matter
               "dtype": rng.choice(["int64", "int64", "float32", "float32", "float64", "int8", "object", "float16"])}


def accepted(aut, names, L, even=False):
    """accepted words up to length L as tuples of generator indices (independent of enumerate_words: direct DFS on graph_dict),
    plus the library's own enumerate_words for comparison"""
    inv = {nm: k for k, nm in enumerate(names)}
    n = len(names)
    if even:
        inv = {names[a] + names[b]: (a, b) for a in range(n) for b in range(n)}
    out = set()
    stack = [(aut.start_vertices[0], ())]
    while stack:
        v, w = stack.pop()
        out.add(w)
        if len(w) >= L:
            continue
        for l, t in aut.graph_dict.get(v, {}).items():
            if l not in inv:
                out.add(("unknown label", str(l)))      # shows up as a language difference
                continue
            stack.append((t, w + (inv[l] if even else (inv[l],))))
    return out


def run_lang(inp):
    from geometry_tools import coxeter
    M, L = inp["M"], inp["L"]
    n = len(M)
    if "spec" in inp and inp["spec"]["route"] == "matrix" and inp.get("buffer"):
        # the caller's array is edited in place after the group has been constructed
        work = np.array(M)
        G = coxeter.CoxeterGroup(matrix=work, generator_style=inp["style"])
        work[...] = 2
        np.fill_diagonal(work, 1)
        names = X.expected_matrix_and_names(inp["spec"])[1]
    elif "spec" in inp and inp["spec"]["route"] == "matrix":
        dt = {"int64": np.int64, "float32": np.float32, "float64": np.float64, "int8": np.int8, "object": object,
              "float16": np.float16}[inp.get("dtype", "int64")]
        G = coxeter.CoxeterGroup(matrix=np.array(M, dtype=dt), generator_style=inp["style"])
        names = X.expected_matrix_and_names(inp["spec"])[1]
    elif "spec" in inp:
        G = X.build_group(inp["spec"])
        names = X.expected_matrix_and_names(inp["spec"])[1]       # prescribed by the input, not read from the library
    else:
        G = coxeter.CoxeterGroup(matrix=np.array(M), generator_style=inp["style"])
        names = list(G.ordered_gens)
    # the three kinds of request are made on the same object in a random order
    geo = lex = None
    done, evs = True, None
    try:
        for step in inp.get("order", [0, 1, 2]):
            if step == 0:
                geo = build_automaton(G, False)
            elif step == 1:
                lex = build_automaton(G, True)
            else:
                done, evs = even_limited(2, lambda: (G.automaton(shortlex=False, even_length=True),
                                                     G.automaton(shortlex=True, even_length=True)))
    except Skipped:
        return {"skipped": "large", "bad": {}}
    A_geo, A_lex = accepted(geo, names, L), accepted(lex, names, L)
    if done:
        labs = {names[a] + names[b] for a in range(n) for b in range(n)}
        stray = sorted({str(l) for e in evs for nbrs in e.graph_dict.values() for l in nbrs if l not in labs})
        if stray:
            bad_even_labels = stray[:5]
            done = False
        else:
            bad_even_labels = None
            A_geo_e, A_lex_e = accepted(evs[0], names, L - L % 2, even=True), accepted(evs[1], names, L - L % 2, even=True)
    else:
        bad_even_labels = None
    levels = tits_solver(M, L)
    reduced = set().union(*[set().union(*lv) if lv else set() for lv in levels])
    nf = {min(c) for lv in levels for c in lv}
    out = {"growth_solver": [len(lv) for lv in levels]}
    bad = {}
    if A_geo != reduced:
        d1, d2 = sorted(A_geo - reduced), sorted(reduced - A_geo)
        bad["geodesic"] = {"accepted_not_reduced": d1[:3], "reduced_not_accepted": d2[:3]}
        if d1:
            # certificate: braid class member with a square
            # certificate of non-reducedness for the first such word, checked by the Lean `checkCert` (c07.cert)
            bad["geodesic"]["certificate"] = {"word": list(d1[0]), "steps": certificate(d1[0], M)}
    if A_lex != nf:
        bad["shortlex"] = {"accepted_not_normal_form": sorted(A_lex - nf)[:3], "normal_form_not_accepted": sorted(nf - A_lex)[:3]}
    if bad_even_labels:
        bad["even"] = {"labels_that_are_not_products_of_two_generator_names": bad_even_labels}
    ev_geo = {w for w in A_geo if len(w) % 2 == 0}
    ev_lex = {w for w in A_lex if len(w) % 2 == 0}
    if done and (A_geo_e != ev_geo or A_lex_e != ev_lex):
        bad["even"] = {"geo_diff": sorted(A_geo_e ^ ev_geo)[:3], "lex_diff": sorted(A_lex_e ^ ev_lex)[:3]}
    # the library's own enumeration agrees with the direct traversal (single-character names only)
    # G13 entry points: the module-level function on the Coxeter matrix is the same language as the method
    for lexflag, a in ((False, geo), (True, lex)):
        tw = CA.generate_automaton_coxeter_matrix(np.array(M), lexflag)
        if minimal_form(graph_of(tw), start_of(tw)) != minimal_form(graph_of(a, names), start_of(a)):
            bad["module_level_twin"] = {"lex_reduced": lexflag}
    # G14 boundaries: maxlen 0 and the empty word
    if list(lex.enumerate_words(0)) != [""] or not lex.accepts([]) or not geo.accepts([]):
        bad["empty_word"] = True
    # documented defaults: automaton() is the shortlex automaton, not the even-length variant
    dflt = G.automaton()
    if accepted(dflt, names, min(L, 5)) != {w for w in A_lex if len(w) <= min(L, 5)}:
        bad["defaults"] = "automaton() differs from automaton(shortlex=True, even_length=False)"
    if all(len(x) == 1 for x in names):
        lib = set(lex.enumerate_words(L))
        mine = {"".join(names[k] for k in w) for w in A_lex}
        if lib != mine:
            bad["enumerate_words"] = sorted(lib ^ mine)[:3]
        if done:
            libe = set(evs[1].enumerate_words((L - L % 2) // 2))
            minee = {"".join(names[k] for k in w) for w in A_lex if len(w) % 2 == 0}
            if libe != minee:
                bad["enumerate_words_even"] = sorted(libe ^ minee)[:3]
    # FSA.accepts on every word up to length 4 (letters passed as a list of generator names)
    for l in range(min(L, 4) + 1):
        for w in itertools.product(range(n), repeat=l):
            if geo.accepts([names[k] for k in w]) != (w in reduced) or lex.accepts([names[k] for k in w]) != (w in nf):
                bad.setdefault("accepts", []).append(list(w))
    if "accepts" in bad:
        bad["accepts"] = bad["accepts"][:3]
    growth_lex = [sum(1 for w in A_lex if len(w) == l) for l in range(L + 1)]
    # cross-check with the canonical representation: Cayley ball by matrix enumeration, float keys
    can = G.canonical_representation()
    gens = [np.asarray(can.generators[g], dtype=float) for g in names]
    key = lambda A: tuple(np.round(A, 6).reshape(-1) + 0.0)
    ball = {key(np.eye(n)): 0}
    frontier = [np.eye(n)]
    growth_mat = [1]
    for l in range(1, L + 1):
        new = []
        for A in frontier:
            for g in gens:
                Bm = A @ g
                kk = key(Bm)
                if kk not in ball:
                    ball[kk] = l
                    new.append(Bm)
        frontier = new
        growth_mat.append(len(new))
    if growth_lex != out["growth_solver"] or growth_lex != growth_mat:
        bad["growth"] = {"shortlex_counts": growth_lex, "solver": out["growth_solver"], "matrix_enumeration": growth_mat}
    # distinct shortlex words -> distinct canonical images; geodesic words of one element -> one image, at distance |w|
    img = {}
    for w in sorted(A_lex):
        A = np.eye(n)
        for k in w:
            A = A @ gens[k]
        kk = key(A)
        if kk in img:
            bad["injective"] = {"words": [list(img[kk]), list(w)]}
            break
        img[kk] = w
        if ball.get(kk) != len(w):
            bad["length"] = {"word": list(w), "cayley_distance": ball.get(kk)}
            break
    # via the public API as well
    if A_lex:
        w = max(A_lex)
        s, simple = X.word_str(names, list(w))
        A1 = np.asarray(X.rep_word(can, names, list(w)), dtype=float)
        if key(A1) not in img:
            bad["api_image"] = {"word": list(w)}
    out["bad"] = bad
    out["even_checked"] = done
    out["growth_lex"] = growth_lex
    out["n_reduced"] = len(reduced)
    return out


def lean_lang(inp, obs):
    c = (obs.get("bad") or {}).get("geodesic", {}).get("certificate") if isinstance(obs, dict) else None
    if not c or not c.get("steps"):
        return []
    M0 = [[(x if x > 0 else 0) for x in row] for row in inp["M"]]
    return [{"op": "c07.cert", "M": M0, "word": c["word"], "steps": c["steps"]}]


def judge_lang(inp, obs, lr):
    if "exc" in obs:
        return {"expected": "automata", "observed": obs, "tags": {"exc": obs["exc"]}}
    if obs["bad"]:
        if lr:
            obs["bad"]["geodesic"]["certificate"]["lean_checkCert"] = lr[0]
        pref = ["geodesic", "shortlex", "even", "growth", "injective", "length", "accepts", "enumerate_words", "enumerate_words_even", "module_level_twin", "empty_word", "defaults", "api_image"]
        what = sorted(obs["bad"], key=lambda k: pref.index(k) if k in pref else 99)[0]
        return {"expected": {"geodesic": "accepted words = reduced words", "shortlex": "accepted = least reduced expression of each element",
                             "even": "even automaton = even-length accepted words", "growth": "counts = growth series",
                             "injective": "distinct shortlex words have distinct canonical images"}.get(what, what),
                "observed": obs["bad"], "tags": {"what": what, "rank": len(inp["M"])}}
    return None


# ---- rank 2: the conclusion of the Lean theorems accepts_iff_reduced_rank2 / shortlex_rank2, on the implementation --------
def gen_r2(rng, n):
    for m in list(range(2, 13)) + [0, -1, -2]:
        yield {"m": m}


def _dihedral_structure(m):
    """supporting evidence only (internal helper, never a reason for a violation): does the implementation's small-root table
    have the structure `DihedralNb m nb ang` that the Lean theorems assume?  None when the helper is not there any more."""
    try:
        c0 = -math.cos(math.pi / m) if m > 0 else -1
        sr = CA.find_small_roots([[1.0, c0], [c0, 1.0]])
        v = [[float(x) for x in r.v] for r in sr]
        nb = [[x.id if x else None for x in r.neighbors] for r in sr]
        if m <= 0:
            return nb == [[None, None], [None, None]]
        if len(nb) != m:
            return False
        c, s_ = math.cos(math.pi - math.pi / m), math.sin(math.pi - math.pi / m)
        ang = [int(round(math.atan2(y * s_, x + y * c) * m / math.pi)) for x, y in v]
        ok = ang[0] == 0 and ang[1] == m - 1 and sorted(ang) == list(range(m))
        for p in range(m):
            a = ang[p]
            e0 = None if a == 0 else ang.index(m - a) if (m - a) in ang else "?"
            e1 = None if a == m - 1 else ang.index(m - 2 - a) if (m - 2 - a) in ang else "?"
            ok = ok and nb[p] == [e0, e1]
        return bool(ok)
    except Exception:
        return None


def run_r2(inp):
    from geometry_tools import coxeter
    m = inp["m"]
    G = coxeter.CoxeterGroup(matrix=np.array([[1, m], [m, 1]]))
    names = list(G.ordered_gens)
    L = (m + 3) if m > 0 else 14
    alt = lambda a, l: tuple((a + i) % 2 for i in range(l))
    geo = {alt(a, l) for a in (0, 1) for l in range(L + 1) if m <= 0 or l <= m}
    lex = {w for w in geo if not (m > 0 and len(w) == m and w[0] == 1)}
    return {"geo_ok": accepted(G.automaton(shortlex=False), names, L) == geo,
            "lex_ok": accepted(G.automaton(shortlex=True), names, L) == lex,
            "supporting_DihedralNb": _dihedral_structure(m)}


def judge_r2(inp, obs, lr):
    if "exc" in obs:
        return {"expected": "automata of a dihedral group", "observed": obs, "tags": {"exc": obs["exc"], "m": inp["m"]}}
    if not (obs["geo_ok"] and obs["lex_ok"]):
        return {"expected": "rank 2 (proved for the model): geodesic = alternating words of length <= m; shortlex = the same minus "
                            "the word 1 0 1 ... of length m", "observed": obs, "tags": {"m": inp["m"], "what": "rank2-language"}}
    return None


# ---- rank 2, correspondence: the model pipeline with the constants of the end-to-end theorems ----------------------
R2_COS = {2: "0", 3: "-1/2"}


def gen_r2corr(rng, n):
    for m in (2, 3, 0, -1, -3):
        for lex in (False, True):
            for eps in ("eps0", "eps6"):
                yield {"m": m, "lex": lex, "eps": eps}


def run_r2corr(inp):
    from geometry_tools import coxeter
    m = inp["m"]
    G = coxeter.CoxeterGroup(matrix=np.array([[1, m], [m, 1]]))
    names = list(G.ordered_gens)
    aut = G.automaton(shortlex=inp["lex"], even_length=False)
    g = graph_of(aut, names)
    return {"minimal": minimal_form(g, start_of(aut)), "nstates": len(aut.graph_dict), "n_starts": len(aut.start_vertices)}


def lean_r2corr(inp, obs):
    if "exc" in obs:
        return []
    return [{"op": "c07.rank2", "c": R2_COS.get(inp["m"], "-1"), "eps": inp["eps"], "lex": inp["lex"]}]


def judge_r2corr(inp, obs, lr):
    tags = {"m": inp["m"], "lex": inp["lex"], "eps": inp["eps"]}
    if "exc" in obs:
        return {"expected": "automaton of a dihedral group", "observed": obs, "tags": {**tags, "exc": obs["exc"]}, "property_failure": True}
    if "err" in lr[0]:
        return {"expected": "model answer within the fuel 8/8/16 of the theorems", "observed": lr[0], "tags": {**tags, "driver_err": lr[0]["err"][:40]}}
    r = lr[0]["ok"]
    if r["eps"] != {"eps0": "0", "eps6": "1/1000000"}[inp["eps"]]:
        return {"expected": "threshold constant of the theorems", "observed": r["eps"], "tags": {**tags, "what": "eps-constant"}}
    mf = minimal_form(table_graph(r["table"]))
    if mf != obs["minimal"] or obs["n_starts"] != 1:
        return {"expected": {"minimal DFA of coxeterAutomaton eps (form2 c) 8 8 16 lex": mf, "small roots": r["roots"]},
                "observed": {"minimal DFA of the implementation": obs["minimal"], "states": obs["nstates"]},
                "tags": {**tags, "what": "rank2-automaton-language"}}
    return None


# ---- sessions: generic defences G1-G4 for the automata -------------------------------------------------------------
def gen_session(rng, n):
    for _ in range(n):
        rank = rng.choice([1, 2, 3, 3])
        members = []
        for _m in range(rng.choice([2, 3])):
            M = [[1]] if rank == 1 else _sym(_variants(rng, rng.choice(R2 if rank == 2 else R3_LABELLED)))
            ctor = rng.choice([c for c in X.CTORS if rank > 1 or not c.startswith("diagram")])
            members.append({"M": M, "ctor": ctor, "style": rng.choice(["alpha", "alphanum"])})
        steps = [{"g": rng.randrange(len(members)), "lex": rng.random() < 0.5, "even": rng.random() < 0.4,
                  "scribble": rng.choice([None, None, "delete", "rename", "clear", "add"])} for _ in range(rng.choice([5, 7, 9]))]
        yield {"rank": rank, "members": members, "steps": steps}


def _aut_graph(aut, names, even):
    n = len(names)
    lab = {names[a] + names[b]: a * n + b for a in range(n) for b in range(n)} if even else {nm: k for k, nm in enumerate(names)}
    g = {}
    for v, nb in aut.graph_dict.items():
        g[v] = {(lab[l] if l in lab else "?" + str(l)): t for l, t in nb.items()}
    return [minimal_form(g, start_of(aut)) if all(not isinstance(l, str) for nb in g.values() for l in nb)
            else sorted(map(str, g.items())), len(aut.start_vertices)]


def run_session(inp):
    from geometry_tools import coxeter
    rank = inp["rank"]
    work = np.ones((rank, rank), dtype=int)
    keep, objs = [], []
    for mem in inp["members"]:
        G, names = X.construct(mem, rank, work, keep)
        objs.append((G, names, mem["M"]))
    work[...] = 2
    np.fill_diagonal(work, 1)
    for obj in keep:
        if isinstance(obj, np.ndarray):
            obj[...] = 3
        else:
            for row in obj:
                row[-1] = 3
    alpha = ["abcdefgh"[i] for i in range(rank)]
    res = []
    for si, st in enumerate(inp["steps"]):
        G, names, M = objs[st["g"]]
        lim = 3.0 if _AUT.get("session_hits", 0) < 2 else 0.2     # rank <= 3: milliseconds on a healthy tree
        done, aut = X.limited(lim, lambda: G.automaton(shortlex=st["lex"], even_length=st["even"]))
        if not done:
            _AUT["session_hits"] = _AUT.get("session_hits", 0) + 1
            res.append({"step": si, "M": M, "slow": True})
            break
        got = _aut_graph(aut, names, st["even"])
        ref = _aut_graph(coxeter.CoxeterGroup(matrix=np.array(M)).automaton(shortlex=st["lex"], even_length=st["even"]), alpha, st["even"])
        res.append({"step": si, "M": M, "lex": st["lex"], "even": st["even"], "same": got == ref,
                    "got": None if got == ref else str(got)[:300], "ref": None if got == ref else str(ref)[:300]})
        # the caller does what it likes with the automaton it was handed
        verts = list(aut.graph_dict)
        if st["scribble"] == "delete" and len(verts) > 1:
            aut.delete_vertex(verts[-1])
        elif st["scribble"] == "rename":
            labs = sorted({l for nb in aut.graph_dict.values() for l in nb})
            aut.rename_generators({l: "z" + str(i) for i, l in enumerate(labs)})
        elif st["scribble"] == "clear":
            for nb in aut.graph_dict.values():
                nb.clear()
        elif st["scribble"] == "add":
            aut.add_edges([(verts[0], verts[0], "zz")])
    return {"res": res}


def judge_session(inp, obs, lr):
    if "exc" in obs:
        return {"expected": "a session without exceptions", "observed": obs, "tags": {"exc": obs["exc"], "session": True}}
    for r in obs["res"]:
        if r.get("slow"):
            return {"expected": "automaton of a rank <= 3 group within 3 s CPU", "observed": r, "tags": {"session": True, "slow": True}}
        if not r["same"]:
            return {"expected": "the automaton of a fresh group with the same labels (history, caller-side edits of inputs and of "
                                "returned automata, and other groups must not matter)", "observed": r,
                    "tags": {"session": True, "lex": r["lex"], "even": r["even"]}}
    return None


# ---- generator namings x automaton options, judged through accepts / follow_word with list words ---------------------
NAMINGS = ["ints_shift", "ints_perm", "ints_rev", "ints_disjoint", "multichar", "letters_perm", "case", "tuples", "default_letters"]


def _names_for(rng, kind, n):
    if kind == "ints_shift":
        return list(range(1, n + 1))
    if kind == "ints_perm":
        while True:
            p = list(range(n))
            rng.shuffle(p)
            if p != list(range(n)) or n == 1:
                return p
    if kind == "ints_rev":
        return list(range(n - 1, -1, -1))
    if kind == "ints_disjoint":
        return [10 * (i + 1) + 7 for i in range(n)]
    if kind == "multichar":
        return rng.sample(["r1", "r2", "r3", "s0", "s1", "gen", "t12", "x9"], n)
    if kind == "letters_perm":
        p = list("abcdefgh"[:n])
        while True:
            rng.shuffle(p)
            if p != list("abcdefgh"[:n]) or n == 1:
                return p
    if kind == "case":
        return (["a", "A", "b", "B", "c"])[:n]
    if kind == "tuples":
        return [("g", i) for i in range(n)]
    return list("abcdefgh"[:n])


def gen_naming(rng, n):
    pool = R2 + R3_LABELLED
    for idx in range(n):
        M = _sym(_variants(rng, rng.choice(pool if rng.random() < 0.85 else SPECIAL4)))
        r = len(M)
        kind = NAMINGS[idx % len(NAMINGS)]
        names = _names_for(rng, kind, r)
        pairs = [(i, j) for i in range(r) for j in range(i + 1, r)]
        rng.shuffle(pairs)
        edges, order = [], []
        for (i, j) in pairs:
            if rng.random() < 0.5:
                i, j = j, i
            edges.append([names[i], names[j], M[i][j]])
            for k in (i, j):
                if k not in order:
                    order.append(k)
        yield {"M": M, "naming": kind, "edges": edges, "order": order, "names": names,
               "probe_nonstring_even": (not all(isinstance(x, str) for x in names)) and rng.random() < 0.25}


def _hashable(x):
    return tuple(x) if isinstance(x, list) else x


def run_naming(inp):
    from geometry_tools import coxeter
    order = inp["order"]
    M = [[inp["M"][i][j] for j in order] for i in order]
    names = [_hashable(inp["names"][i]) for i in order]
    n = len(M)
    G = coxeter.CoxeterGroup(diagram=[(_hashable(a), _hashable(b), o) for a, b, o in inp["edges"]])
    strings = all(isinstance(x, str) for x in names)
    if inp.get("probe_nonstring_even"):
        out = {}
        for what, fn in (("even_automaton", lambda: G.automaton(even_length=True)),
                         ("enumerate_words", lambda: list(G.automaton().enumerate_words(2)))):
            try:
                fn()
                out[what] = "ok"
            except TypeError as e:
                out[what] = "TypeError"
        return {"probe": out}
    L = {1: 4, 2: 8, 3: 6}.get(n, 4)
    levels = tits_solver(M, L)
    reduced = set().union(*[set().union(*lv) if lv else set() for lv in levels])
    nf = {min(c) for lv in levels for c in lv}
    bad = {}
    if list(G.ordered_gens) != names or np.asarray(G.coxeter_matrix).tolist() != M:
        bad["constructor"] = {"ordered_gens": [str(x) for x in G.ordered_gens], "matrix": np.asarray(G.coxeter_matrix).tolist()}
    for lex in (False, True):
        ref = nf if lex else reduced
        aut = G.automaton(shortlex=lex)
        wrong = []
        for l in range(L + 1):
            for w in itertools.product(range(n), repeat=l):
                if l >= 2 and any(w[i] == w[i + 1] for i in range(l - 1)) and l > 4:
                    continue            # longer words with a square: rejected by both sides (checked up to length 4)
                word = [names[k] for k in w]
                acc = aut.accepts(word)
                try:
                    aut.follow_word(word)
                    fol = True
                except Exception as e:
                    fol = False if type(e).__name__ == "FSAException" else "exc:" + type(e).__name__
                if acc != (w in ref) or fol != (w in ref):
                    wrong.append([list(w), acc, fol])
        if wrong:
            bad["lex" if lex else "geo"] = wrong[:4]
        if strings:
            lib = set(aut.enumerate_words(L))
            mine = {"".join(names[k] for k in w) for w in ref}
            if lib != mine:
                bad[("lex" if lex else "geo") + "_enumerate_words"] = sorted(lib ^ mine)[:4]
            ws = list(aut.enumerate_words(min(L, 4), with_states=True))
            if any(len(x) != 2 for x in ws) or {x[0] for x in ws} != {"".join(names[k] for k in w) for w in ref if len(w) <= min(L, 4)}:
                bad[("lex" if lex else "geo") + "_with_states"] = True
            # even-length variant, through accepts with a list of two-letter labels
            done, ev = even_limited(1, lambda: G.automaton(shortlex=lex, even_length=True))
            if done:
                wrong = []
                for l in range(0, min(L, 6) + 1, 2):
                    for w in itertools.product(range(n), repeat=l):
                        word = [names[w[i]] + names[w[i + 1]] for i in range(0, l, 2)]
                        if ev.accepts(word) != (w in ref):
                            wrong.append(list(w))
                if wrong:
                    bad[("lex" if lex else "geo") + "_even"] = wrong[:4]
    return {"bad": bad}


def judge_naming(inp, obs, lr):
    tags = {"naming": inp["naming"]}
    if "exc" in obs:
        return {"expected": "automata", "observed": obs, "tags": {**tags, "exc": obs["exc"]}}
    if "probe" in obs:
        if obs["probe"] != {"even_automaton": "ok", "enumerate_words": "ok"}:
            return {"expected": "even_automaton / enumerate_words work for the generator names the diagram constructor documents "
                                "('any hashable object')", "observed": obs["probe"],
                    "tags": {"names": "nonstring", "what": "even_or_enumerate_TypeError"}}
        return None
    if obs["bad"]:
        what = sorted(obs["bad"])[0]
        return {"expected": "accepts / follow_word / enumerate_words agree with the reduced words (geodesic) and the least reduced "
                            "expressions (shortlex), whatever the generators are called", "observed": obs["bad"],
                "tags": {**tags, "what": what}}
    return None


# ---- size boundaries of the construction: number of small roots across 32 / 64 / 128 -------------------------------------
# fixed matrices (rank 5-7, labels 2..6 and infinity) with their number of small roots, found by a search in the harness;
# their automata have a few hundred to two thousand states and are built in < 1 s
SIZE_TABLE = {
    "33-64": [(33, [[1, 5, 5, 6, 2], [5, 1, 5, 5, 5], [5, 5, 1, 3, 2], [6, 5, 3, 1, 3], [2, 5, 2, 3, 1]]),
              (33, [[1, 6, 5, 5, 2], [6, 1, 6, 3, 3], [5, 6, 1, 0, 5], [5, 3, 0, 1, 5], [2, 3, 5, 5, 1]]),
              (35, [[1, 4, 2, 3, 0], [4, 1, 3, 2, 3], [2, 3, 1, 4, 5], [3, 2, 4, 1, 6], [0, 3, 5, 6, 1]]),
              (45, [[1, 5, 5, 2, 5], [5, 1, 5, 3, 3], [5, 5, 1, 5, 2], [2, 3, 5, 1, 5], [5, 3, 2, 5, 1]]),
              (53, [[1, 5, 2, 2, 2], [5, 1, 3, 2, 2], [2, 3, 1, 5, 2], [2, 2, 5, 1, 3], [2, 2, 2, 3, 1]])],
    "65-128": [(65, [[1, 4, 6, 0, 3, 5], [4, 1, 5, 5, 2, 0], [6, 5, 1, 5, 3, 5], [0, 5, 5, 1, 2, 3], [3, 2, 3, 2, 1, 2], [5, 0, 5, 3, 2, 1]]),
               (65, [[1, 6, 4, 2, 5, 3], [6, 1, 5, 5, 3, 2], [4, 5, 1, 5, 3, 2], [2, 5, 5, 1, 5, 5], [5, 3, 3, 5, 1, 6], [3, 2, 2, 5, 6, 1]]),
               (66, [[1, 3, 5, 5, 2, 5], [3, 1, 6, 5, 5, 6], [5, 6, 1, 3, 2, 2], [5, 5, 3, 1, 6, 5], [2, 5, 2, 6, 1, 2], [5, 6, 2, 5, 2, 1]]),
               (67, [[1, 5, 5, 3, 3, 3], [5, 1, 4, 5, 2, 2], [5, 4, 1, 3, 5, 2], [3, 5, 3, 1, 5, 3], [3, 2, 5, 5, 1, 5], [3, 2, 2, 3, 5, 1]]),
               (69, [[1, 3, 2, 6, 3], [3, 1, 5, 2, 2], [2, 5, 1, 3, 5], [6, 2, 3, 1, 2], [3, 2, 5, 2, 1]]),
               (95, [[1, 5, 5, 6, 2, 4, 3], [5, 1, 2, 3, 2, 5, 4], [5, 2, 1, 3, 5, 6, 2], [6, 3, 3, 1, 0, 3, 2], [2, 2, 5, 0, 1, 3, 5],
                     [4, 5, 6, 3, 3, 1, 5], [3, 4, 2, 2, 5, 5, 1]]),
               (73, [[1, 5, 2, 6, 0, 5, 2], [5, 1, 5, 6, 6, 5, 0], [2, 5, 1, 5, 5, 3, 5], [6, 6, 5, 1, 5, 0, 6], [0, 6, 5, 5, 1, 5, 4],
                     [5, 5, 3, 0, 5, 1, 3], [2, 0, 5, 6, 4, 3, 1]])],
    "129+": [(137, [[1, 2, 3, 2, 5, 5, 5], [2, 1, 5, 2, 3, 5, 3], [3, 5, 1, 5, 3, 5, 2], [2, 2, 5, 1, 5, 3, 5], [5, 3, 3, 5, 1, 5, 3],
                    [5, 5, 5, 3, 5, 1, 5], [5, 3, 2, 5, 3, 5, 1]])],
}


def gen_size(rng, n):
    if n < 3:
        plan = ["65-128", rng.choice(["33-64", "129+"])][:max(n, 1)]
    else:
        plan = ["33-64", "65-128", "129+"] * (n // 3)
    for bracket in plan:
        for _ in range(1):
            k, M = rng.choice(SIZE_TABLE[bracket])
            p = list(range(len(M)))
            rng.shuffle(p)
            yield {"bracket": bracket, "nroots": k, "M": [[M[p[i]][p[j]] for j in range(len(M))] for i in range(len(M))],
                   "seed": rng.randrange(10 ** 9)}


def _reflections(M):
    """s_k on coordinates with respect to the simple roots (column action): the exact-arithmetic-free but independent reference
    `l(w s_k) > l(w)  iff  w(alpha_k) is a positive root`"""
    n = len(M)
    B = np.array([[-math.cos(math.pi / m) if m > 0 else -1.0 for m in row] for row in M])
    S = []
    for k in range(n):
        A = np.eye(n)
        A[k, :] -= 2 * B[k, :]
        S.append(A)
    return S


def _positive(col):
    sc = max(1.0, float(np.max(np.abs(col))))
    return bool(np.all(col > -1e-7 * sc))


def run_size(inp):
    import random as _r
    from geometry_tools import coxeter
    M = inp["M"]
    n = len(M)
    G = coxeter.CoxeterGroup(matrix=np.array(M))
    names = list(G.ordered_gens)
    done, auts = X.limited(20.0, lambda: (G.automaton(shortlex=False), G.automaton(shortlex=True)))
    if not done:
        return {"slow": True}
    geo, lex = auts
    S = _reflections(M)
    bad = {}
    # (1) finite standard parabolic subgroups of rank 2 and 3: exhaustive comparison up to beyond their longest element
    checked = 0
    for r in (2, 3):
        for sub in itertools.combinations(range(n), r):
            Bs = np.array([[-math.cos(math.pi / M[i][j]) if M[i][j] > 0 else -1.0 for j in sub] for i in sub])
            if np.min(np.linalg.eigvalsh(Bs)) < 1e-9:
                continue                                   # infinite subgroup
            # reduced words of the subgroup by the root criterion (depth-first, the group is finite)
            reduced, stack = set(), [((), np.eye(n))]
            while stack:
                w, A = stack.pop()
                reduced.add(w)
                for k in sub:
                    if _positive(A[:, k]):
                        stack.append((w + (k,), A @ S[k]))
            maxlen = max(len(w) for w in reduced)
            # what the automata accept over these letters, one letter beyond the longest element
            for name_, aut, ref in (("geo", geo, reduced), ("lex", lex, None)):
                acc, st = set(), [(start_of(aut), ())]
                while st:
                    v, w = st.pop()
                    acc.add(w)
                    if len(w) > maxlen:
                        continue
                    for k in sub:
                        t = aut.graph_dict.get(v, {}).get(names[k])
                        if t is not None:
                            st.append((t, w + (k,)))
                if ref is None:
                    # shortlex: the least reduced word of every element (elements = classes of reduced words with equal image)
                    cls = {}
                    for w in reduced:
                        A = np.eye(n)
                        for k in w:
                            A = A @ S[k]
                        key = tuple(np.round(A, 5).reshape(-1) + 0.0)
                        if key not in cls or w < cls[key]:
                            cls[key] = w
                    ref = set(cls.values())
                if acc != ref:
                    bad.setdefault(name_ + "_parabolic", {"subgroup": list(sub), "accepted_not_expected": sorted(acc - ref)[:2],
                                                          "expected_not_accepted": sorted(ref - acc)[:2]})
            checked += 1
    # (2) random long words over all generators, geodesic automaton against the root criterion
    rng = _r.Random(inp["seed"])
    wrong = []
    for _ in range(150):
        w, A, red = [], np.eye(n), True
        for _step in range(rng.choice([12, 18, 25])):
            good = [k for k in range(n) if _positive(A[:, k])]
            k = rng.choice(good) if (good and rng.random() < 0.93) else rng.randrange(n)
            red = red and _positive(A[:, k])
            w.append(k)
            A = A @ S[k]
            if not red:
                break
        if geo.accepts([names[k] for k in w]) != red:
            wrong.append([w, red])
    if wrong:
        bad["geo_long_words"] = wrong[:3]
    return {"bad": bad, "parabolics_checked": checked, "states": [len(geo.graph_dict), len(lex.graph_dict)]}


def judge_size(inp, obs, lr):
    tags = {"bracket": inp["bracket"], "nroots": inp["nroots"]}
    if "exc" in obs:
        return {"expected": "automata", "observed": obs, "tags": {**tags, "exc": obs["exc"]}}
    if obs.get("slow"):
        return {"expected": "automata of a group with %d small roots within 20 s CPU (< 1 s on a healthy tree)" % inp["nroots"],
                "observed": "not finished", "tags": {**tags, "slow": True}}
    if obs["bad"]:
        return {"expected": "finite standard parabolic subgroups: accepted words = reduced words (geodesic) / least reduced words (shortlex), "
                            "up to beyond the longest element; long random words: accepted iff reduced (root criterion)",
                "observed": obs["bad"], "tags": {**tags, "what": sorted(obs["bad"])[0]}}
    return None


CLAUSES = [
    Clause("automaton_corr", "corr", gen_aut, run_aut, judge_aut, lean=lean_aut,
           site="coxeter.CoxeterGroup.automaton",
           budget={"quick": 70, "thorough": 1000},
           what="small roots (vectors, neighbours) and automaton (up to BFS renumbering) vs the Lean model over Q; all rank-2/3 "
                "matrices over {2..7,inf} up to relabelling (inf written 0/-1/-3), samples of rank 4-5, both constructor routes"),
    Clause("even_corr", "corr", gen_even, run_even, judge_even, lean=lean_even,
           site="coxeter.CoxeterGroup.automaton(even_length=True) / fsa.automaton_multiple", budget={"quick": 50, "thorough": 800},
           what="even_automaton of the implementation's table vs Lean evenAutomaton (up to BFS renumbering); follow_word on random "
                "words vs Table.follow, and sequences of 2-letter labels in the even automaton vs EvenG.follow / follow2 / unblock"),
    Clause("rank2_corr", "corr", gen_r2corr, run_r2corr, judge_r2corr, lean=lean_r2corr, site="coxeter.CoxeterGroup.automaton (rank 2)",
           budget={"quick": 20, "thorough": 20},
           what="the model pipeline exactly as the end-to-end rank-2 theorems state it (coxeterAutomaton eps (form2 c) 8 8 16 lex, "
                "eps in {eps0, eps6}, c = 0, -1/2, -1) vs the implementation's automaton for m = 2, 3, infinity: same language"),
    Clause("rank2_hypothesis_oracle", "oracle", gen_r2, run_r2, judge_r2, site="coxeter.CoxeterGroup.automaton (rank 2)",
           budget={"quick": 14, "thorough": 14},
           what="the CONCLUSION of the Lean rank-2 theorems (central clause proved for the model) on the implementation's automata for "
                "m = 2..12 and infinity (0/-1/-2), through the public API; whether the internal small-root table has the assumed "
                "DihedralNb structure is recorded as supporting evidence only"),
    Clause("session_oracle", "oracle", gen_session, run_session, judge_session, site="coxeter.CoxeterGroup.automaton (sessions)",
           budget={"quick": 100, "thorough": 1500},
           what="generic defences G1-G4: interleaved automaton requests (shortlex x even_length) on 2-3 groups of rank 2-3 built from "
                "buffers, views, tuples, float/int32 arrays and one-shot diagram iterables that the caller edits afterwards; returned "
                "automata are edited by the caller (delete_vertex, rename, clear, add_edges); every answer equals a FRESH group's"),
    Clause("naming_oracle", "oracle", gen_naming, run_naming, judge_naming, site="coxeter.CoxeterGroup.automaton / fsa.rename_generators",
           budget={"quick": 63, "thorough": 1500},
           what="groups built from diagrams with every kind of generator naming (integers overlapping 0..n-1 in permuted / shifted / "
                "reversed order, disjoint integers, tuples, multi-character strings, permuted default letters, names equal to another "
                "generator's other case) x every automaton option, judged by the independent language reference through accepts() and "
                "follow_word() with list words, enumerate_words (also with_states) and the even variant"),
    Clause("size_boundary_oracle", "oracle", gen_size, run_size, judge_size, site="coxeter.CoxeterGroup.automaton (many small roots)",
           budget={"quick": 2, "thorough": 30},
           what="size boundaries of the construction: fixed rank 5-7 groups whose number of small roots crosses 32 / 64 / 128 (33..137), "
                "generators permuted; exhaustive comparison on every finite standard parabolic subgroup of rank 2-3 (up to one letter beyond "
                "its longest element, e.g. length 16 in H3) and 150 random words of length up to 25 against the root criterion"),
    Clause("language_oracle", "oracle", gen_lang, run_lang, judge_lang, lean=lean_lang,
           site="coxeter.CoxeterGroup.automaton", budget={"quick": 385, "thorough": 650},
           what="BOUNDED TEST of the unproved clause: accepted words up to length L vs independent Tits braid-move solver and "
                "canonical-representation enumeration: geodesic = reduced, shortlex = least reduced expression (one per element), "
                "even variants, growth counts, injectivity of canonical images"),
]
