"""C10 — automaton operations transform the accepted language as documented (DESIGN §4 C10)."""
import copy, itertools, collections
from vlib.runner import Clause
from props import _fsa as U
from geometry_tools.automata import fsa as FS
from geometry_tools.automata.fsa import FSA, FSAException

LEVEL = "proof"
EXPLANATION = ("Lean theorems about the FSA model: follow/accepts/longest-prefix agree; enumFixed lists exactly the pairs "
               "(w, follow w) with |w| = n, each once; the k-multiple automaton accepts exactly the accepted words of length "
               "divisible by k (partial correctness of the literal queue loop); relabelling maps the language letterwise; "
               "recurrent = greatest sub-automaton without dead ends; remove_long_paths: levels = graph distances, with edge_ties exactly the "
               "shortest-path edges, without a spanning tree of them. "
               "Correspondence: every query and derived automaton on the real FSA vs the model. Oracle: the same statements on "
               "the real code against a 20-line set-based reference language.")
ASSUMPTIONS = ["labels are single characters when words are passed as Python strings (how follow_word iterates a word)",
               "automaton_multiple terminates on the generated automata (its queue loop can be exponential; cases above a pop cap are skipped)",
               "deepcopy = identity of the pure model; 'original unchanged' is an observation of the real object, not a theorem"]

FUEL = 4000
MULT_SECONDS = 5      # the generated automata need <= 300 pops of the queue loop: milliseconds


# ------------------------------------------------------------------ automata
def exhaustive_inits(ns, nl):
    vs, ls = list(range(ns)), U.LS[:nl]
    slots = [(v, l) for v in vs for l in ls]
    for choice in itertools.product([None] + vs, repeat=len(slots)):
        d = {v: [] for v in vs}
        for (v, l), t in zip(slots, choice):
            if t is not None:
                d[v].append([l, t])
        yield {"route": "graph", "d": [[v, d[v]] for v in vs], "starts": [0]}


STR_ALPHABETS = ("default", "default", "permuted", "multi", "case")


def rand_aut(rng, alphabets=STR_ALPHABETS):
    r = rng.random()
    if r < 0.45:
        ns, nl = rng.choice([1, 2, 3, 4, 4, 5, 6, 8, 10]), rng.choice([1, 2, 2, 3])
        vs, ls = list(range(ns)), U.LS[:nl]
        p = rng.choice([0.3, 0.5, 0.7, 0.9])
        d = [[v, [[l, rng.choice(vs)] for l in ls if rng.random() < p]] for v in vs]
        rng.shuffle(d)
        return {"init": {"route": "graph", "d": d, "starts": [rng.choice(vs)]}, "ops": []}
    if r < 0.9:
        return U.rand_history(rng, maxlen=rng.choice([2, 5, 10]), p_invalid=0.0, fresh=False, alphabets=alphabets)
    return {"init": U.rand_free_init(rng), "ops": []}


def gen_automata(rng, n, exhaustive=((1, 3), (2, 2)), alphabets=STR_ALPHABETS):
    if n >= 4000:       # thorough tier: every automaton with 2 states x 3 labels and 3 states x 2 labels as well
        exhaustive = tuple(exhaustive) + ((2, 3), (3, 2))
    out = [{"init": copy.deepcopy(i), "ops": []} for i in U.boundary_inits()]           # G14: the ends of every range, always
    for ns, nl in exhaustive:
        out += [{"init": i, "ops": []} for i in exhaustive_inits(ns, nl)]
    if n < len(out):
        out = rng.sample(out, n)
    for a in out:
        yield a
    for _ in range(max(0, n - len(out))):
        yield rand_aut(rng, alphabets)


def make(inp):
    A, ref = U.build(inp["init"])
    for op in inp["ops"]:
        A = U.apply_op(A, op)
        ref.apply(op)
    return A, ref


def labels_of(ref):
    return sorted({l for _, l, _ in ref.E}) or ["a"]


def words_upto(ls, n):
    for k in range(n + 1):
        yield from itertools.product(ls, repeat=k)


def pyword(w):
    """a word as the documented API takes it: a string when every label is one character"""
    return "".join(w) if all(isinstance(l, str) and len(l) == 1 for l in w) else list(w)


def word_forms(w):
    """the same word as str (single-character labels only), list and tuple"""
    forms = [list(w), tuple(w)]
    if all(isinstance(l, str) and len(l) == 1 for l in w):
        forms.insert(0, "".join(w))
    return forms


def cat(w):
    """what the enumerators yield for a path: the concatenation of its (string) labels"""
    return "".join(w)


def multiple_pops(ref, starts, k, cap):
    """number of queue pops of automaton_multiple's loop (marks on pop, never checks at pop)"""
    q, vis, pops = collections.deque(starts), set(), 0
    while q:
        v = q.popleft()
        vis.add(v)
        pops += 1
        if pops > cap:
            return pops
        for _, nb in ref.lang(v, k):
            if nb not in vis:
                q.append(nb)
    return pops


# ------------------------------------------------------------------ correspondence: queries
def queries_for(rng, inp, ref, starts, nmax, wmax, big=False):
    ls = labels_of(ref) + (["z"] if rng.random() < 0.5 else [])
    vs = sorted(ref.V, key=U.key)
    qs = []
    ws = list(words_upto(ls, wmax if len(ls) <= 3 else 2))
    if len(ws) > 60:
        ws = ws[:20] + rng.sample(ws[20:], 40)
    for w in ws:
        v = rng.choice([None, None] + vs) if vs else None
        qs.append({"q": "follow", "w": list(w), "v": v})
        qs.append({"q": "accepts", "w": list(w), "v": rng.choice([None, None] + vs) if vs else None})
        qs.append({"q": "prefix", "w": list(w)})
        qs.append({"q": "rejprefix", "w": list(w)})
    for v in [None] + (vs if not big else vs[:3]):
        qs.append({"q": "enum_fixed", "n": rng.randint(0, nmax), "v": v})
        qs.append({"q": "enum_words", "n": rng.randint(0, nmax), "v": v})
    qs.append({"q": "views"})
    return qs


def gen_lang_corr(rng, n):
    for a in gen_automata(rng, n):
        _, ref = U.build(a["init"])
        for op in a["ops"]:
            ref.apply(op)
        a = dict(a)
        a["qs"] = queries_for(rng, a, ref, None, 4, 3)
        yield a


def gen_builtin_lang(rng, n):
    for name in U.builtin_names():
        labels, transitions, initial = U.table_of_text(U.builtin_text(name))
        init = {"route": "kbmag", "labels": labels, "transitions": transitions, "initial": initial}
        _, ref = U.build(init)
        a = {"init": init, "ops": [], "builtin": name}
        a["qs"] = queries_for(rng, a, ref, None, 3, 2, big=True)
        yield a


def run_query(A, q):
    k = q["q"]
    try:
        if k == "follow":
            return {"ok": A.follow_word(pyword(q["w"]), start_vertex=q.get("v"))}
        if k == "accepts":
            return {"ok": bool(A.accepts(pyword(q["w"]), start_vertex=q.get("v")))}
        if k == "prefix":
            return {"ok": list(A.initial_accepted_subword(pyword(q["w"])))}
        if k == "rejprefix":
            r = A.initial_rejected_subword(pyword(q["w"]))
            return {"ok": None if r is None else list(r)}
        if k == "enum_fixed":
            return {"ok": [[w, e] for w, e in U.capped(A.enumerate_fixed_length_paths(q["n"], start_vertex=q.get("v"), with_states=True))]}
        if k == "enum_words":
            return {"ok": [[w, e] for w, e in U.capped(A.enumerate_words(q["n"], start_vertex=q.get("v"), with_states=True))]}
        if k == "multiple":
            with U.time_limit(MULT_SECONDS):
                return {"ok": U.views(A.automaton_multiple(q["k"]))}
        if k == "multiple_enum":
            with U.time_limit(4 * MULT_SECONDS):
                B = A.automaton_multiple(q["k"])
                return {"ok": [[[w] if w else [], e] for w, e in U.capped(B.enumerate_words(q["n"], with_states=True))]}
        if k == "rename":
            return {"ok": U.views(A.rename_generators(dict(map(tuple, q["m"])), inplace=False))}
        if k == "recurrent":
            return {"ok": U.views(A.recurrent(inplace=False))}
        if k == "rlp":
            return {"ok": {"aut": U.views(A.remove_long_paths(root=q.get("root"), edge_ties=q["ties"]))}}
        if k == "views":
            return {"ok": U.views(A)}
    except Exception as e:
        if type(e).__name__ == "Timeout":       # the runner's own deadline
            raise
        return {"err": type(e).__name__}
    raise ValueError(k)


def run_queries(inp):
    A, _ = make(inp)
    return {"res": [run_query(A, q) for q in inp["qs"]]}


def lean_queries(inp, obs):
    return [{"op": "c10.eval", "init": inp["init"], "ops": inp["ops"], "qs": inp["qs"]}]


def _ms(paths):
    return sorted(("".join(w) if isinstance(w, list) else w, repr(e)) for w, e in paths)


def compare_query(q, m, i):
    """None if model answer m and implementation answer i agree on query q"""
    k = q["q"]
    if "err" in m or "err" in i:
        if m.get("err") == "fuel" and k.startswith("multiple"):
            return None          # automaton_multiple has no proved fuel bound; every other loop of the model has one
        return None if ("err" in m and "err" in i) else "error"       # both refuse: the exception class is not compared
    m, i = m["ok"], i["ok"]
    if k in ("follow", "accepts", "prefix", "rejprefix"):
        return None if m == i else "value"
    if k in ("enum_fixed", "enum_words"):
        return None if _ms(m) == _ms(i) else "enumeration"
    if k == "multiple_enum":
        return None if _ms([["".join(w), e] for w, e in m]) == _ms([["".join(w), e] for w, e in i]) else "enumeration"
    if k == "rlp":
        return None if U.canon(m["aut"]) == U.canon(i["aut"]) else "views"
    return None if U.canon(m) == U.canon(i) else "views"


def tree_spec_problem(inp, q, m, i):
    """remove_long_paths(edge_ties=False): WHICH shortest-path tree is kept is not specified, so the implementation is
    compared with the specification (same vertices, start at the root, kept edges are shortest-path edges, exactly one
    parent per reachable non-root vertex) and not with the particular tree of the model"""
    if "err" in m or "err" in i:
        return None if ("err" in m and "err" in i) else "error"
    _, ref = U.build(inp["init"])
    for op in inp["ops"]:
        ref.apply(op)
    mv, iv = m["ok"]["aut"], i["ok"]["aut"]
    r0 = mv["starts"][0]
    if iv["starts"] != mv["starts"]:
        return "start"
    g, o, ii = U.edge_counts(iv)
    if U.coherence_problems(iv, U.Ref(ref.V, set(g))):
        return "views"
    dist, dq = {r0: 0}, collections.deque([r0])
    while dq:
        v = dq.popleft()
        for t, l, h in ref.E:
            if t == v and h not in dist:
                dist[h] = dist[v] + 1
                dq.append(h)
    if not set(g) <= {(t, l, h) for t, l, h in ref.E if t in dist and dist.get(h) == dist[t] + 1}:
        return "edge-not-on-a-shortest-path"
    par = collections.defaultdict(set)
    for t, l, h in g:
        par[h].add(t)
    if any(len(par[w]) != 1 for w in dist if w != r0) or par.get(r0):
        return "not-a-spanning-tree"
    return None


def judge_queries(inp, obs, lr):
    if "exc" in obs:
        return {"expected": "automaton builds", "observed": obs, "tags": {"exc": obs["exc"]}}
    if not lr or "err" in lr[0]:
        return {"expected": "model answer", "observed": lr[:1], "tags": {"driver_err": True}}
    for q, m, i in zip(inp["qs"], lr[0]["ok"], obs["res"]):
        if q["q"] == "rlp" and not q["ties"]:
            d = tree_spec_problem(inp, q, m, i)
        else:
            d = compare_query(q, m, i)
        if d:
            return {"expected": {"query": q, "model": m}, "observed": i, "tags": {"q": q["q"], "diff": d}}
    return None


def gen_ops_corr(rng, n):
    for a in gen_automata(rng, n):
        _, ref = U.build(a["init"])
        for op in a["ops"]:
            ref.apply(op)
        ls = labels_of(ref)
        vs = sorted(ref.V, key=U.key)
        starts = a["init"].get("starts", a["init"].get("initial", [""]))
        qs = []
        for k in (0, 1, 2, 3, 4):
            if multiple_pops(ref, [s for s in starts], k, 300) <= 300 and set(starts) <= ref.V:
                qs.append({"q": "multiple", "k": k, "fuel": FUEL})
                qs.append({"q": "multiple_enum", "k": k, "fuel": FUEL, "n": rng.randint(0, max(1, 6 // max(k, 1)))})
        perm = ls[:]
        rng.shuffle(perm)
        qs.append({"q": "rename", "m": [[x, y] for x, y in zip(ls, perm)] + [["unused", "q"]]})
        qs.append({"q": "rename", "m": [[x, x.upper()] for x in ls]})
        qs.append({"q": "rename", "m": [[x, y] for x, y in zip(ls[1:], perm)]})      # incomplete map: KeyError
        qs.append({"q": "rename", "m": [[x, "a"] for x in ls]})                      # non-injective: dict overwrite
        qs.append({"q": "recurrent"})
        for root in [None] + vs[:4] + ["nowhere"]:
            for ties in (True, False):
                qs.append({"q": "rlp", "root": root, "ties": ties})
        qs.append({"q": "views"})
        a = dict(a)
        a["qs"] = qs
        yield a


# ------------------------------------------------------------------ oracle: the walks and the enumerators
def check_lang(A, ref, wmax, nmax, bad, tag):
    """every query family against the reference language, from the default start and from explicit start vertices"""
    starts = list(A.start_vertices)
    ls = labels_of(ref) + ["z"]
    vs = sorted(ref.V, key=U.key)
    n0 = len(bad)
    for sv in [None] + vs[:3]:
        if sv is None and (not starts or starts[0] not in ref.V):
            continue
        s0 = starts[0] if sv is None else sv
        for w in words_upto(ls, wmax):
            end = ref.follow(s0, w)
            # start_vertex=None: "any start state is allowed"
            want_acc = (end is not None) if sv is not None else any(x in ref.V and ref.follow(x, w) is not None for x in starts)
            best = max((w[:j] for j in range(len(w) + 1) if ref.follow(s0, w[:j]) is not None), key=len)
            for pw in word_forms(w):               # the same word as str / list / tuple
                acc = A.accepts(pw, start_vertex=sv)
                if acc != want_acc:
                    bad.append([tag, "accepts", sv, repr(pw), acc])
                try:
                    got = A.follow_word(pw, start_vertex=sv)
                except FSAException:
                    got = None
                if got != end or (got is None) != (end is None):
                    bad.append([tag, "follow_word", sv, repr(pw), repr(got), repr(end)])
                if sv is None:
                    # the prefix queries answer with a prefix OF THE WORD THEY WERE GIVEN (same type)
                    pre = A.initial_accepted_subword(pw)
                    if type(pre) is not type(pw) or pre != pw[:len(best)]:
                        bad.append([tag, "initial_accepted_subword", repr(pw), repr(pre)])
                    rej = A.initial_rejected_subword(pw)
                    want = None if end is not None else pw[:len(best) + 1]     # None exactly for accepted words
                    if rej != want or (rej is not None and type(rej) is not type(pw)):
                        bad.append([tag, "initial_rejected_subword", repr(pw), repr(rej)])
        if not all(isinstance(l, str) for l in labels_of(ref)):
            continue            # the enumerators build strings: they are specified for string labels only
        tot = []
        for n in range(nmax + 1):
            want = collections.Counter(("".join(w), repr(e)) for w, e in ref.lang(s0, n))
            got = collections.Counter((w, repr(e)) for w, e in U.capped(A.enumerate_fixed_length_paths(n, start_vertex=sv, with_states=True)))
            if got != want:
                bad.append([tag, "enumerate_fixed_length_paths", sv, n, sorted(got.elements())[:6], sorted(want.elements())[:6]])
            plain = collections.Counter(U.capped(A.enumerate_fixed_length_paths(n, start_vertex=sv)))
            if plain != collections.Counter(w for w, _ in want.elements()) or any(c > 1 for c in plain.values()):
                bad.append([tag, "enumerate_fixed_length_paths(with_states=False)", sv, n])
            tot += sorted(want.elements())
            gw = collections.Counter((w, repr(e)) for w, e in U.capped(A.enumerate_words(n, start_vertex=sv, with_states=True)))
            if gw != collections.Counter(tot):
                bad.append([tag, "enumerate_words", sv, n])
            gp = collections.Counter(U.capped(A.enumerate_words(n, start_vertex=sv)))
            if gp != collections.Counter(w for w, _ in tot):
                bad.append([tag, "enumerate_words(with_states=False)", sv, n])
        if len(bad) > n0:
            break


def run_lang_oracle(inp):
    """the query families are re-examined after every step of a history on ONE object: re-rooting (assignment to
    start_vertices, edits of the list object) and graph edits between the queries"""
    A, ref = make(inp)
    bad = []
    before = U.views(A)
    check_lang(A, ref, inp["wmax"], inp["nmax"], bad, "initial")
    if U.views(A) != before and U.canon(U.views(A)) != U.canon(before):
        bad.append(["queries-changed-the-automaton"])
    for n, st in enumerate(inp.get("steps", [])):
        if bad:
            break
        k = st["k"]
        if k == "assign":
            A.start_vertices = list(st["v"])
        elif k == "setitem":
            if not A.start_vertices:
                continue
            A.start_vertices[0] = st["v"]
        elif k == "insert":
            A.start_vertices.insert(0, st["v"])
        elif k == "append":
            A.start_vertices.append(st["v"])
        elif k == "op":
            if not ref.valid(st["op"]):
                break
            A = U.apply_op(A, st["op"])
            ref.apply(st["op"])
        check_lang(A, ref, inp["wmax2"], inp["nmax"], bad, "after step %d (%s)" % (n, k))
        pb = U.coherence_problems(U.views(A), ref)
        if pb:
            bad.append(["views-after-step", n, k] + pb)
    return {"bad": bad[:4]}


def judge_bad(what):
    def judge(inp, obs, lr):
        if "exc" in obs:
            return {"expected": what, "observed": obs, "tags": {"exc": obs["exc"]}}
        if obs["bad"]:
            return {"expected": what, "observed": obs["bad"], "tags": {"which": obs["bad"][0][0]}}
        return None
    return judge


def gen_lang_oracle(rng, n):
    for a in gen_automata(rng, n, alphabets=STR_ALPHABETS + ("int",)):
        a = dict(a)
        a["wmax"], a["wmax2"], a["nmax"] = 4, 3, 4
        _, ref = U.build(a["init"])
        for op in a["ops"]:
            ref.apply(op)
        vs, ls = U.universe(a["init"])
        steps = []
        for _ in range(rng.choice([0, 1, 2, 3, 4])):
            pool = sorted(ref.V, key=U.key) or [0]
            k = rng.choice(["assign", "assign", "setitem", "insert", "append", "op", "op"])
            if k == "assign":
                steps.append({"k": k, "v": [rng.choice(pool) for _ in range(rng.choice([1, 1, 1, 2]))]})
            elif k == "op":
                op, ok = U.rand_op(rng, ref, vs, ls, 0.0, fresh=False)
                if op["k"] == "rename":
                    continue
                ref.apply(op)
                steps.append({"k": "op", "op": op})
            else:
                steps.append({"k": k, "v": rng.choice(pool)})
        a["steps"] = steps
        yield a


# ------------------------------------------------------------------ oracle: k-multiple / even
def multiple_ref(ref, starts, k):
    """the k-step reachable closure of the start vertices with one edge per k-walk"""
    reach, todo = set(starts), list(starts)
    E = set()
    while todo:
        v = todo.pop()
        for w, e in ref.lang(v, k):
            E.add((v, "".join(w), e))
            if e not in reach:
                reach.add(e)
                todo.append(e)
    return U.Ref(reach, E)


def run_multiple_oracle(inp):
    A, ref = make(inp)
    starts = list(A.start_vertices)
    if not starts or not set(starts) <= ref.V:
        return {"bad": [], "skipped": True}
    before = U.views(A)
    bad = []
    for k in inp["ks"]:
        if multiple_pops(ref, starts, k, 300) > 300:
            continue
        try:
            with U.time_limit(4 * MULT_SECONDS):
                B = A.even_automaton() if k == 2 and inp.get("even") else A.automaton_multiple(k)
                nb = inp["nmax"] // max(k, 1)
                got = collections.Counter(U.capped(B.enumerate_words(nb)))
        except U.CallTimeout:
            bad.append(["multiple-did-not-return", k, "reference loop needs <= 300 pops and <= 3^6 words"])
            break
        want = collections.Counter("".join(w) for n in range(0, nb * k + 1, max(k, 1)) for w, _ in ref.lang(starts[0], n))
        if k >= 1 and (got != want or any(c > 1 for c in got.values())):
            bad.append(["multiple-language", k, sorted(got.elements())[:8], sorted(want.elements())[:8]])
        # the result is itself a coherent automaton: k-step reachable closure, one edge per k-path
        pb = U.coherence_problems(U.views(B), multiple_ref(ref, starts, k))
        if pb:
            bad.append(["multiple-views", k] + pb)
        # walking in the multiple automaton by blocks of k letters = walking in the original
        if k >= 1:
            ls = labels_of(ref) + ["z"]
            for w in itertools.islice(words_upto(ls, k * 2), 0, 200):
                if len(w) % k:
                    continue
                blocks = ["".join(w[j:j + k]) for j in range(0, len(w), k)]
                if B.accepts(blocks) != any(ref.follow(x, w) is not None for x in starts):     # any start state is allowed
                    bad.append(["multiple-accepts", k, blocks, B.accepts(blocks)])
                    break
        if list(B.start_vertices) != starts:
            bad.append(["multiple-starts", k])
    if U.canon(U.views(A)) != U.canon(before):
        bad.append(["original-changed"])
    return {"bad": bad[:4]}


def gen_multiple_oracle(rng, n):
    for a in gen_automata(rng, n):
        a = dict(a)
        a["ks"], a["nmax"], a["even"] = [1, 2, 3, 4], 6, rng.random() < 0.5
        yield a


# ------------------------------------------------------------------ oracle: rename
def run_rename_oracle(inp):
    A, ref = make(inp)
    starts = list(A.start_vertices)
    ls = labels_of(ref)
    before = U.views(A)
    bad = []
    targets = ls + [x for x in "pqrstuvw" if x not in ls][:len(ls)]
    maps = [dict(zip(ls, img)) for img in itertools.permutations(targets, len(ls))]
    if len(maps) > inp["maxmaps"]:
        import random
        maps = random.Random(len(ref.E)).sample(maps, inp["maxmaps"])
    for m in maps:
        B = A.rename_generators(dict(m, unused="u"), inplace=False)
        want = U.Ref(ref.V, {(t, m[l], h) for t, l, h in ref.E})
        pb = U.coherence_problems(U.views(B), want)
        if pb:
            bad.append(["rename-views", m] + pb)
        if U.canon(U.views(A)) != U.canon(before):
            bad.append(["original-changed", m])
        if starts and starts[0] in ref.V:
            for n in range(inp["nmax"] + 1):
                got = collections.Counter(U.capped(B.enumerate_fixed_length_paths(n)))
                want_w = collections.Counter("".join(m[l] for l in w) for w, _ in ref.lang(starts[0], n))
                if got != want_w:
                    bad.append(["rename-language", m, n])
            for w in words_upto(ls, 3):
                if B.accepts(pyword([m[l] for l in w])) != any(x in ref.V and ref.follow(x, w) is not None for x in starts):
                    bad.append(["rename-accepts", m, w])
        C = copy.deepcopy(A)
        C.rename_generators(m, inplace=True)
        if U.canon(U.views(C)) != U.canon(U.views(B)):
            bad.append(["rename-inplace-differs", m])
        if bad:
            break
    return {"bad": bad[:4]}


def gen_rename_oracle(rng, n):
    for a in gen_automata(rng, n):
        a = dict(a)
        a["maxmaps"], a["nmax"] = 12, 3
        yield a


# ------------------------------------------------------------------ oracle: recurrent
def greatest_recurrent(ref):
    """brute force over all vertex subsets (<= 2^10): the union of all S in which every vertex has an
    in-edge from S and an out-edge into S"""
    vs = sorted(ref.V, key=U.key)
    best = set()
    for mask in range(1 << len(vs)):
        S = {v for j, v in enumerate(vs) if mask >> j & 1}
        if all(any(t == v and h in S for t, _, h in ref.E) and any(h == v and t in S for t, _, h in ref.E) for v in S):
            best |= S
    return best


def run_recurrent_oracle(inp):
    A, ref = make(inp)
    before = U.views(A)
    S = greatest_recurrent(ref)
    want = U.Ref(S, {e for e in ref.E if e[0] in S and e[2] in S})
    B = A.recurrent(inplace=False)
    bad = []
    pb = U.coherence_problems(U.views(B), want)
    if pb:
        bad.append(["recurrent"] + pb + [U.views(B)["o"], sorted(S, key=U.key)])
    if U.canon(U.views(A)) != U.canon(before):
        bad.append(["original-changed"])
    r = A.recurrent(inplace=True)
    if r is not None or U.canon(U.views(A)) != U.canon(U.views(B)):
        bad.append(["recurrent-inplace-differs"])
    return {"bad": bad}


def gen_recurrent_oracle(rng, n):
    for a in gen_automata(rng, n):
        yield a


# ------------------------------------------------------------------ oracle: remove_long_paths
def run_rlp_oracle(inp):
    A, ref = make(inp)
    before = U.views(A)
    starts = list(A.start_vertices)
    bad = []
    roots = sorted(ref.V, key=U.key)
    for root in ([None] if starts and starts[0] in ref.V else []) + roots[:inp["maxroots"]]:
        r0 = starts[0] if root is None else root
        dist, dq = {r0: 0}, collections.deque([r0])
        while dq:
            v = dq.popleft()
            for t, l, h in ref.E:
                if t == v and h not in dist:
                    dist[h] = dist[v] + 1
                    dq.append(h)
        on_shortest = {(t, l, h) for t, l, h in ref.E if t in dist and dist.get(h) == dist[t] + 1}
        for ties in (True, False):
            H = A.remove_long_paths(root=root, edge_ties=ties)
            Hd = A.remove_long_paths(root=root, edge_ties=ties, return_distances=True)       # G17: the three options together
            Hd = Hd[0] if isinstance(Hd, tuple) else Hd
            if ties and U.canon(U.views(Hd)) != U.canon(U.views(H)):
                bad.append(["rlp-return_distances-changes-the-result", root, ties])
            vw = U.views(H)
            g, o, i = U.edge_counts(vw)
            kept = set(g)
            pb = U.coherence_problems(vw, U.Ref(ref.V, kept))
            if pb:
                bad.append(["rlp-views", root, ties] + pb)
            if list(H.start_vertices) != [r0]:
                bad.append(["rlp-start-vertex", root, list(H.start_vertices)])
            else:
                hw = collections.Counter(U.capped(H.enumerate_words(3)))
                want_w = collections.Counter("".join(w) for n in range(4) for w, _ in U.Ref(ref.V, kept).lang(r0, n))
                if hw != want_w or not H.accepts(""):
                    bad.append(["rlp-language-from-root", root, ties])
            if ties and kept != on_shortest:
                bad.append(["rlp-ties", root, sorted(kept, key=repr), sorted(on_shortest, key=repr)])
            if not ties:
                if not kept <= on_shortest:
                    bad.append(["rlp-noties-not-on-shortest-path", root])
                par = collections.defaultdict(set)
                for t, l, h in kept:
                    par[h].add(t)
                if any(len(par[w]) != 1 for w in dist if w != r0) or par.get(r0):
                    bad.append(["rlp-noties-not-a-spanning-tree", root])
        if U.canon(U.views(A)) != U.canon(before):
            bad.append(["original-changed", root])
        if bad:
            break
    return {"bad": bad[:4]}


def gen_rlp_oracle(rng, n):
    for a in gen_automata(rng, n):
        a = dict(a)
        a["maxroots"] = 4
        yield a


# ------------------------------------------------------------------ oracle: aliasing between automata
DERIVE = ["deepcopy", "recurrent", "rename", "multiple1", "multiple2", "multiple3", "even", "rlp_ties", "rlp_tree"]


def derive(A, ref, how):
    if how == "deepcopy":
        return copy.deepcopy(A)
    if how == "recurrent":
        return A.recurrent(inplace=False)
    if how == "rename":
        return A.rename_generators({l: l.upper() if l.upper() != l else l.lower() for l in labels_of(ref)}, inplace=False)
    if how.startswith("multiple"):
        with U.time_limit(MULT_SECONDS):
            return A.automaton_multiple(int(how[-1]))
    if how == "even":
        with U.time_limit(MULT_SECONDS):
            return A.even_automaton()
    return A.remove_long_paths(edge_ties=(how == "rlp_ties"))


def snap(A):
    return json_key(U.canon(U.views(A)))


def json_key(x):
    import json
    return json.dumps(x, sort_keys=True, default=repr)


def mutate_all(B):
    """edit an automaton in place in every way the class offers (each edit on its own: some may raise)"""
    edits = []
    pairs = [(v, w) for v in list(B.vertices()) for w in list(B.neighbors_out(v))]
    verts = list(B.vertices())
    edits.append(lambda: B.add_edges([(v, w, "_p") for v, w in pairs]))                   # appends to existing label lists
    edits.append(lambda: B.add_edges([(v, w, ["_q", "_r"]) for v, w in pairs[:2]], elist=True))
    edits.append(lambda: B.add_vertices(["_n"]))
    edits.append(lambda: B.add_edges([("_n", verts[0] if verts else "_n", "_e"), (verts[-1] if verts else "_n", "_m", "_f")]))
    edits.append(lambda: B.start_vertices.append("_s"))
    edits.append(lambda: B.start_vertices.__setitem__(0, "_t"))
    edits.append(lambda: B.delete_vertex(verts[0]))
    edits.append(lambda: B.delete_vertices(verts[1:2]))
    edits.append(lambda: B.rename_generators({l: str(l) + "_" for l in {l for _, _, l in B.edges(with_labels=True)}}, inplace=True))
    edits.append(lambda: B.recurrent(inplace=True))
    edits.append(lambda: B.add_vertices(["_after"]))
    for e in edits:
        try:
            e()
        except Exception as ex:
            if type(ex).__name__ in ("Timeout", "CallTimeout"):
                raise


def run_alias_oracle(inp):
    bad = []
    kept = []          # (description, automaton, snapshot, reference-or-None): re-examined at the very end
    for idx, a in enumerate(inp["autos"]):
        A, ref = make(a)
        starts = list(A.start_vertices)
        ok_start = bool(starts) and set(starts) <= ref.V
        kept.append((["original", idx], A, snap(A)))
        for how in DERIVE:
            if how != "deepcopy" and how != "recurrent" and how != "rename" and not ok_start:
                continue
            if how.startswith("multiple") and multiple_pops(ref, starts, int(how[-1]), 200) > 200:
                continue
            if how == "even" and multiple_pops(ref, starts, 2, 200) > 200:
                continue
            # (a) editing the result must not change the original
            A1, _ = make(a)
            before = snap(A1)
            try:
                B = derive(A1, ref, how)
            except U.CallTimeout:
                bad.append(["did-not-return", idx, how])
                continue
            mutate_all(B)
            if snap(A1) != before:
                bad.append(["editing-the-result-changed-the-original", idx, how])
            # (b) editing the original must not change the result
            A2, _ = make(a)
            B2 = derive(A2, ref, how)
            b_before = snap(B2)
            mutate_all(A2)
            if snap(B2) != b_before:
                bad.append(["editing-the-original-changed-the-result", idx, how])
            # (c) results of one process do not depend on what was built before: compare with the reference, keep for later
            B3 = derive(A, ref, how)
            if how.startswith("multiple") or how == "even":
                k = 2 if how == "even" else int(how[-1])
                pb = U.coherence_problems(U.views(B3), multiple_ref(ref, starts, k))
                if pb or list(B3.start_vertices) != starts:
                    bad.append(["derived-automaton-differs-from-reference", idx, how] + pb)
            kept.append((["derived", idx, how], B3, snap(B3)))
    # (d) the constructor neither keeps nor modifies its arguments
    for idx, a in enumerate(inp["autos"]):
        init = a["init"]
        if init["route"] not in ("graph", "out"):
            continue
        if init["route"] == "graph":
            arg = {v: {l: w for l, w in d} for v, d in init["d"]}
        else:
            arg = {v: {w: list(ls) for w, ls in d} for v, d in init["d"]}
        st = list(init["starts"])
        arg0, st0 = copy.deepcopy(arg), list(st)
        A = FSA(arg, start_vertices=st, graph_dict=(init["route"] == "graph"))
        if arg != arg0 or st != st0:
            bad.append(["constructor-modified-its-argument", idx, init["route"]])
        before = snap(A)
        for v in list(arg):
            if init["route"] == "graph":
                arg[v]["_z"] = v
            else:
                for w in arg[v]:
                    arg[v][w].append("_z")
                arg[v]["_w"] = ["_y"]
        arg["_k"] = {}
        st.append("_s")
        if snap(A) != before:
            bad.append(["editing-the-constructor-argument-changed-the-automaton", idx, init["route"]])
        arg1, st1 = copy.deepcopy(arg), list(st)
        mutate_all(A)
        if arg != arg1 or st != st1:
            bad.append(["editing-the-automaton-changed-the-constructor-argument", idx, init["route"]])
    # (e) nothing built later has touched anything built earlier; the class defaults are still empty
    for desc, X, s0 in kept:
        if snap(X) != s0:
            bad.append(["changed-by-later-constructions"] + desc)
    E = FSA()
    if list(E.vertices()) or list(E.start_vertices) or list(E.edges()):
        bad.append(["FSA()-is-not-empty-any-more", list(E.vertices()), list(E.start_vertices)])
    return {"bad": bad[:5]}


def gen_alias_oracle(rng, n):
    for _ in range(n):
        autos = []
        for _ in range(rng.choice([2, 3, 4])):
            a = rand_aut(rng)
            if rng.random() < 0.3 and a["init"]["route"] in ("graph", "out"):
                a["init"]["starts"] = a["init"]["starts"] + [rng.choice(U.VS)]      # several start vertices
            autos.append(a)
        yield {"autos": autos}



# ------------------------------------------------------------------ oracle: derived automata as inputs of further operations
CHAIN_OPS = ["copy", "recurrent", "rename", "multiple2", "multiple3", "multiple1", "rlp"]


def run_chain_oracle(inp):
    """G18: multiple of a multiple, recurrent of a renamed copy, shortest-path version of a recurrent version, …
    every intermediate automaton is compared with the reference of the same chain"""
    A, ref = make(inp)
    starts = list(A.start_vertices)
    bad = []
    originals = []
    for n, how in enumerate(inp["chain"]):
        before = snap(A)
        if how == "copy":
            B, r2, st2 = copy.deepcopy(A), ref.clone(), list(starts)
        elif how == "recurrent":
            B = A.recurrent(inplace=False)
            r2 = ref.clone(); r2.recurrent(); st2 = list(starts)
        elif how == "rename":
            labs = labels_of(ref)
            m = {l: labs[(j + 1) % len(labs)] for j, l in enumerate(labs)}      # a cyclic shift: injective on the labels in use
            B = A.rename_generators(dict(m), inplace=False)
            r2 = U.Ref(ref.V, {(t, m[l], h) for t, l, h in ref.E}); st2 = list(starts)
        elif how.startswith("multiple"):
            k = int(how[-1])
            if not starts or not set(starts) <= ref.V or not all(isinstance(l, str) for l in labels_of(ref)):
                break
            if multiple_pops(ref, starts, k, 150) > 150:
                break
            # add_edges tests `label in list` for each of the k-walks between two vertices: quadratic in their number
            # (27 parallel labels after one multiple3 give 19683 walks in the next one) — keep the call within its time limit
            if max((len(ref.lang(v, k)) for v in ref.V), default=0) > 600:
                break
            with U.time_limit(MULT_SECONDS):
                B = A.automaton_multiple(k)
            r2 = multiple_ref(ref, starts, k); st2 = list(starts)
        else:
            if not starts or starts[0] not in ref.V:
                break
            B = A.remove_long_paths(edge_ties=True)
            r0 = starts[0]
            dist, dq = {r0: 0}, collections.deque([r0])
            while dq:
                v = dq.popleft()
                for t, l, h in ref.E:
                    if t == v and h not in dist:
                        dist[h] = dist[v] + 1
                        dq.append(h)
            r2 = U.Ref(ref.V, {(t, l, h) for t, l, h in ref.E if t in dist and dist.get(h) == dist[t] + 1}); st2 = [r0]
        pb = U.coherence_problems(U.views(B), r2)
        if list(B.start_vertices) != st2:
            pb.append("start-list")
        if pb:
            bad.append(["step %d (%s) of the chain" % (n, how)] + pb)
            break
        if snap(A) != before:
            bad.append(["step %d (%s) changed its input" % (n, how)])
            break
        originals.append((A, before))
        if len(labels_of(r2)) <= 6:            # the query families are exhaustive over the alphabet: keep them for small ones
            check_lang(B, r2, 2, 2, bad, "after %s" % "+".join(inp["chain"][:n + 1]))
        if bad:
            break
        A, ref, starts = B, r2, st2
    for X, s0 in originals:
        if snap(X) != s0:
            bad.append(["an earlier automaton of the chain changed later"])
            break
    return {"bad": bad[:3]}


def gen_chain_oracle(rng, n):
    for a in gen_automata(rng, n, exhaustive=(), alphabets=("default", "case")):
        a = dict(a)
        chain = [rng.choice(CHAIN_OPS) for _ in range(rng.choice([2, 3, 3, 4]))]
        while sum(1 for c in chain if c in ("multiple2", "multiple3")) > 2:          # at most k = 9 in total
            chain[max(j for j, c in enumerate(chain) if c in ("multiple2", "multiple3"))] = "multiple1"
        a["chain"] = chain
        yield a



# ------------------------------------------------------------------ oracle: plain-string queries on a k-multiple automaton
def run_multiple_string(inp):
    """the enumerators of A_k yield plain strings; asking A_k's own acceptance test about such a string"""
    A, ref = make(inp)
    starts = list(A.start_vertices)
    bad = []
    if not starts or not set(starts) <= ref.V or not all(isinstance(l, str) and len(l) == 1 for l in labels_of(ref)):
        return {"bad": []}
    for k in (2, 3):
        if multiple_pops(ref, starts, k, 200) > 200:
            continue
        with U.time_limit(MULT_SECONDS):
            B = A.automaton_multiple(k)
        for w, e in itertools.islice(U.capped(B.enumerate_words(2, with_states=True)), 0, 40):
            if w and not B.accepts(w):
                bad.append(["multiple-accepts-plain-string", k, w])
                break
    return {"bad": bad[:2]}


def gen_multiple_string(rng, n):
    for a in gen_automata(rng, n, alphabets=("default", "case")):
        yield a


# ------------------------------------------------------------------ oracle: every keyword option of the API
import inspect  # noqa: E402

# what each (method, option) is known to mean; everything else found in the signatures is still exercised (negated /
# set) and must at least leave the automaton intact
KNOWN_OPTIONS = {("add_edges", "elist"), ("add_edges", "ignore_redundant"), ("recurrent", "inplace"),
                 ("remove_long_paths", "root"), ("remove_long_paths", "edge_ties"), ("remove_long_paths", "return_distances"),
                 ("follow_word", "start_vertex"), ("enumerate_fixed_length_paths", "start_vertex"),
                 ("enumerate_fixed_length_paths", "with_states"), ("enumerate_words", "start_vertex"),
                 ("enumerate_words", "with_states"), ("rename_generators", "inplace"), ("accepts", "start_vertex"),
                 ("edges", "with_labels"), ("__init__", "vert_dict"), ("__init__", "start_vertices"), ("__init__", "graph_dict")}


def api_options():
    out = []
    for name, fn in inspect.getmembers(FSA, predicate=inspect.isfunction):
        if name.startswith("_") and name != "__init__":
            continue
        for pn, prm in inspect.signature(fn).parameters.items():
            if prm.default is not inspect.Parameter.empty:
                out.append((name, pn, prm.default))
    return out


def run_options(inp):
    """call every public method with every keyword option set to a non-default value and compare with the reference"""
    bad = []
    A0, ref = make(inp)
    starts = list(A0.start_vertices)
    vs = sorted(ref.V, key=U.key)
    ls = labels_of(ref)
    E = ref.E
    snap0 = U.canon(U.views(A0))
    for name, pn, default in api_options():
        A, _ = make(inp)
        values = [not default] if isinstance(default, bool) else (vs[:2] if default is None else [])
        if (name, pn) == ("__init__", "vert_dict") or (name, pn) == ("__init__", "start_vertices"):
            continue                      # exercised by every construction
        for val in values:
            try:
                if name == "__init__":
                    od = {v: {} for v in vs}
                    for t, l, h in E:
                        od[t].setdefault(h, []).append(l)
                    B = FSA(od, start_vertices=list(starts), graph_dict=False)
                    pb = U.coherence_problems(U.views(B), ref)
                    if pb:
                        bad.append(["FSA(graph_dict=False)"] + pb)
                elif name == "add_edges":
                    free = [(t, h, l) for t in vs for h in vs for l in ls + ["y"] if ref.step(t, l) in (None, h)][:3]
                    if not free:
                        continue
                    t, h, l = free[0]
                    kw = {pn: val}
                    arg = [(t, h, [l, l] if kw.get("elist") else l)]
                    A.add_edges(arg, **kw)
                    r2 = ref.clone(); r2.V |= {t, h}
                    dup = (t, l, h) in r2.E and kw.get("ignore_redundant") is False
                    r2.E.add((t, l, h))
                    pb = U.coherence_problems(U.views(A), r2)
                    if dup:
                        pb = [x for x in pb if not x.startswith("dup-")]      # ignore_redundant=False asks for the repetition
                    if pb:
                        bad.append(["add_edges", pn, val] + pb)
                    # whatever the views were asked to repeat, the *language* has each accepted word once (wave 6: an
                    # enumeration walking the outgoing view listed a word twice after a repeated add_edges)
                    if starts and starts[0] in r2.V and all(isinstance(x, str) for (_, x, _) in r2.E):
                        for rep_ in range(2):
                            for n in range(4):
                                want = collections.Counter(("".join(w), repr(e)) for w, e in r2.lang(starts[0], n))
                                got = collections.Counter((w, repr(e)) for w, e in U.capped(A.enumerate_fixed_length_paths(n, with_states=True)))
                                if got != want:
                                    bad.append(["add_edges", pn, val, "then enumerate_fixed_length_paths", n, sorted(got.elements())[:6], sorted(want.elements())[:6]])
                                    break
                            if rep_ == 0:
                                # the same edge once more with ignore_redundant=False (both spellings): still one path per word
                                A.add_edges([(t, h, l)], ignore_redundant=False)
                                A.add_edges([(t, h, [l])], elist=True, ignore_redundant=False)
                elif name == "recurrent":
                    r2 = ref.clone(); r2.recurrent()
                    R = A.recurrent(**{pn: val})
                    tgt = A if val else R
                    pb = U.coherence_problems(U.views(tgt), r2)
                    if pb or (val and R is not None) or (not val and U.canon(U.views(A)) != snap0):
                        bad.append(["recurrent", pn, val] + pb)
                elif name == "remove_long_paths":
                    if not (starts and starts[0] in ref.V):
                        continue
                    base = U.canon(U.views(A.remove_long_paths()))
                    res = A.remove_long_paths(**{pn: val})
                    if pn == "return_distances":
                        H = res[0] if isinstance(res, tuple) else res
                        if U.canon(U.views(H)) != base:
                            bad.append(["remove_long_paths", pn, "result differs from the default call"])
                    elif pn == "root":
                        if list(res.start_vertices) != [val]:
                            bad.append(["remove_long_paths", pn, val, "start vertex"])
                    elif pn == "edge_ties":
                        g, _, _ = U.edge_counts(U.views(res))
                        if not set(g) <= {(t, l, h) for t, l, h in E}:
                            bad.append(["remove_long_paths", pn, val, "foreign edge"])
                elif name in ("follow_word", "accepts"):
                    for w in words_upto(ls, 2):
                        end = ref.follow(val, w)
                        if name == "accepts":
                            if A.accepts(pyword(w), **{pn: val}) != (end is not None):
                                bad.append([name, pn, val, pyword(w)])
                        else:
                            try:
                                got = A.follow_word(pyword(w), **{pn: val})
                            except FSAException:
                                got = None
                            if got != end:
                                bad.append([name, pn, val, pyword(w)])
                elif name in ("enumerate_fixed_length_paths", "enumerate_words"):
                    if not all(isinstance(l, str) for l in ls):
                        continue
                    s0 = val if pn == "start_vertex" else (starts[0] if starts and starts[0] in ref.V else None)
                    if s0 is None:
                        continue
                    kw = {pn: val}
                    got = collections.Counter(map(repr, U.capped(getattr(A, name)(2, **kw))))
                    if name == "enumerate_words":
                        paths = [p for n in range(3) for p in ref.lang(s0, n)]
                    else:
                        paths = ref.lang(s0, 2)
                    if kw.get("with_states"):
                        want = collections.Counter(repr((cat(w), e)) for w, e in paths)
                    else:
                        want = collections.Counter(repr(cat(w)) for w, _ in paths)
                    if got != want:
                        bad.append([name, pn, val])
                elif name == "rename_generators":
                    m = {l: l for l in ls}
                    R = A.rename_generators(m, **{pn: val})
                    if (val and R is not None) or (not val and (R is None or U.coherence_problems(U.views(R), ref))):
                        bad.append([name, pn, val])
                elif name == "edges":
                    got = sorted(map(repr, A.edges(**{pn: val})))
                    want = sorted(repr((t, h, l)) if val else repr((t, h)) for t, l, h in E)
                    if got != want:
                        bad.append([name, pn, val])
                else:
                    # an option this harness has no semantics for: exercise it, the automaton must stay what it was
                    args = []
                    for qn, q in list(inspect.signature(getattr(FSA, name)).parameters.items())[1:]:
                        if q.default is inspect.Parameter.empty:
                            args.append(vs[0] if vs else 0)
                    try:
                        r = getattr(A, name)(*args, **{pn: val})
                        if inspect.isgenerator(r):
                            list(U.capped(r))
                    except (KeyError, ValueError, FSAException, TypeError, IndexError):
                        pass
                # (an option this harness knows no semantics for is only exercised: a new keyword is not a violation)
                if name not in ("add_edges",) and not (name in ("recurrent", "rename_generators") and val is True):
                    if U.canon(U.views(A)) != snap0:
                        bad.append([name, pn, val, "the call changed the automaton"])
            except U.CallTimeout:
                raise
            except Exception as e:
                if type(e).__name__ == "Timeout":
                    raise
                bad.append([name, pn, repr(val), "raised " + type(e).__name__ + ": " + str(e)[:80]])
    return {"bad": bad[:4]}


def gen_options(rng, n):
    for a in gen_automata(rng, n, exhaustive=()):
        yield a



CLAUSES = [
    Clause("lang_corr", "corr", gen_lang_corr, U.bounded(run_queries), judge_queries, lean=lean_queries,
           site="fsa.FSA.follow_word/accepts/initial_*_subword/enumerate_*", budget={"quick": 500, "thorough": 8000},
           what="exhaustive automata (1x3, 2x2), random automata <= 10 states and automata reached by edit histories: follow_word, accepts, "
                "longest accepted / shortest rejected prefix on all words <= 3 (+ foreign letter), enumerate_fixed_length_paths / enumerate_words "
                "(n <= 4, every start vertex, a non-vertex) vs the Lean model; final views unchanged"),
    Clause("builtin_lang_corr", "corr", gen_builtin_lang, U.bounded(run_queries), judge_queries, lean=lean_queries,
           site="fsa.load_builtin + walks", budget={"quick": 18, "thorough": 18},
           what="the 18 built-in automata: the same queries (words <= 2, enumeration n <= 3)"),
    Clause("ops_corr", "corr", gen_ops_corr, U.bounded(run_queries), judge_queries, lean=lean_queries,
           site="fsa.FSA.automaton_multiple/rename_generators/recurrent/remove_long_paths",
           budget={"quick": 150, "thorough": 6000},
           what="automaton_multiple k=0..4 (views and enumeration), rename (permutation, fresh letters, incomplete map, non-injective map), "
                "recurrent, remove_long_paths for every root x edge_ties, each as the three views vs the Lean model; original unchanged"),
    Clause("lang_oracle", "oracle", gen_lang_oracle, U.bounded(run_lang_oracle),
           judge_bad("accepts / follow_word / prefixes / enumerators agree with the reference language, each accepted word listed once"),
           site="fsa.FSA walks and enumerators", budget={"quick": 450, "thorough": 8000},
           what="reference = set of triples; all words <= 4 over the labels + a foreign letter, default start and explicit start vertices, n <= 4, "
                "with and without states; then a history on the same object — start_vertices reassigned, its list edited in place (setitem, "
                "insert, append; several start vertices), graph edits — with every query family re-checked after each step"),
    Clause("multiple_oracle", "oracle", gen_multiple_oracle, U.bounded(run_multiple_oracle),
           judge_bad("L(A_k) = accepted words of length divisible by k, each once; A_k coherent; A unchanged"),
           site="fsa.FSA.automaton_multiple / even_automaton", budget={"quick": 600, "thorough": 8000},
           what="k = 1..4, words up to length 6, even_automaton = multiple(2), block-wise accepts on A_k"),
    Clause("rename_oracle", "oracle", gen_rename_oracle, U.bounded(run_rename_oracle),
           judge_bad("renamed language = letterwise image; original unchanged unless inplace"),
           site="fsa.FSA.rename_generators", budget={"quick": 400, "thorough": 4000},
           what="all injective maps of the labels into labels + fresh letters (<= 12 sampled when more)"),
    Clause("recurrent_oracle", "oracle", gen_recurrent_oracle, U.bounded(run_recurrent_oracle),
           judge_bad("recurrent() = greatest sub-automaton in which every vertex has an incoming and an outgoing edge (brute force over subsets)"),
           site="fsa.FSA.recurrent", budget={"quick": 800, "thorough": 8000},
           what="brute-force greatest fixed point over all vertex subsets; inplace and copy variants"),
    Clause("rlp_oracle", "oracle", gen_rlp_oracle, U.bounded(run_rlp_oracle),
           judge_bad("remove_long_paths keeps exactly the edges with dist(head) = dist(tail)+1 (edge_ties) / a spanning tree of them (no ties)"),
           site="fsa.FSA.remove_long_paths", budget={"quick": 600, "thorough": 6000},
           what="independent BFS distances, every root, both edge_ties settings, original unchanged; the result starts at the root and enumerates its language"),
    Clause("multiple_string_oracle", "oracle", gen_multiple_string, U.bounded(run_multiple_string),
           judge_bad("a word enumerated by the k-multiple automaton is accepted by its own acceptance test when given as the plain string it was enumerated as"),
           site="fsa.FSA.automaton_multiple + accepts", budget={"quick": 60, "thorough": 600},
           what="KNOWN FINDING C10-multiple-plain-string: labels of A_k are k-letter strings, follow_word iterates a str letter by letter"),
    Clause("options_oracle", "oracle", gen_options, U.bounded(run_options),
           judge_bad("every keyword option of every public FSA method, enumerated from the signatures, behaves as the reference says"),
           site="fsa.FSA public methods (inspect.signature)", budget={"quick": 150, "thorough": 3000},
           what="for each (method, option with a default) found by inspect: the boolean negated / a vertex supplied; result compared with the "
                "set reference (elist, ignore_redundant, inplace, root, edge_ties, return_distances, start_vertex, with_states, with_labels, "
                "graph_dict); an option the harness has no semantics for is exercised and must leave the automaton intact"),
    Clause("chain_oracle", "oracle", gen_chain_oracle, U.bounded(run_chain_oracle),
           judge_bad("derived automata are automata: each operation applied to the RESULT of another one gives what the reference gives for the chain"),
           site="fsa.FSA non-in-place operations composed", budget={"quick": 200, "thorough": 4000},
           what="chains of 2-4 operations out of deepcopy / recurrent / rename / multiple 1-3 / remove_long_paths (multiple of a multiple, "
                "recurrent of a renamed copy, shortest-path version of a recurrent version …): views, start list and every query family of "
                "each intermediate result vs the reference, inputs unchanged"),
    Clause("alias_oracle", "oracle", gen_alias_oracle, U.bounded(run_alias_oracle),
           judge_bad("automata of one process are independent objects: editing a derived automaton (views or start list) never changes the original, "
                     "and vice versa; the constructor neither keeps nor modifies its arguments; later constructions never change earlier automata"),
           site="fsa.FSA.__init__/recurrent/rename_generators/automaton_multiple/even_automaton/remove_long_paths + copy.deepcopy",
           budget={"quick": 60, "thorough": 1500},
           what="2-4 automata per case built and derived (deepcopy, recurrent, rename, multiple 1-3, even, remove_long_paths x2) in ONE process; every "
                "in-place edit (parallel labels, elist, vertices, edges, start list append/assign, delete, rename, recurrent) applied to result / "
                "original / constructor argument; all earlier snapshots re-examined at the end; k-multiples compared with the reference closure"),
]

from props import _defence as DF  # noqa: E402
CLAUSES.append(
    Clause("defence_oracle", "oracle", DF.gen_lang, U.bounded(DF.run_defence), DF.judge_defence,
           site="fsa.FSA (every mutator, accessor and constructor; two automata over the same names in one process)",
           budget={"quick": 200, "thorough": 4000},
           what="generic defences: (G1) after every step the object answers like a fresh object built from its current label view; (G2) argument "
                "collections passed as list / tuple / generator / iterator / dict view / string and checked unmodified, everything the accessors "
                "and enumerators return is mutated in place and the automaton re-examined, no mutable container shared between automata or with "
                "caller arguments (identity scan); (G3) an unrelated automaton over the same vertex names and labels (and FSA(), built-ins, free "
                "and derived automata) is built, edited and queried between the steps, in both orders"))
